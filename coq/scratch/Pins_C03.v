From KV Require Import Bytes RustInt Range CacheControl Cache CacheProofs Fixture CacheX CacheXProofs CacheXWitness CacheKey CacheKeyProofs RuleSet CacheRules CacheRulesProofs CacheReachProofs CacheFixtureProofs C03.
Open Scope N_scope.
Set Printing Width 100000.
Set Printing Depth 100000.
Check cache_transparent.
Check cache_transparent_from_empty.
Check cache_hit_same_class.
Check key_injective.
Check query_start_needed.
Check key_is_raw_path.
Check decoded_key_collides_refuted.
Check cache_transparent_uri.
Check cache_hit_same_uri.
Check override_poisons_refuted.
Check stream_vary_refuted.
Check qm_variant_refuted.
Check vary_rules_most_specific.
Check vary_exact_rule_wins.
Check vary_longest_pattern_wins.
Check length_first_shadows_exact_refuted.
Check cache_transparent_reachable.
Check fixture_honours_contract.
Check fixture_cache_transparent.
