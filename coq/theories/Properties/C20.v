(** C20 — HTTP/2 and HTTP/1.1 clients get the same answer.  Statements only.

    Connection-level (hop-by-hop) parts of an answer, dropped by [normalise]: the HTTP version and the headers
    [connection], [keep-alive], [proxy-connection], [transfer-encoding], [upgrade], [te] (the connection-specific
    fields of RFC 9113 8.2.2, which HTTP/2 must not carry), [content-length] and [alt-svc] ([hop]).  Everything
    else — status, every other header (with multiplicity and order), body bytes — is compared. *)
From KV Require Import Bytes RustInt Range CacheControl Cache CacheProofs Protocols ProtocolsProofs.
Open Scope N_scope.

(** [send] alone: for every layer-4 response, request method, [sanitize_data], error page, TLS-or-plain HTTP/1
    connection and [alt-svc] value, and every Package chain that is oblivious to the version and to connection-level
    headers: the two protocols' answers differ at most in the version and in [hop] headers. *)
Theorem send_parity : forall checked error_page vn pkg, pkg_oblivious pkg ->
  forall secure1 alt m sd r,
    onorm (send checked error_page vn pkg H1 secure1 alt m sd r) = onorm (send checked error_page vn pkg H2 true alt m sd r).
Proof. exact ProtocolsProofs.send_parity. Qed.

(** The same above the shared layer 4, for every host configuration of the model (handlers, cache on/off,
    If-Modified-Since on/off, Prime rewrite, negotiation, vary rules, compressor), every cache / handler state
    and every request (conditional, ranged, HEAD, with a body, unsafe path, ...). *)
Theorem protocol_parity :
  forall hstate compute cache_on ims_on parse_ims sanitize_ok prime negotiate vary_tuple vary_header
         checked error_page vary_rules pkg alt sanitize encode hversion,
    pkg_oblivious pkg ->
    forall secure1 st now r0,
      onorm (answer hstate compute cache_on ims_on parse_ims sanitize_ok prime negotiate vary_tuple vary_header
                    checked error_page vary_rules pkg alt sanitize encode hversion H1 secure1 st now r0)
      = onorm (answer hstate compute cache_on ims_on parse_ims sanitize_ok prime negotiate vary_tuple vary_header
                      checked error_page vary_rules pkg alt sanitize encode hversion H2 true st now r0).
Proof. exact answer_parity. Qed.

(** HEAD: on either protocol the answer to HEAD is the answer to GET without the body (same status, same headers —
    on HTTP/1 including the GET's [content-length]); hence HEAD over HTTP/1 = HEAD over HTTP/2 = GET over HTTP/2
    minus the body, up to [normalise]. *)
Theorem head_is_get_without_body : forall checked error_page vn pkg p secure alt sd r,
  send checked error_page vn pkg p secure alt M_HEAD sd r = odrop (send checked error_page vn pkg p secure alt M_GET sd r).
Proof. exact send_head. Qed.

Theorem head_parity : forall checked error_page vn pkg, pkg_oblivious pkg ->
  forall secure1 alt sd r,
    onorm (send checked error_page vn pkg H1 secure1 alt M_HEAD sd r)
      = odrop (onorm (send checked error_page vn pkg H2 true alt M_GET sd r)) /\
    onorm (send checked error_page vn pkg H2 true alt M_HEAD sd r)
      = odrop (onorm (send checked error_page vn pkg H2 true alt M_GET sd r)).
Proof. exact head_parity_lemma. Qed.

(** the hypothesis of the parity theorems is met by the harness's Package menu *)
Theorem pkg_menu_is_oblivious : forall ops,
  Forall (fun o => hop (pkg_op_name o) = false) ops -> pkg_oblivious (pkg_menu ops).
Proof. exact pkg_menu_oblivious. Qed.

(** The head the (repaired) HTTP/2 arm hands to the h2 crate never contains what h2's [check_headers] refuses: every
    request is answered on HTTP/2 too.  (Before the repair a handler response with e.g. [keep-alive: timeout=5] was
    answered over HTTP/1.1 and never over HTTP/2 — the h2 stream was reset.) *)
Theorem h2_never_refuses : forall checked error_page vn pkg p secure alt m sd r,
  send checked error_page vn pkg p secure alt m sd r <> Ok WRefused.
Proof. exact send_never_refused. Qed.

Section C20_streams.
  Variable hstate : Type.
  Variable compute : hstate -> request -> bool -> fat * hstate * list bytes.
  Variable ims_on : bool.
  Variable parse_ims : bytes -> option Z.
  Variable sanitize_ok : request -> bool.
  Variable prime : request -> request.
  Variable negotiate : request -> fat -> option (N * bytes).
  Variable vary_tuple : request -> tuple.
  Variable vary_header : request -> fat -> list (bytes * bytes).
  (** the handler contract of C03 ([cache_transparent]) *)
  Variable cf : request -> bool -> fat.
  Hypothesis Hpure : forall hs r ok, fst (fst (compute hs r ok)) = cf r ok.
  Hypothesis contract : forall r r',
    get_or_head (rq_method r) = true -> get_or_head (rq_method r') = true ->
    vary_tuple r = vary_tuple r' -> rq_path r = rq_path r' ->
    (qm (cf r true) = true -> path_query r = path_query r') ->
    cf r true = cf r' true.
  Hypothesis pref_uniform : forall r r', rq_path r = rq_path r' -> qm (cf r true) = qm (cf r' true).
  Hypothesis Herr : forall r, f_spref (cf r false) = SP_NONE.

  (** For every set of streams (unconditional requests), every schedule of the tasks' blocks — i.e. every order in
      which requests are looked up and handlers finish —, every initial cache state meeting the invariant, every
      handler state and clock: whatever stream [s] is answered is, byte for byte on the wire, the HTTP/2 answer to
      ITS OWN request sent alone to a host with an empty cache.  (The cache's [last-modified] wall-clock stamp is not
      part of the model's response.) *)
  Theorem stream_independence :
    forall (reqs : list (N * request)) checked error_page vary_rules pkg alt sanitize encode hversion
           c hs now dt sched hs' now',
      Inv vary_tuple cf c -> Forall (fun e => no_ims ims_on prime (snd e)) reqs ->
      forall s r0 rp,
        In (s, r0, rp) (run_streams hstate compute true ims_on parse_ims sanitize_ok prime negotiate vary_tuple
                                    vary_header ((c, hs), open_streams reqs) now dt sched) ->
        In (s, r0) reqs /\
        stream_wire checked error_page vary_rules pkg alt sanitize encode hversion (s, r0, rp)
        = (s, answer hstate compute true ims_on parse_ims sanitize_ok prime negotiate vary_tuple vary_header
                     checked error_page vary_rules pkg alt sanitize encode hversion H2 true ([], hs') now' r0).
  Proof. exact (streams_wire hstate compute ims_on parse_ims sanitize_ok prime negotiate vary_tuple vary_header cf
                             Hpure contract pref_uniform Herr). Qed.
End C20_streams.

(** Exactly one answer per stream (no contract needed): no stream is answered twice, and every stream whose task is
    given its two turns by the schedule is answered, with its own request. *)
Theorem streams_answered_exactly_once :
  forall hstate compute ims_on parse_ims sanitize_ok prime negotiate vary_tuple vary_header
         (reqs : list (N * request)) c hs now dt sched,
    NoDup (map fst reqs) ->
    (forall s, In s (map fst reqs) -> (count_occ N.eq_dec sched s >= 2)%nat) ->
    NoDup (map (fun o => fst (fst o))
               (run_streams hstate compute true ims_on parse_ims sanitize_ok prime negotiate vary_tuple vary_header
                            ((c, hs), open_streams reqs) now dt sched)) /\
    forall s r0, In (s, r0) reqs ->
      exists rp, In (s, r0, rp)
                    (run_streams hstate compute true ims_on parse_ims sanitize_ok prime negotiate vary_tuple vary_header
                                 ((c, hs), open_streams reqs) now dt sched).
Proof. exact streams_exactly_once. Qed.

(** ---- request bodies: a HISTORY of requests on one connection of either protocol ---- *)
(** [send] never panics on what [sanitize_request] hands it (the range part of [sanitize_data] computed from the
    request's Range header, an unsafe path = [Err 400]) for every response whose body length fits a u64 — so neither
    the HTTP/1 connection task nor an HTTP/2 request task dies in it. *)
Theorem send_never_panics : forall checked error_page vn pkg p secure alt m path_ok hdr r,
  N.of_nat (length (rs_body r)) <= u64_max ->
  send checked error_page vn pkg p secure alt m (sd_of path_ok hdr) r <> Panic.
Proof. exact send_no_panic. Qed.

(** For every host configuration, cache / handler state, clock and EVERY history of requests on one connection —
    each with a request body of any length (declared where the method has a request body), read by its handler
    completely, partly ([read_to_bytes(l)]) or not at all (no handler run: refused Range, 404, 405, cache hit), the
    bytes segmented arbitrarily ([b_early]) —: on the repaired HTTP/1 connection as on the HTTP/2 connection every
    request is answered, by the application in the state its predecessors left ([answers]: no connection state
    takes part), and the two sequences of answers are equal up to [normalise]. *)
Theorem history_parity :
  forall hstate compute cache_on ims_on parse_ims sanitize_ok prime negotiate vary_tuple vary_header
         checked error_page vary_rules pkg alt sanitize encode hversion wants,
    pkg_oblivious pkg ->
    forall secure1 st now dt bs,
      Forall (fun b => pr_no_request_body (rq_method (b_req b)) = true -> b_len b = 0) bs ->
      Forall (fun w => w <> Panic)
             (answers hstate compute cache_on ims_on parse_ims sanitize_ok prime negotiate vary_tuple vary_header
                      checked error_page vary_rules pkg alt sanitize encode hversion H2 true st now dt bs) ->
      conn_hist hstate compute cache_on ims_on parse_ims sanitize_ok prime negotiate vary_tuple vary_header
                checked error_page vary_rules pkg alt sanitize encode hversion wants H1 true secure1 st now dt bs
        = map Some (answers hstate compute cache_on ims_on parse_ims sanitize_ok prime negotiate vary_tuple vary_header
                            checked error_page vary_rules pkg alt sanitize encode hversion H1 secure1 st now dt bs) /\
      conn_hist hstate compute cache_on ims_on parse_ims sanitize_ok prime negotiate vary_tuple vary_header
                checked error_page vary_rules pkg alt sanitize encode hversion wants H2 true true st now dt bs
        = map Some (answers hstate compute cache_on ims_on parse_ims sanitize_ok prime negotiate vary_tuple vary_header
                            checked error_page vary_rules pkg alt sanitize encode hversion H2 true st now dt bs) /\
      map onorm (answers hstate compute cache_on ims_on parse_ims sanitize_ok prime negotiate vary_tuple vary_header
                         checked error_page vary_rules pkg alt sanitize encode hversion H1 secure1 st now dt bs)
        = map onorm (answers hstate compute cache_on ims_on parse_ims sanitize_ok prime negotiate vary_tuple vary_header
                             checked error_page vary_rules pkg alt sanitize encode hversion H2 true st now dt bs).
Proof. exact history_parity_lemma. Qed.

(** The executable history model of the correspondence (components proto.pair / proto.answered) meets its specification
    component on EVERY input of the domain ([ex_ok]) — ordinary, streamed ([ex_fut]: framed, or of unknown length) and
    limiter-answered ([ex_limited], 429) exchanges, a 416 page with the [vary] header of any rule set —: all requests are
    answered with a response on both connections, equal up to [normalise].  An answer that ends the HTTP/1 connection
    (a streamed body of unknown length, repair 7334433: [ex_closes]) may only be the last of the history
    ([exs ++ tail], [tail] of at most one exchange). *)
Theorem pair_history_answered : forall checked ops alt e416,
  Forall (fun o => hop (pkg_op_name o) = false) ops ->
  forall secure1 exs tail,
    Forall ex_ok (exs ++ tail) -> Forall (fun e => ex_closes e = false) exs -> (length tail <= 1)%nat ->
    forallb is_resp (pair_hist checked ops alt e416 H1 true secure1 (exs ++ tail)) = true /\
    forallb is_resp (pair_hist checked ops alt e416 H2 true true (exs ++ tail)) = true /\
    map (option_map onorm) (pair_hist checked ops alt e416 H1 true secure1 (exs ++ tail))
      = map (option_map onorm) (pair_hist checked ops alt e416 H2 true true (exs ++ tail)).
Proof. exact pair_hist_answered. Qed.

(** ... and "only the last" cannot be dropped: after a response whose body ends with the connection the HTTP/1 connection
    answers nothing more, the HTTP/2 connection does — a difference of the CONNECTIONS (the client opens another one), not of
    the answers: each request's own answer is the same on both protocols up to [normalise]. *)
Theorem close_delimited_not_last_refuted : exists checked ops alt e416 exs,
  Forall ex_ok exs /\
  map is_resp (pair_hist checked ops alt e416 H1 true true exs) = [true; false] /\
  map is_resp (pair_hist checked ops alt e416 H2 true true exs) = [true; true] /\
  map (send_ex checked ops alt e416 H1 true) exs
    = [Ok (WClosed (mkResp V11 200 [(B "content-type", B "text/plain"); (B "connection", B "close")] (B "first second")));
       Ok (WResp (mkResp V11 200 [(B "content-type", B "text/plain"); (B "content-length", B "0"); (B "connection", B "keep-alive")] []))] /\
  map (option_map onorm) (map (fun e => Some (send_ex checked ops alt e416 H1 true e)) exs)
    = map (option_map onorm) (pair_hist checked ops alt e416 H2 true true exs).
Proof. exact close_delimited_not_last_refuted_lemma. Qed.

(** The code before the repair dfe4d54 ([drain = false]): false.  PUT with a refused Range and 700 unread body bytes,
    then GET: HTTP/1.1 never answers the GET, HTTP/2 does (replayed on the real code before the repair: known-findings.txt). *)
Theorem unread_request_body_v0_refuted : exists checked ops alt e416 exs,
  Forall (fun e => pr_no_request_body (ex_method e) = true -> ex_blen e = 0) exs /\
  forallb is_resp (pair_hist checked ops alt e416 H1 false true exs) = false /\
  forallb is_resp (pair_hist checked ops alt e416 H2 false true exs) = true /\
  forallb is_resp (pair_hist checked ops alt e416 H1 true true exs) = true.
Proof. exact unread_body_v0_refuted_lemma. Qed.

(** The domain hypothesis of [history_parity] / [pair_history_answered] cannot be dropped: a GET that carries body
    bytes arriving after its head is answered, but the next request on that HTTP/1 connection is not. *)
Theorem undeclared_request_body_refuted : exists checked ops alt e416 exs,
  forallb is_resp (pair_hist checked ops alt e416 H1 true true exs) = false /\
  forallb is_resp (pair_hist checked ops alt e416 H2 true true exs) = true.
Proof. exact undeclared_body_refuted_lemma. Qed.

(** ---- the response pipe: head, body, future, close ([SendKind::send], [ResponsePipe], [ResponseBodyPipe]) ---- *)
(** the harness's Package menu leaves [content-length] alone (second hypothesis of the pipe theorems) *)
Theorem pkg_menu_keeps_content_length : forall ops,
  Forall (fun o => hop (pkg_op_name o) = false) ops -> pkg_keeps_length (pkg_menu ops).
Proof. exact pkg_menu_keeps_length. Qed.

(** Without a streaming future the pipe-level model — [send_response(head, false)], the body unless HEAD, [close], and the
    client's framing of what arrives — IS [send]: every theorem about [send] is a theorem about the operations on the pipe. *)
Theorem send_is_pipe_send : forall checked error_page vn pkg head_future p secure alt m sd r,
  pkg_keeps_length pkg ->
  send_pipe checked error_page vn pkg head_future p secure alt m sd r None = send checked error_page vn pkg p secure alt m sd r.
Proof. exact send_pipe_no_future. Qed.

(** A response with a streaming future (FatResponse::with_future / with_future_and_len: [extensions::stream_body], streamed
    proxy bodies), for every chunk list, method, protocol: the client receives ONE well-framed response whose body is what
    [Response::body] (dropped for a 1xx / 204 / 304: [head_only]) and then the future wrote, in that order (nothing for
    HEAD), with the end-to-end headers of the head the Package chain produced — whenever the announced length is the
    number of bytes written, or no length is announced at all ([fut_framed]): then, on HTTP/1, the body ends with the
    connection ([WClosed]; [close_delimited]).  The one exception is transcribed too: a HEAD request answered 101 runs its
    future (the protocol switch), and bytes it writes would follow the head of a HEAD answer. *)
Theorem streamed_answer : forall checked error_page vn pkg p secure alt m sd r cs ol,
  pkg_keeps_length pkg -> fut_framed (head_only r) (Some (cs, ol)) ->
  exists v h, send_pipe checked error_page vn pkg false p secure alt m sd r (Some (cs, ol))
              = (if (m =? M_HEAD) && (rs_status r =? 101) && negb (N.of_nat (length (concat cs)) =? 0) then Ok WBroken else
                 Ok ((if match p with H1 => close_delimited r (Some (cs, ol)) | H2 => false end then WClosed else WResp)
                       (mkResp v (rs_status r) h (if m =? M_HEAD then [] else rs_body (head_only r) ++ concat cs))))
              /\ v = ensure_version p (rs_version r)
              /\ strip h = strip (pkg v (match ol with
                                         | Some n => ensure_length p n (rs_headers (add_alt_svc secure alt r))
                                         | None => rs_headers (add_alt_svc secure alt r) end)).
Proof. exact send_pipe_stream. Qed.

(** protocol parity at the level of the pipe, streamed or not *)
Theorem stream_parity : forall checked error_page vn pkg secure1 alt m sd r f,
  pkg_oblivious pkg -> pkg_keeps_length pkg -> fut_framed (head_only r) f ->
  onorm (send_pipe checked error_page vn pkg false H1 secure1 alt m sd r f)
  = onorm (send_pipe checked error_page vn pkg false H2 true alt m sd r f).
Proof. exact send_pipe_parity. Qed.

(** The code before the repair d63bba7 ([head_future = true]) ran the future for HEAD too: the streamed bytes follow the head
    of the HEAD answer on both protocols — out-of-step HTTP/1 connection, DATA the h2 client refuses (replayed on the real
    code before the repair: known-findings.txt). *)
Theorem head_stream_v0_refuted : exists r cs n,
  fut_framed r (Some (cs, Some n)) /\
  send_pipe false (fun _ => r) [] (fun _ h => h) true H1 true None M_HEAD (Ok None) r (Some (cs, Some n)) = Ok WBroken /\
  send_pipe false (fun _ => r) [] (fun _ h => h) true H2 true None M_HEAD (Ok None) r (Some (cs, Some n)) = Ok WBroken /\
  (exists w1 w2, send_pipe false (fun _ => r) [] (fun _ h => h) false H1 true None M_HEAD (Ok None) r (Some (cs, Some n)) = Ok (WResp w1) /\
                 send_pipe false (fun _ => r) [] (fun _ h => h) false H2 true None M_HEAD (Ok None) r (Some (cs, Some n)) = Ok (WResp w2) /\
                 rs_body w1 = [] /\ rs_body w2 = []).
Proof. exact head_stream_v0_refuted_lemma. Qed.

(** Why the head is sent with [end_of_stream = false] also when [Response::body] is empty: with [true] an HTTP/2 client would
    get an empty body for a streamed response (h2 refuses every later write) while the HTTP/1.1 client gets the stream. *)
Theorem head_end_of_stream_refuted : exists v st h cs,
  concat cs <> [] /\
  receive H1 M_GET false (pipe_send H1 true v st (ensure_length H1 (N.of_nat (length (concat cs))) h) None cs)
    = WResp (mkResp v st (h1_connection st (ensure_length H1 (N.of_nat (length (concat cs))) h)) (concat cs)) /\
  receive H2 M_GET false (pipe_send H2 true v st h None cs) = WResp (mkResp v st (h2_strip h) []) /\
  receive H2 M_GET false (pipe_send H2 false v st h None cs) = WResp (mkResp v st (h2_strip h) (concat cs)).
Proof. exact head_end_of_stream_refuted_lemma. Qed.

(** [handle_connection]'s own answers (429 of the request limiter, 409 without a host): for every page and method both
    protocols deliver it, equal up to [normalise], without a body for HEAD. *)
Theorem limiter_answer_parity : forall m r,
  onorm (send_direct H1 m r) = onorm (send_direct H2 m r) /\
  forall p, exists h, send_direct p m r
                      = Ok (WResp (mkResp (ensure_version p (rs_version r)) (rs_status r) h (if m =? M_HEAD then [] else rs_body r)))
                      /\ strip h = strip (rs_headers r).
Proof. intros m r. split; [apply send_direct_parity | intros p; apply send_direct_resp]. Qed.

(** The filter of the HTTP/2 arm is total: for EVERY header set — every subset of the connection-specific headers, with or
    without [connection], whatever [connection] nominates — the head handed to h2 passes h2's check, and no end-to-end
    header is touched. *)
Theorem connection_headers_filter_total : forall h,
  h2_refuses (h2_strip h) = false /\ strip (h2_strip h) = strip h.
Proof. intros h. split; [apply h2_strip_accepted | apply strip_h2_strip]. Qed.

(** ---- request bodies: which bytes the handler gets ---- *)
(** For every request body, every way of cutting it into DATA frames (HTTP/2; empty frames included), every amount of it
    arriving with the head (HTTP/1) and every limit: the first [read_to_bytes(max_len)] returns the first [max_len] bytes
    of the body on both protocols. *)
Theorem read_to_bytes_parity : forall body early conn frames max_len,
  early ++ conn = body -> concat frames = body ->
  fst (h1_read_to_bytes (mkH1B early conn (N.of_nat (length body)) 0) max_len) = firstn (N.to_nat max_len) body /\
  fst (h2_read_to_bytes frames max_len) = firstn (N.to_nat max_len) body.
Proof. exact read_to_bytes_parity_lemma. Qed.

(** The repaired [Http1Body] (9c56fae / 2820a60 / eedb756, made for C07) keeps an [offset]: a handler that took [off] bytes of
    the body through [AsyncRead] and then calls [read_to_bytes] gets the bytes that FOLLOW — the rest of the early bytes, then
    what the client still sends — for every such state in which [content_length - offset] is what is left of the body. *)
Theorem read_to_bytes_resumes : forall early conn cl off max_len,
  cl - off = N.of_nat (length (skipn (N.to_nat off) early ++ conn)) ->
  fst (h1_read_to_bytes (mkH1B early conn cl off) max_len) = firstn (N.to_nat max_len) (skipn (N.to_nat off) early ++ conn).
Proof. exact h1_read_rest. Qed.

(** Known class h2-body-read-again: the parity ends with the first call.  A handler that calls [read_to_bytes] again after a
    call that hit its limit gets nothing on HTTP/1.1 ("Don't return anything next time we are called!") and the DATA frames
    after the one in which the limit was reached on HTTP/2. *)
Theorem second_read_refuted : exists body early conn frames l1 l2,
  early ++ conn = body /\ concat frames = body /\
  h1_reads (mkH1B early conn (N.of_nat (length body)) 0) [l1; l2] <> h2_reads frames [l1; l2].
Proof. exact second_read_refuted_lemma. Qed.

(** [extensions::stream_body] (repaired, d675f8a) meets [fut_framed] for every file and Range: the length it announces is the
    number of bytes its future writes (the whole file without a Range); before the repair it was not. *)
Theorem stream_body_framed : forall file a c,
  match stream_plan true file (Some (a, c)) with Some (b, n) => n = N.of_nat (length b) | None => True end /\
  match stream_plan true file None with Some (b, n) => n = N.of_nat (length b) /\ b = file | None => False end.
Proof. exact stream_plan_framed_lemma. Qed.

Theorem stream_body_v0_refuted : exists file a c, a < c /\
  match stream_plan false file (Some (a, c)) with Some (b, n) => n <> N.of_nat (length b) | None => False end.
Proof. exact stream_plan_v0_refuted_lemma. Qed.

(** ... and, as repaired on /repo main (d675f8a), it answers a Range as [apply_to_response] answers it for a body in memory
    ([apply_range] of Model/Range.v, C09's subject — skipped by [SendKind::send] for streams): 416 when the start is at or
    after the end of the file, else 206, the same [content-range], the same bytes, the length of those bytes. *)
Theorem stream_body_as_in_memory : forall checked file a c, a < c ->
  match apply_range checked (Some (a, c)) 200 file with
  | Ok g => stream_plan true file (Some (a, c)) = Some (r_body g, N.of_nat (length (r_body g))) /\
            stream_head true file (Some (a, c)) = Some (r_status g, r_content_range g)
  | Err _ => stream_plan true file (Some (a, c)) = None /\ stream_head true file (Some (a, c)) = None
  | Panic => False
  end.
Proof. exact stream_body_as_in_memory_lemma. Qed.

(** ---- the repairs of [SendKind::send] made for other properties, as they show on both protocols ---- *)
(** 21f0154: a Range that starts at or after the end of the body is answered with the host's 416 page, which carries the
    [vary] header of the request's rules whenever it has a body ([send_parity] covers it: [vnames] is quantified). *)
Theorem range_not_satisfiable_page : forall checked error_page vn a c r,
  (rs_status r =? 304) = false -> N.of_nat (length (rs_body r)) <= a ->
  apply_sd checked error_page vn (Ok (Some (a, c))) r = Ok (vary_from_settings vn (error_page 416)) /\
  (rs_body (error_page 416) <> [] ->
   assoc H_VARY (rs_headers (vary_from_settings vn (error_page 416))) = Some (vary_value vn) /\
   rs_body (vary_from_settings vn (error_page 416)) = rs_body (error_page 416)).
Proof. exact range_not_satisfiable_page_lemma. Qed.

(** 89e2956: a 1xx / 204 / 304 answer to a request without a Range header has no body on either protocol, whatever an
    extension left on the response. *)
Theorem bodiless_status_answer : forall checked error_page vn pkg p secure alt m path_ok r w,
  ends_with_head (rs_status r) = true ->
  send checked error_page vn pkg p secure alt m (sd_of path_ok None) r = Ok (WResp w) ->
  rs_body w = [] /\ rs_status w = rs_status r.
Proof. exact bodiless_status_lemma. Qed.

(** ---- non-vacuity ---- *)
(** a Package chain like [Extensions::new()]'s (referrer-policy unless present, server always) is oblivious *)
Example menu_meets_contract :
  pkg_oblivious (pkg_menu [POrInsert (B "referrer-policy") (B "no-referrer"); PInsert (B "server") (B "Kvarn")]).
Proof. apply pkg_menu_oblivious. repeat constructor. Qed.

(** a ranged GET of a compressible page: both protocols answer 206 with the same end-to-end headers and slice;
    HTTP/1.1 additionally states [content-length], [connection] and — over TLS — [alt-svc] *)
Definition ex_resp : resp :=
  mkResp V11 200 [(B "content-type", B "text/plain"); (B "content-encoding", B "gzip")] (B "0123456789").
Definition ex_pkg := pkg_menu [POrInsert (B "referrer-policy") (B "no-referrer"); PInsert (B "server") (B "Kvarn")].
Example parity_instance :
  send false (fun _ => ex_resp) [] ex_pkg H2 true (Some (B "h3")) M_GET (sanitize_range (Some (B "bytes=2-5"))) ex_resp
    = Ok (WResp (mkResp V2 206
            [(B "content-type", B "text/plain"); (B "content-encoding", B "gzip"); (B "alt-svc", B "h3");
             (B "content-range", B "bytes 2-5/10"); (B "referrer-policy", B "no-referrer"); (B "server", B "Kvarn")]
            (B "2345")))
  /\ send false (fun _ => ex_resp) [] ex_pkg H1 false (Some (B "h3")) M_GET (sanitize_range (Some (B "bytes=2-5"))) ex_resp
    = Ok (WResp (mkResp V11 206
            [(B "content-type", B "text/plain"); (B "content-encoding", B "gzip");
             (B "content-range", B "bytes 2-5/10"); (B "content-length", B "4");
             (B "referrer-policy", B "no-referrer"); (B "server", B "Kvarn"); (B "connection", B "keep-alive")]
            (B "2345"))).
Proof. split; vm_compute; reflexivity. Qed.

(** a handler that leaves connection-specific headers and its own (stale) content-length on a compressed page:
    HTTP/1.1 corrects the length and manages [connection] itself, HTTP/2 drops the connection-specific fields and
    corrects the length; what remains is equal *)
Example connection_headers_instance :
  let r := mkResp V11 200 [(B "keep-alive", B "timeout=5"); (B "content-length", B "200"); (B "upgrade", B "h2c");
                           (B "content-encoding", B "gzip")] (B "abc") in
  send false (fun _ => r) [] ex_pkg H2 true None M_GET (Ok None) r
    = Ok (WResp (mkResp V2 200 [(B "content-encoding", B "gzip"); (B "accept-ranges", B "bytes"); (B "content-length", B "3");
                                (B "referrer-policy", B "no-referrer"); (B "server", B "Kvarn")] (B "abc")))
  /\ send false (fun _ => r) [] ex_pkg H1 true None M_GET (Ok None) r
    = Ok (WResp (mkResp V11 200 [(B "keep-alive", B "timeout=5"); (B "upgrade", B "h2c"); (B "content-encoding", B "gzip");
                                 (B "accept-ranges", B "bytes"); (B "content-length", B "3");
                                 (B "referrer-policy", B "no-referrer"); (B "server", B "Kvarn");
                                 (B "connection", B "keep-alive")] (B "abc"))).
Proof. split; vm_compute; reflexivity. Qed.

(** the stream contract is satisfiable: a host whose pages are a function of the path *)
Definition ex_cf (r : request) (ok : bool) : fat :=
  if ok then mkFat 200 [] (rq_path r) SP_FULL false else mkFat 400 [] [] SP_NONE false.
Definition ex_compute (hs : N) (r : request) (ok : bool) : fat * N * list bytes := (ex_cf r ok, hs + 1, []).
Example stream_contract_satisfiable :
  (forall hs r ok, fst (fst (ex_compute hs r ok)) = ex_cf r ok) /\
  (forall r r', get_or_head (rq_method r) = true -> get_or_head (rq_method r') = true ->
                (fun _ : request => @nil bytes) r = (fun _ : request => @nil bytes) r' -> rq_path r = rq_path r' ->
                (qm (ex_cf r true) = true -> path_query r = path_query r') -> ex_cf r true = ex_cf r' true) /\
  (forall r r', rq_path r = rq_path r' -> qm (ex_cf r true) = qm (ex_cf r' true)) /\
  (forall r, f_spref (ex_cf r false) = SP_NONE).
Proof.
  repeat split.
  - intros r r' _ _ _ Hp _. unfold ex_cf. rewrite Hp. reflexivity.
Qed.

(** three streams, two of them for the same page, handlers finishing in the order 3,1,2 after all lookups missed:
    every stream gets its own page *)
Example streams_instance :
  let rq p := mkReq M_GET p None [] 0 in
  map (fun o => (fst (fst o), rp_body (snd o)))
      (run_streams N ex_compute true true (fun _ => None) (fun _ => true) (fun r => r) (fun _ _ => None)
                   (fun _ => []) (fun _ _ => [])
                   (([], 0), open_streams [(1, rq (B "/a")); (2, rq (B "/b")); (3, rq (B "/a"))]) 0 1 [1; 2; 3; 3; 1; 2])
  = [(3, B "/a"); (1, B "/a"); (2, B "/b")].
Proof. vm_compute. reflexivity. Qed.

(** a history with request bodies nobody reads: PUT /a with 700 bytes (100 of them arriving with the head), GET /b,
    POST /a with 5000 bytes.  It meets the hypotheses of [history_parity]; the repaired HTTP/1 connection answers all
    three, the connection before the repair only the first. *)
Definition ex_hist (drain : bool) (p : proto) (bs : list breq) : list (option (outcome wreply)) :=
  conn_hist N ex_compute true true (fun _ => None) (fun _ => true) (fun r => r) (fun _ _ => None) (fun _ => [])
            (fun _ _ => []) false (fun _ => ex_resp) (fun _ => []) ex_pkg None (fun _ => Ok None) (fun _ _ h b => (h, b)) V11
            (fun _ _ => None) p drain true ([], 0) 0 1 bs.
Example history_instance :
  let rq m p := mkReq m p None [] 0 in
  let bs := [mkBreq (rq M_OTHER (B "/a")) 700 100; mkBreq (rq M_GET (B "/b")) 0 0; mkBreq (rq M_POST (B "/a")) 5000 0] in
  Forall (fun b => pr_no_request_body (rq_method (b_req b)) = true -> b_len b = 0) bs /\
  Forall (fun w => w <> Panic)
         (answers N ex_compute true true (fun _ => None) (fun _ => true) (fun r => r) (fun _ _ => None) (fun _ => [])
                  (fun _ _ => []) false (fun _ => ex_resp) (fun _ => []) ex_pkg None (fun _ => Ok None) (fun _ _ h b => (h, b)) V11
                  H2 true ([], 0) 0 1 bs) /\
  map is_resp (ex_hist true H1 bs) = [true; true; true] /\
  map is_resp (ex_hist true H2 bs) = [true; true; true] /\
  map is_resp (ex_hist false H1 bs) = [true; false; false].
Proof.
  cbv zeta. split; [|split; [|vm_compute; repeat split]].
  - repeat constructor; cbn; intros H; try reflexivity; discriminate H.
  - vm_compute. repeat constructor; discriminate.
Qed.

(** a streamed response: an empty [Response] body, three chunks from the future, length announced: both protocols deliver
    the chunks in order; HTTP/1.1 states the overridden length *)
Example streamed_instance :
  let r := mkResp V11 200 [(B "content-type", B "text/plain")] [] in
  let f := Some ([B "first "; []; B "second"], Some 12) in
  fut_framed r f /\
  send_pipe false (fun _ => r) [] ex_pkg false H2 true None M_GET (Ok None) r f
    = Ok (WResp (mkResp V2 200 [(B "content-type", B "text/plain"); (B "referrer-policy", B "no-referrer"); (B "server", B "Kvarn")]
                        (B "first second"))) /\
  send_pipe false (fun _ => r) [] ex_pkg false H1 true None M_GET (Ok None) r f
    = Ok (WResp (mkResp V11 200 [(B "content-type", B "text/plain"); (B "content-length", B "12");
                                 (B "referrer-policy", B "no-referrer"); (B "server", B "Kvarn"); (B "connection", B "keep-alive")]
                        (B "first second"))).
Proof. cbv zeta. split; [reflexivity|]. split; vm_compute; reflexivity. Qed.

(** a 40-byte body in DATA frames of 16 + 16 + 8 bytes, 5 of them with the HTTP/1 head, limit 20: both handlers get bytes 0..19 *)
Example read_instance :
  let body := map N.of_nat (seq 0 40) in
  firstn 5 body ++ skipn 5 body = body /\
  concat [firstn 16 body; firstn 16 (skipn 16 body); skipn 32 body] = body /\
  fst (h1_read_to_bytes (mkH1B (firstn 5 body) (skipn 5 body) 40 0) 20) = map N.of_nat (seq 0 20) /\
  fst (h2_read_to_bytes [firstn 16 body; firstn 16 (skipn 16 body); skipn 32 body] 20) = map N.of_nat (seq 0 20).
Proof. vm_compute. repeat split. Qed.

(** every subset of the connection-specific headers, here without [connection]: dropped on HTTP/2, kept on HTTP/1.1 *)
Example filter_instance :
  h2_strip [(B "keep-alive", B "timeout=5"); (B "x-a", B "1"); (B "te", B "gzip"); (B "upgrade", B "h2c")] = [(B "x-a", B "1")] /\
  h2_strip [(B "connection", B "x-nominated"); (B "x-nominated", B "v"); (B "te", B "trailers")]
    = [(B "x-nominated", B "v"); (B "te", B "trailers")].
Proof. split; vm_compute; reflexivity. Qed.

(** a streamed response of UNKNOWN length ([with_future], no [content-length]): HTTP/2 ends the stream, HTTP/1.1 says
    [connection: close] and ends the connection; the bodies are equal — and the domain of [pair_history_answered] holds it *)
Example unknown_length_instance :
  let r := mkResp V11 200 [(B "content-type", B "text/plain")] [] in
  let f := Some ([B "first "; []; B "second"], None) in
  fut_framed (head_only r) f /\ close_delimited r f = true /\
  send_pipe false (fun _ => r) [] ex_pkg false H2 true None M_GET (Ok None) r f
    = Ok (WResp (mkResp V2 200 [(B "content-type", B "text/plain"); (B "referrer-policy", B "no-referrer"); (B "server", B "Kvarn")]
                        (B "first second"))) /\
  send_pipe false (fun _ => r) [] ex_pkg false H1 true None M_GET (Ok None) r f
    = Ok (WClosed (mkResp V11 200 [(B "content-type", B "text/plain");
                                   (B "referrer-policy", B "no-referrer"); (B "server", B "Kvarn"); (B "connection", B "close")]
                          (B "first second"))) /\
  ex_ok (mkEx M_GET None true r 0 None false f []) /\ ex_closes (mkEx M_GET None true r 0 None false f []) = true.
Proof.
  cbv zeta. split; [reflexivity|]. split; [reflexivity|]. split; [vm_compute; reflexivity|]. split; [vm_compute; reflexivity|].
  split; [|reflexivity]. repeat split; cbn; try lia; try discriminate.
Qed.

(** the merged repairs on one response: a 204 on which an extension left a body and [transfer-encoding] — HTTP/1.1 states
    [content-length: 0] and drops [transfer-encoding], neither protocol sends the body; a Range beyond a 10-byte page is
    answered with the 416 page carrying [vary] (rule names: accept-language) *)
Example merged_repairs_instance :
  let r := mkResp V11 204 [(B "transfer-encoding", B "identity"); (B "x-a", B "1")] (B "left over") in
  send false (fun _ => ex_resp) [] (fun _ h => h) H1 false None M_GET (Ok None) r
    = Ok (WResp (mkResp V11 204 [(B "x-a", B "1"); (B "content-length", B "0"); (B "connection", B "keep-alive")] [])) /\
  send false (fun _ => ex_resp) [] (fun _ h => h) H2 true None M_GET (Ok None) r
    = Ok (WResp (mkResp V2 204 [(B "x-a", B "1")] [])) /\
  send false (fun _ => ex_resp) [B "accept-language"] (fun _ h => h) H2 true None M_GET (sanitize_range (Some (B "bytes=10-12"))) ex_resp
    = Ok (WResp (mkResp V2 200 [(B "content-type", B "text/plain"); (B "content-encoding", B "gzip");
                                (B "vary", B "accept-encoding, range, accept-language")] (B "0123456789"))).
Proof. cbv zeta. split; [vm_compute; reflexivity|]. split; vm_compute; reflexivity. Qed.

(** [stream_body] on a 6-byte file, Range 2-100 (end exclusive 101): 206, bytes 2..5, [content-range: bytes 2-5/6] — and a
    reader that already took 3 of 8 body bytes through [AsyncRead] gets bytes 3.. from [read_to_bytes] *)
Example stream_body_instance :
  stream_plan true (B "abcdef") (Some (2, 101)) = Some (B "cdef", 4) /\
  stream_head true (B "abcdef") (Some (2, 101)) = Some (206, Some (B "bytes 2-5/6")) /\
  stream_head true (B "abcdef") (Some (6, 7)) = None /\
  fst (h1_read_to_bytes (mkH1B (B "01234") (B "567") 8 3) 4) = B "3456".
Proof. vm_compute. repeat split. Qed.

(** ---- the END of an HTTP/1 connection ([handle_connection]: [break], then [http.shutdown()]) ---- *)
(** The history model with the end of the connection in it ([pair_hist_end], what "proto.pair" / "proto.answered" /
    "proto.server" run) IS [pair_hist] for the code as it is ([shutdown = true]: the loop is left by [break] and the
    connection shut down, close_notify on TLS) — every history theorem above speaks about it — and, on a plain TCP
    connection, whichever way the loop is left. *)
Theorem connection_end_keeps_histories : forall checked ops alt e416 drain exs,
  (forall p secure, pair_hist_end true checked ops alt e416 p drain secure exs = pair_hist checked ops alt e416 p drain secure exs) /\
  (forall shutdown, pair_hist_end shutdown checked ops alt e416 H1 drain false exs = pair_hist checked ops alt e416 H1 drain false exs).
Proof.
  intros. split; [intros; apply pair_hist_end_shutdown | intros; apply pair_hist_end_plain].
Qed.

(** An answer whose body only the end of the connection delimits (no [content-length], not HEAD) is complete iff that end
    is an orderly one: over TLS iff the connection was shut down (close_notify) — else the client cannot tell it from a
    truncated body ([WBroken]).  Every other answer is complete whatever the end of the connection. *)
Theorem close_delimited_complete_iff_close_notify : forall (m : N) (r : resp) (secure shutdown : bool),
  (end_delimited m r = true ->
     (receive_end m (h1_conn_end secure shutdown) (WClosed r) = WClosed r <-> (secure = false \/ shutdown = true)) /\
     (receive_end m (h1_conn_end secure shutdown) (WClosed r) = WBroken <-> (secure = true /\ shutdown = false))) /\
  (end_delimited m r = false -> receive_end m (h1_conn_end secure shutdown) (WClosed r) = WClosed r) /\
  (forall (ce : conn_end) (w : wreply), (forall x, w <> WClosed x) -> receive_end m ce w = w).
Proof. exact close_delimited_iff_close_notify_lemma. Qed.

(** The variant that leaves the request loop by [return] instead of [break] (no [shutdown]): a streamed answer of unknown
    length is complete on HTTP/2 and on plain HTTP/1, and not cleanly terminated on HTTP/1 over TLS. *)
Theorem close_without_notify_refuted : exists checked ops alt e416 exs body,
  Forall ex_ok exs /\ body <> [] /\
  pair_hist_end false checked ops alt e416 H1 true true exs = [Some (Ok WBroken)] /\
  pair_hist_end false checked ops alt e416 H1 true false exs
    = [Some (Ok (WClosed (mkResp V11 200 [(B "content-type", B "text/plain"); (B "connection", B "close")] body)))] /\
  pair_hist_end false checked ops alt e416 H2 true true exs = [Some (Ok (WResp (mkResp V2 200 [(B "content-type", B "text/plain")] body)))] /\
  pair_hist_end true checked ops alt e416 H1 true true exs
    = [Some (Ok (WClosed (mkResp V11 200 [(B "content-type", B "text/plain"); (B "connection", B "close")] body)))].
Proof. exact close_without_notify_refuted_lemma. Qed.

Example end_delimited_instance :
  let r := mkResp V11 200 [(B "content-type", B "text/plain"); (B "connection", B "close")] (B "first second") in
  end_delimited M_GET r = true /\ end_delimited M_HEAD r = false /\
  end_delimited M_GET (mkResp V11 200 [(B "content-length", B "12"); (B "connection", B "close")] (B "first second")) = false /\
  receive_end M_GET (h1_conn_end true false) (WClosed r) = WBroken /\
  receive_end M_GET (h1_conn_end true true) (WClosed r) = WClosed r /\
  receive_end M_HEAD (h1_conn_end true false) (WClosed r) = WClosed r.
Proof. vm_compute. repeat split. Qed.

(** ---- "requests both protocols can express": the request-head limits of the two front ends ---- *)
(** Every request head the HTTP/1 front end accepts (at most 16384 bytes with request line, field lines and blank line) is
    accepted by an HTTP/2 front end whose header-list limit (name + value + 32 per field, pseudo-headers included) is above
    8 * 16384 — h2's default, which kvarn leaves in place, is 16 MiB — and has at most 4096 fields (h2's other limit:
    24576): no request is answered by the HTTP/1 front end and refused (431) by the HTTP/2 front end. *)
Theorem head_accepted_by_both :
  8 * H1_MAX_HEAD < H2_MAX_HEADER_LIST /\
  forall (limit : N) (authority m t : bytes) (h : headers),
    8 * H1_MAX_HEAD < limit -> h1_head_ok authority m t h = true ->
    h2_head_ok limit authority m t h = true /\ N.of_nat (length h) <= 4096.
Proof. split; [exact default_header_list_limit_suffices | exact head_accepted_by_both_lemma]. Qed.

(** ... and "the same 16 KiB as the HTTP/1 head" as the HTTP/2 header-list limit is NOT the same limit: a request with 450
    small fields (a head of less than 5000 bytes on HTTP/1.1) is answered 200 over HTTP/1.1 and 431 over HTTP/2. *)
Theorem small_header_list_limit_refuted : exists (authority m t : bytes) (h : headers),
  h1_head_ok authority m t h = true /\ h1_head_len authority m t h < 5000 /\
  h2_head_ok H1_MAX_HEAD authority m t h = false /\ h2_head_ok H2_MAX_HEADER_LIST authority m t h = true /\
  run_head_gen H1_MAX_HEAD (XL [XL []; XL [XB m; XB t; x_headers h; XB []]]) = XL [XL [XN 200]; XL [XN 431]] /\
  run_head (XL [XL []; XL [XB m; XB t; x_headers h; XB []]]) = XL [XL [XN 200]; XL [XN 200]].
Proof. exact small_header_list_limit_refuted_lemma. Qed.

Example head_limits_instance :
  h1_head_len (B "localhost:8443") (B "GET") (B "/s") [(B "x-001", B "v")] = 51 /\
  h2_list_size (B "localhost:8443") (B "GET") (B "/s") [(B "x-001", B "v")] = 219 /\
  h1_head_ok (B "localhost:8443") (B "GET") (B "/s") [(B "x-001", repeat 118 (N.to_nat 16334))] = true /\
  h1_head_ok (B "localhost:8443") (B "GET") (B "/s") [(B "x-001", repeat 118 (N.to_nat 16335))] = false.
Proof. vm_compute. repeat split. Qed.

(** ---- HTTP/2: streams the client has reset ([handle_connection]'s accept loop) ---- *)
(** For every batch of streams — answered by the host's limiter or by tasks of their own, reset by the client or not, in
    any combination —: every stream the client did not reset receives its own answer and the connection is still served
    (the repaired loop: a 429 that cannot be sent because its stream was reset concerns that stream only). *)
Theorem reset_stream_is_its_own : forall qs : list h2req, h2_answered true qs = h2_reset_spec qs.
Proof. exact reset_stream_is_its_own_lemma. Qed.

(** The code before the repair: false.  A reset stream that the limiter answers ended the whole connection: the streams
    whose handlers were still running, and those not yet accepted, were never answered (replayed on the real code:
    known-findings.txt). *)
Theorem reset_limited_stream_v0_refuted : exists qs : list h2req,
  map hq_reset qs = [false; false; false; false; true; false] /\
  h2_answered false qs = ([(7, 429)], false) /\
  h2_answered true qs = ([(1, 200); (3, 200); (5, 200); (7, 429); (11, 429)], true) /\
  h2_reset_spec qs = ([(1, 200); (3, 200); (5, 200); (7, 429); (11, 429)], true).
Proof. exact reset_limited_stream_v0_refuted_lemma. Qed.

Example reset_streams_instance :
  run_rst (XL [XL []; XL []; XL [XN 1; XN 3]; XL [XL [XN 0; XN 200]; XL [XN 0; XN 404]; XL [XN 1; XN 200]; XL [XN 1; XN 200]]])
  = XL [XL [XL [XN 1; XN 200]; XL [XN 5; XN 429]]; XN 1].
Proof. vm_compute. reflexivity. Qed.
