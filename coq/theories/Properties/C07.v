(** C07 — HTTP/1 requests are parsed exactly, independent of TCP segmentation.
    Only statements here; proofs are in Proofs/Http1ReadProofs.v. *)
From KV Require Import Bytes RustInt Http1Read Http1ReadProofs.
Open Scope N_scope.
