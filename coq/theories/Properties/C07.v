(** C07 — HTTP/1 requests are parsed exactly, independent of TCP segmentation.
    Only statements here; proofs are in Proofs/Http1ReadProofs.v.

    [serve grow mode https dh max_len limit stream sched] is the model of
    [kvarn_async::read::request] followed by [Http1Body::read_to_bytes(limit)] on a connection that
    carries [stream] and hands it out in the bursts of the read schedule [sched] (each read gets
    [min burst window] bytes); afterwards the peer closes ([mode] 0), stalls (1) or fails (2).
    [grow] is the reallocation policy of [BytesMut::reserve], only assumed to keep its promise
    ([grow_ok]: the new capacity is at least [len + additional]). *)
From KV Require Import Bytes RustInt Http1Read Http1ReadOld Http1ReadProofs Http1ReadParseProofs Http1ReadLocalProofs Http1ReadLfProofs Http1ReadBodyProofs Http1ReadTermProofs.
Open Scope N_scope.

(** parse (print g) = g.  [g] ranges over the request grammar [greq_ok]: ANY method token of at most
    7 bytes (GET, PURGE, get, ...), a non-empty target without SP/CR/LF, HTTP/1.0 or
    1.1, header lines [name ":" SP^k value CRLF] (any k, including 0) with token names that are
    unique up to case and values that are field values of RFC 9110 (visible bytes, obs-text, SP and
    HTAB inside, neither starting nor ending with SP/HTAB).  [expect] is the
    specification: method, path, query, version, header list, authority (the Host value — header or
    default host's name — becomes the authority of the URI if it is one ([authority_ok]); the URI,
    i.e. scheme "://" host target, or the origin-form target alone without a usable Host value, is
    judged by the [http] crate's [Uri] parser, transcribed as [parse_uri] / [parse_origin_form]:
    [request_uri]) and the first
    [min content-length limit] bytes of whatever follows the blank line.  For every schedule that
    delivers the head and the body, every growth function, every end mode, every trailing bytes
    (the next request): the reader returns exactly that. *)
Theorem parse_print : forall grow mode https dh (max_len : nat) limit (g : greq) rest (sched : list nat) e,
  grow_ok grow -> sched_pos sched -> greq_ok g = true -> (length (print_head g) <= max_len)%nat ->
  expect https dh limit g rest = Some e ->
  (N.to_nat (N.min (body_length (g_method g) (g_hmap g)) limit) <= length rest)%nat ->
  (length (print_head g) + N.to_nat (N.min (body_length (g_method g) (g_hmap g)) limit) <= sum_sched sched)%nat ->
  exists sv, serve grow mode https dh max_len limit (print_head g ++ rest) sched = Ok sv /\ observed sv = Some e.
Proof. exact parse_print_lemma. Qed.

(** The parser alone: the printed head followed by anything parses to the printed request, and
    the bytes after the blank line are exactly what followed (no byte lost or duplicated). *)
Theorem parse_print_head : forall https dh (g : greq) extra auth path query,
  greq_ok g = true -> request_uri https (g_host dh g) (g_target g) = Some (auth, path, query) ->
  parse_request https dh (print_head g ++ extra) =
  Ok (mk_request (g_method g) path query (if g_v11 g then 11 else 10) (g_hmap g) auth extra).
Proof. exact parse_request_print. Qed.

(** The bare-LF variants the code accepts: the same for a head whose request line ([l0]), header
    lines ([fl], one flag per line, missing flags = CRLF) and blank line ([lb]) end in a bare LF
    instead of CRLF, in any mix.  [print_head_e false [] false g = print_head g]. *)
Theorem parse_print_lf : forall grow mode https dh (max_len : nat) limit (l0 : bool) (fl : list bool) (lb : bool) (g : greq) rest (sched : list nat) e,
  grow_ok grow -> sched_pos sched -> greq_ok g = true -> (length (print_head_e l0 fl lb g) <= max_len)%nat ->
  expect https dh limit g rest = Some e ->
  (N.to_nat (N.min (body_length (g_method g) (g_hmap g)) limit) <= length rest)%nat ->
  (length (print_head_e l0 fl lb g) + N.to_nat (N.min (body_length (g_method g) (g_hmap g)) limit) <= sum_sched sched)%nat ->
  exists sv, serve grow mode https dh max_len limit (print_head_e l0 fl lb g ++ rest) sched = Ok sv /\ observed sv = Some e.
Proof. exact parse_print_lf_lemma. Qed.

Theorem parse_print_head_lf : forall https dh (l0 : bool) (fl : list bool) (lb : bool) (g : greq) extra auth path query,
  greq_ok g = true -> request_uri https (g_host dh g) (g_target g) = Some (auth, path, query) ->
  parse_request https dh (print_head_e l0 fl lb g ++ extra) =
  Ok (mk_request (g_method g) path query (if g_v11 g then 11 else 10) (g_hmap g) auth extra).
Proof. exact parse_request_print_e. Qed.

(** The general header line of RFC 9110, [name ":" OWS value OWS (CRLF | LF)]: on top of the [hl_sp] spaces each
    line [i] may carry any optional whitespace [d_pre] (spaces and tabs, in any mix) before its value and any
    [d_post] after it, and end in a bare LF ([ds]: one decoration per line, [decos_ok]: whitespace only).  The request
    read is the one printed WITHOUT any of it: every header value equals what the client sent "with or without optional
    whitespace" ("Content-Length:<TAB>3<SP>" is the length 3).  [parse_print] and [parse_print_lf] are instances. *)
Theorem parse_print_ows : forall grow mode https dh (max_len : nat) limit (l0 : bool) (ds : list deco) (lb : bool) (g : greq) rest (sched : list nat) e,
  grow_ok grow -> sched_pos sched -> greq_ok g = true -> decos_ok ds (g_headers g) = true ->
  (length (print_head_d l0 ds lb g) <= max_len)%nat ->
  expect https dh limit g rest = Some e ->
  (N.to_nat (N.min (body_length (g_method g) (g_hmap g)) limit) <= length rest)%nat ->
  (length (print_head_d l0 ds lb g) + N.to_nat (N.min (body_length (g_method g) (g_hmap g)) limit) <= sum_sched sched)%nat ->
  exists sv, serve grow mode https dh max_len limit (print_head_d l0 ds lb g ++ rest) sched = Ok sv /\ observed sv = Some e.
Proof. exact parse_print_ows_lemma. Qed.

Theorem parse_print_head_ows : forall https dh (l0 : bool) (ds : list deco) (lb : bool) (g : greq) extra auth path query,
  greq_ok g = true -> decos_ok ds (g_headers g) = true ->
  request_uri https (g_host dh g) (g_target g) = Some (auth, path, query) ->
  parse_request https dh (print_head_d l0 ds lb g ++ extra) =
  Ok (mk_request (g_method g) path query (if g_v11 g then 11 else 10) (g_hmap g) auth extra).
Proof. exact parse_request_print_d. Qed.

(** Two spellings of the same request (whitespace, line ends), cut in two ways: the same request and body. *)
Theorem ows_independent : forall grow1 grow2 mode1 mode2 https dh (max_len : nat) limit (l0 l0' : bool) (ds ds' : list deco) (lb lb' : bool) (g : greq) rest (sched1 sched2 : list nat),
  grow_ok grow1 -> grow_ok grow2 -> sched_pos sched1 -> sched_pos sched2 ->
  greq_ok g = true -> decos_ok ds (g_headers g) = true -> decos_ok ds' (g_headers g) = true ->
  (length (print_head_d l0 ds lb g) <= max_len)%nat -> (length (print_head_d l0' ds' lb' g) <= max_len)%nat ->
  expect https dh limit g rest <> None ->
  (N.to_nat (N.min (body_length (g_method g) (g_hmap g)) limit) <= length rest)%nat ->
  (length (print_head_d l0 ds lb g) + N.to_nat (N.min (body_length (g_method g) (g_hmap g)) limit) <= sum_sched sched1)%nat ->
  (length (print_head_d l0' ds' lb' g) + N.to_nat (N.min (body_length (g_method g) (g_hmap g)) limit) <= sum_sched sched2)%nat ->
  exists sv1 sv2,
    serve grow1 mode1 https dh max_len limit (print_head_d l0 ds lb g ++ rest) sched1 = Ok sv1 /\
    serve grow2 mode2 https dh max_len limit (print_head_d l0' ds' lb' g ++ rest) sched2 = Ok sv2 /\
    observed sv1 = observed sv2 /\ observed sv1 <> None.
Proof. exact ows_independent_lemma. Qed.

(** Any method token of at most seven bytes followed by a space passes the early check of the head reader
    ([utils::valid_method || valid_version]), whatever follows. *)
Theorem method_token_starts : forall (m rest : bytes),
  forallb tchar m = true -> (length m <= 7)%nat -> m <> [] -> valid_start (m ++ SP :: rest) = true.
Proof. exact valid_start_token. Qed.

(** Two arbitrary ways of cutting the same bytes into reads (and two growth functions, two end
    modes) give the same request and the same body. *)
Theorem schedule_independent : forall grow1 grow2 mode1 mode2 https dh (max_len : nat) limit (g : greq) rest (sched1 sched2 : list nat),
  grow_ok grow1 -> grow_ok grow2 -> sched_pos sched1 -> sched_pos sched2 ->
  greq_ok g = true -> (length (print_head g) <= max_len)%nat ->
  expect https dh limit g rest <> None ->
  (N.to_nat (N.min (body_length (g_method g) (g_hmap g)) limit) <= length rest)%nat ->
  (length (print_head g) + N.to_nat (N.min (body_length (g_method g) (g_hmap g)) limit) <= sum_sched sched1)%nat ->
  (length (print_head g) + N.to_nat (N.min (body_length (g_method g) (g_hmap g)) limit) <= sum_sched sched2)%nat ->
  exists sv1 sv2,
    serve grow1 mode1 https dh max_len limit (print_head g ++ rest) sched1 = Ok sv1 /\
    serve grow2 mode2 https dh max_len limit (print_head g ++ rest) sched2 = Ok sv2 /\
    observed sv1 = observed sv2 /\ observed sv1 <> None.
Proof. exact schedule_independent_lemma. Qed.

(** Beyond the grammar: for EVERY byte stream (malformed heads, bare-LF line ends, anything) what
    a handler sees -- request fields and body outcome, or the error class -- is [serve_spec] of the
    delivered bytes [firstn (sum_sched sched) stream]: a function that has no schedule and no
    capacity in it (head end = first LF CR* LF, the parser run on exactly the head, the body =
    what follows).  The parser never looks past the blank line. *)
Theorem segmentation_blind : forall grow mode https dh (max_len : nat) limit stream (sched : list nat),
  grow_ok grow -> sched_pos sched ->
  result_view (serve grow mode https dh max_len limit stream sched) =
  serve_spec mode https dh max_len limit (firstn (sum_sched sched) stream).
Proof. exact serve_blind_lemma. Qed.

Theorem schedule_independent_any_stream : forall grow1 grow2 mode https dh (max_len : nat) limit stream (sched1 sched2 : list nat),
  grow_ok grow1 -> grow_ok grow2 -> sched_pos sched1 -> sched_pos sched2 ->
  firstn (sum_sched sched1) stream = firstn (sum_sched sched2) stream ->
  result_view (serve grow1 mode https dh max_len limit stream sched1) =
  result_view (serve grow2 mode https dh max_len limit stream sched2).
Proof. exact schedule_independent_any_lemma. Qed.

(** No blank line within the first [max_len] bytes (16 384 in kvarn): an error — for every read
    schedule (zero-length reads included), every growth function, every end mode. *)
Theorem head_limit : forall grow mode https dh (max_len : nat) limit stream (sched : list nat),
  contains_two_newlines (firstn max_len stream) = false ->
  exists e, serve grow mode https dh max_len limit stream sched = Err e /\
            (e = E_TOO_LONG \/ e = E_UNEXPECTED_END \/ e = E_SYNTAX).
Proof. exact head_limit_lemma. Qed.

(** The peer stops (closes, stalls until the timeout, fails) before the blank line has been
    delivered: an error, never a partial request. *)
Theorem stalled_head : forall grow mode https dh (max_len : nat) limit stream (sched : list nat),
  contains_two_newlines (firstn (sum_sched sched) stream) = false ->
  exists e, serve grow mode https dh max_len limit stream sched = Err e /\
            (e = E_TOO_LONG \/ e = E_UNEXPECTED_END \/ e = E_SYNTAX).
Proof. exact stalled_lemma. Qed.

(** "... rather than a hang": the loops that read from the connection end by themselves.  In the model a loop that has
    not ended when its fuel is used up returns [Err E_FUEL]; the fuel is the number of bytes the loop can still get, plus
    one, and one round of a loop is one [read] of the code.  For EVERY schedule -- any number of 0-byte reads anywhere in
    it --, every end mode (a peer at end of file answers every further read with 0 bytes), every growth function:
    the head reader ends with the head or with one of its three errors ... *)
Theorem head_read_ends : forall grow mode (max_len : nat) stream (sched : list nat),
  match read_headers grow (S (length stream)) mode max_len [] 512 (mk_reader stream sched) with
  | Ok _ => True
  | Err e => e = E_TOO_LONG \/ e = E_UNEXPECTED_END \/ e = E_SYNTAX
  | Panic => False
  end.
Proof. exact head_read_ends_lemma. Qed.

(** ... [read_to_bytes] ends with bytes, as [TimedOut] or as an I/O error ... *)
Theorem body_read_ends : forall grow mode early (cl limit : N) stream (sched : list nat),
  match read_to_bytes grow mode early cl limit (mk_reader stream sched) with
  | Ok _ => True
  | Err e => e = E_TIMEDOUT \/ e = E_IO
  | Panic => False
  end.
Proof. exact body_read_ends_lemma. Qed.

(** ... and so does every call of every sequence of [read] / [read_to_bytes] / [drain] on a [Http1Body]. *)
Theorem body_calls_end : forall grow mode early (cl : nat) stream (sched : list nat) (ops : list hop),
  Forall (fun o : outcome bytes => match o with Ok _ => True | Err e => e = E_TIMEDOUT \/ e = E_IO | Panic => False end)
         (fst (hb_run grow mode (hb_new early cl) (mk_reader stream sched) ops)).
Proof. exact body_calls_end_lemma. Qed.

(** The body outcome of a request that was served is never "out of fuel". *)
Theorem served_body_ends : forall grow mode https dh (max_len : nat) limit stream (sched : list nat) sv,
  serve grow mode https dh max_len limit stream sched = Ok sv ->
  match sv_body sv with Ok _ => True | Err e => e = E_TIMEDOUT \/ e = E_IO | Panic => False end.
Proof. exact serve_body_ends. Qed.

(** [Http1Body::read_to_bytes]: when the [min content_length limit] bytes are delivered, exactly
    they are returned, for every schedule, and the connection keeps everything behind them
    (the next request). *)
Theorem body_exact : forall grow mode early (cl limit : N) stream (sched : list nat),
  grow_ok grow -> sched_pos sched ->
  (N.to_nat (N.min cl limit) <= length early + Nat.min (sum_sched sched) (length stream))%nat ->
  exists r', read_to_bytes grow mode early cl limit (mk_reader stream sched) =
               Ok (firstn (N.to_nat (N.min cl limit)) (early ++ stream), r') /\
             rd_data r' = skipn (N.to_nat (N.min cl limit) - length early) stream.
Proof. exact body_exact_lemma. Qed.

(** ... and in every case (short bodies: EOF gives what there is, a stall TimedOut, a failure the
    I/O error) the result is [body_spec], a function of the delivered bytes, not of the schedule. *)
Theorem body_any_schedule : forall grow mode early (cl limit : N) stream (sched : list nat),
  grow_ok grow -> sched_pos sched ->
  match body_spec mode early cl limit (firstn (sum_sched sched) stream) with
  | Ok b => exists r', read_to_bytes grow mode early cl limit (mk_reader stream sched) = Ok (b, r')
  | Err e => read_to_bytes grow mode early cl limit (mk_reader stream sched) = Err e
  | Panic => False
  end.
Proof. exact body_any_schedule. Qed.

(** [Http1Body] as what a handler that matches on [Body::Http1] holds: an [AsyncRead].  [hb_reads mode b r ws] is the
    sequence of [read(&mut buf[..w])] calls for the window sizes [ws] on the body state [b] over the connection [r]
    (each call = one [poll_read]: early bytes first, then the connection), [hb_new early cl] the state
    [Http1Body::new] creates.  For EVERY window sequence, stream, schedule (0-byte bursts included) and end mode: what is
    handed out is a prefix of the declared body [firstn cl (early ++ stream)], so never a byte of the next request; the
    connection has lost exactly that part of it which did not come with the head; [unread] counts what is still on it. *)
Theorem body_read_capped : forall mode early (cl : nat) stream (sched ws : list nat) data b' r' e,
  hb_reads mode (hb_new early cl) (mk_reader stream sched) ws = (data, b', r', e) ->
  data = firstn (length data) (firstn cl (early ++ stream)) /\ (length data <= cl)%nat /\
  rd_data r' = skipn (length data - length early) stream /\
  hb_unread b' = (cl - length early - (length data - length early))%nat.
Proof. exact body_read_capped_lemma. Qed.

(** With at least [cl] reads of non-empty windows over a connection that delivers the body: exactly the
    [content-length] bytes, then end of file for ever (the connection is not touched again). *)
Theorem body_read_complete : forall mode early (cl : nat) stream (sched ws : list nat),
  sched_pos sched -> Forall (fun w => (0 < w)%nat) ws -> (cl <= length ws)%nat ->
  (cl <= length early + Nat.min (sum_sched sched) (length stream))%nat ->
  exists b' r', hb_reads mode (hb_new early cl) (mk_reader stream sched) ws = (firstn cl (early ++ stream), b', r', None) /\
                rd_data r' = skipn (cl - length early) stream /\ hb_unread b' = 0%nat /\
                (forall w, hb_read mode b' r' w = Ok ([], b', r')).
Proof. exact body_read_complete_lemma. Qed.

(** After any reads whatsoever [drain] (what [handle_connection] calls after the response) takes exactly the rest of
    the declared body from the connection: the next request starts at the next byte; a read after it gets nothing. *)
Theorem body_drain_aligns : forall mode early (cl : nat) stream (sched ws : list nat) data b' r',
  sched_pos sched -> Forall (fun w => (0 < w)%nat) ws ->
  (cl <= length early + Nat.min (sum_sched sched) (length stream))%nat ->
  hb_reads mode (hb_new early cl) (mk_reader stream sched) ws = (data, b', r', None) ->
  exists b'' r'', hb_drain mode b' r' = Ok (b'', r'') /\ rd_data r'' = skipn (cl - length early) stream /\ hb_unread b'' = 0%nat /\
                  (forall w, hb_read mode b'' r'' w = Ok ([], b'', r'')).
Proof. exact body_drain_aligns_lemma. Qed.

(** [read_to_bytes(limit)] after any reads through [AsyncRead] returns the rest of the declared body (up to [limit]),
    not the body from its start and not a byte of what follows it. *)
Theorem body_rest_exact : forall grow mode early (cl : nat) limit stream (sched ws : list nat) data b' r',
  grow_ok grow -> sched_pos sched -> Forall (fun w => (0 < w)%nat) ws ->
  (cl <= length early + Nat.min (sum_sched sched) (length stream))%nat ->
  hb_reads mode (hb_new early cl) (mk_reader stream sched) ws = (data, b', r', None) ->
  exists b'' r'', hb_read_to_bytes grow mode b' r' limit =
     Ok (firstn (N.to_nat limit) (skipn (length data) (firstn cl (early ++ stream))), b'', r'').
Proof. exact body_rest_exact_lemma. Qed.

(** * What was false of the code before this round's repairs (Model/Http1ReadOld.v), each witness replayed on the
      real code through the harness (known-findings.txt) *)

(** "Content-Length: 3<SP>": the value kept the space, so the body length was 0 and "abc" was read as the next request *)
Theorem ows_value_refuted : exists (h : hline) (d : deco) m e,
  name_ok (hl_name h) = true /\ value_ok (hl_value h) = true /\ deco_ok d h = true /\
  parse_headers_old (print_hlines_d [d] [h] ++ crlf) = Ok (m, e) /\
  hm_get (lower (hl_name h)) m <> Some (hl_value h) /\
  body_length (B "POST") m = 0 /\ body_length (B "POST") [(lower (hl_name h), hl_value h)] = 3.
Proof.
  exists (mk_hline (B "Content-Length") 1 (B "3")), (mk_deco [] [SP] false). eexists. eexists.
  split; [reflexivity|]. split; [reflexivity|]. split; [reflexivity|]. split; [vm_compute; reflexivity|].
  split; [vm_compute; discriminate|]. split; vm_compute; reflexivity.
Qed.

(** "PURGE /x HTTP/1.1": a method token outside the closed list ended in [Error::Syntax] before any parsing *)
Theorem method_token_refuted : exists m rest,
  forallb tchar m = true /\ (length m <= 7)%nat /\ m <> [] /\ valid_start_old (m ++ SP :: rest) = false.
Proof.
  exists (B "PURGE"), (B "/x HTTP/1.1"). split; [vm_compute; reflexivity|]. split; [vm_compute; repeat constructor|].
  split; [vm_compute; discriminate|vm_compute; reflexivity].
Qed.

(** content-length 3, "abcGET /next" on the connection, one [read] with a window of 100: twelve bytes were handed out *)
Theorem body_read_capped_refuted : exists mode early cl stream sched w got b' r',
  hb_read_old mode (hb_new early cl) (mk_reader stream sched) w = Ok (got, b', r') /\ (cl < length got)%nat.
Proof.
  exists 0, [], 3%nat, (B "abcGET /next"), [100%nat], 100%nat. eexists. eexists. eexists.
  split; [vm_compute; reflexivity|]. vm_compute. repeat constructor.
Qed.

(** content-length 5, "abcdeXYZ!" on the connection: [read] (window 3) gave "abc", then [read_to_bytes] started over
    and returned "deXYZ": three bytes of the next request *)
Theorem body_rest_refuted : exists mode early cl stream sched w got b' r' body r'',
  hb_read_old mode (hb_new early cl) (mk_reader stream sched) w = Ok (got, b', r') /\
  hb_read_to_bytes_old vec_grow mode b' r' 100 = Ok (body, r'') /\
  got ++ body <> firstn cl (early ++ stream) /\ (cl < length (got ++ body))%nat.
Proof.
  exists 0, [], 5%nat, (B "abcdeXYZ!"), [100%nat], 3%nat. eexists. eexists. eexists. eexists. eexists.
  split; [vm_compute; reflexivity|]. split; [vm_compute; reflexivity|]. split; [vm_compute; discriminate|].
  vm_compute. repeat constructor.
Qed.

(** Non-vacuity *)
Example vec_grow_keeps_promise : grow_ok vec_grow.
Proof. exact vec_grow_ok. Qed.

Example head_limit_ex :
  contains_two_newlines (firstn 20%nat (B "GET /a-long-target-that-never-ends HTTP/1.1")) = false /\
  serve vec_grow 0 false None 20%nat 100 (B "GET /a-long-target-that-never-ends HTTP/1.1") [7; 100]%nat = Err E_TOO_LONG.
Proof. vm_compute. split; reflexivity. Qed.

Example stalled_ex :
  contains_two_newlines (firstn (sum_sched [5; 12]%nat) (B "GET / HTTP/1.1" ++ [13; 10; 13; 10])) = false /\
  serve vec_grow 1 false None 64%nat 100 (B "GET / HTTP/1.1" ++ [13; 10; 13; 10]) [5; 12]%nat = Err E_UNEXPECTED_END.
Proof. vm_compute. split; reflexivity. Qed.

(** a peer that answers with 0 bytes in the middle of the head / of the body: an error resp. what arrived, at once *)
Example head_read_ends_ex :
  read_headers vec_grow 19 0 64%nat [] 512 (mk_reader (B "GET / HTTP/1.1" ++ [13; 10; 13; 10]) [5; 0; 0; 20]%nat) = Err E_UNEXPECTED_END.
Proof. vm_compute. reflexivity. Qed.

Example body_read_ends_ex :
  exists r', read_to_bytes vec_grow 0 (B "ab") 10 100 (mk_reader (B "cdefghijNEXT") [3; 0; 0; 20]%nat) = Ok (B "abcde", r').
Proof. eexists. vm_compute. reflexivity. Qed.

Example body_calls_end_ex :
  fst (hb_run vec_grow 0 (hb_new (B "ab") 10) (mk_reader (B "cde") [3]%nat) [HRead 4; HRead 4; HRead 4; HDrain]) =
  [Ok (B "ab"); Ok (B "cde"); Ok []; Err E_IO].
Proof. vm_compute. reflexivity. Qed.

Example body_exact_ex :
  sched_pos [3; 2; 50]%nat /\
  match read_to_bytes vec_grow 0 (B "he") 5 1000 (mk_reader (B "lloGET /next") [3; 2; 50]%nat) with
  | Ok (b, r') => b = B "hello" /\ rd_data r' = B "GET /next"
  | _ => False
  end.
Proof. split; [repeat constructor|vm_compute; split; reflexivity]. Qed.

Definition ex_req : greq :=
  mk_greq (B "POST") (B "/p?x=1") true
    [mk_hline (B "Host") 1 (B "ex.org"); mk_hline (B "Content-Length") 0 (B "5"); mk_hline (B "X-A") 3 (B "b c")].
Example parse_print_ex :
  greq_ok ex_req = true /\ sched_pos [1; 30; 7; 100]%nat /\
  expect false None 65536 ex_req (B "helloGET /next") =
    Some (mk_expected (B "POST") (B "/p") (Some (B "x=1")) 11
            [(B "host", B "ex.org"); (B "content-length", B "5"); (B "x-a", B "b c")] (Some (B "ex.org")) (B "hello")) /\
  option_map observed
    (match serve vec_grow 0 false None (N.to_nat 16384) 65536 (print_head ex_req ++ B "helloGET /next") [1; 30; 7; 100]%nat
     with Ok sv => Some sv | _ => None end) =
  Some (expect false None 65536 ex_req (B "helloGET /next")).
Proof. split; [vm_compute; reflexivity|]. split; [repeat constructor|]. split; vm_compute; reflexivity. Qed.

(** a request without Host header and one whose Host value is no authority: the origin-form target is the URI *)
Example no_host_ex :
  expect false None 65536 (mk_greq (B "GET") (B "/p?x=1") false []) [] =
    Some (mk_expected (B "GET") (B "/p") (Some (B "x=1")) 10 [] None []) /\
  expect false (Some (B "dflt.test")) 65536 (mk_greq (B "GET") (B "/p") true [mk_hline (B "Host") 1 (B "a b")]) [] =
    Some (mk_expected (B "GET") (B "/p") None 11 [(B "host", B "a b")] None []) /\
  expect false (Some (B "dflt.test")) 65536 (mk_greq (B "GET") (B "/p") true [mk_hline (B "Host") 1 (B "a.org/dir")]) [] =
    Some (mk_expected (B "GET") (B "/p") None 11 [(B "host", B "a.org/dir")] None []) /\
  expect false None 65536 (mk_greq (B "GET") (B "p") true []) [] = None.
Proof. vm_compute. repeat split; reflexivity. Qed.

(** a malformed stream (bare LF line ends, a header line without colon) cut in two different ways *)
Example segmentation_blind_ex :
  let stream := B "GET /x HTTP/1.1" ++ [10] ++ B "Host: h" ++ [10] ++ B "junk" ++ [10; 10] ++ B "tail" in
  sched_pos [3; 9; 100]%nat /\ sched_pos [1; 1; 1; 40]%nat /\
  result_view (serve vec_grow 0 false None 64%nat 10 stream [3; 9; 100]%nat) =
  result_view (serve vec_grow 0 false None 64%nat 10 stream [1; 1; 1; 40]%nat) /\
  result_view (serve vec_grow 0 false None 64%nat 10 stream [3; 9; 100]%nat) =
  serve_spec 0 false None 64%nat 10 stream.
Proof. split; [repeat constructor|]. split; [repeat constructor|]. vm_compute. split; reflexivity. Qed.

Example parse_print_lf_ex :
  print_head_e false [] false ex_req = print_head ex_req /\
  print_head_e true [false; true] true ex_req =
    B "POST /p?x=1 HTTP/1.1" ++ [10] ++ B "Host: ex.org" ++ [13; 10] ++ B "Content-Length:5" ++ [10] ++ B "X-A:   b c" ++ [13; 10; 10] /\
  option_map observed
    (match serve vec_grow 0 false None 200%nat 65536 (print_head_e true [false; true] true ex_req ++ B "helloGET /next") [2; 60; 100]%nat
     with Ok sv => Some sv | _ => None end) =
  Some (expect false None 65536 ex_req (B "helloGET /next")).
Proof. split; [apply print_head_e_crlf|]. split; vm_compute; reflexivity. Qed.

Example schedule_independent_ex :
  let stream := print_head ex_req ++ B "helloGET /next" in
  sched_pos (repeat 1%nat 80) /\ sched_pos [70; 3; 50]%nat /\
  option_map observed (match serve vec_grow 0 false None 200%nat 65536 stream (repeat 1%nat 80) with Ok sv => Some sv | _ => None end) =
  option_map observed (match serve (fun _ len add => (len + add)%nat) 2 false None 200%nat 65536 stream [70; 3; 50]%nat with Ok sv => Some sv | _ => None end) /\
  (length (print_head ex_req) + 5 <= 80)%nat.
Proof. split; [repeat constructor|]. split; [repeat constructor|]. vm_compute. split; [reflexivity|repeat constructor]. Qed.

(** a body that is cut short: EOF gives what arrived, a stall the time-out, a failure the I/O error *)
Example body_short_ex :
  body_spec 0 (B "ab") 10 100 (B "cd") = Ok (B "abcd") /\ body_spec 1 (B "ab") 10 100 (B "cd") = Err E_TIMEDOUT /\
  body_spec 2 (B "ab") 10 100 (B "cd") = Err E_IO /\
  read_to_bytes vec_grow 1 (B "ab") 10 100 (mk_reader (B "cd") [1; 1]%nat) = Err E_TIMEDOUT.
Proof. vm_compute. repeat split; reflexivity. Qed.

(** the general header line: tabs and spaces around the values, a bare LF, an extension method *)
Definition ex_ows : greq :=
  mk_greq (B "PURGE") (B "/p") true
    [mk_hline (B "Host") 1 (B "ex.org"); mk_hline (B "Content-Length") 0 (B "5"); mk_hline (B "X-E") 0 []].
Example parse_print_ows_ex :
  let ds := [mk_deco [TAB] [SP; TAB] false; mk_deco [TAB; SP] [SP] true; mk_deco [SP; TAB] [] false] in
  greq_ok ex_ows = true /\ decos_ok ds (g_headers ex_ows) = true /\
  print_head_d false ds false ex_ows =
    B "PURGE /p HTTP/1.1" ++ [13; 10] ++ B "Host: " ++ [9] ++ B "ex.org " ++ [9; 13; 10] ++
    B "Content-Length:" ++ [9; 32] ++ B "5 " ++ [10] ++ B "X-E: " ++ [9; 13; 10; 13; 10] /\
  option_map observed
    (match serve vec_grow 0 false None 200%nat 65536 (print_head_d false ds false ex_ows ++ B "helloGET /next") [2; 60; 100]%nat
     with Ok sv => Some sv | _ => None end) =
  Some (expect false None 65536 ex_ows (B "helloGET /next")) /\
  expect false None 65536 ex_ows (B "helloGET /next") =
    Some (mk_expected (B "PURGE") (B "/p") None 11
            [(B "host", B "ex.org"); (B "content-length", B "5"); (B "x-e", [])] (Some (B "ex.org")) (B "hello")).
Proof. cbv zeta. repeat split; vm_compute; reflexivity. Qed.

(** the body through [AsyncRead]: windows 2, 100, 100 over bursts 1, 1, 50 *)
Example body_read_ex :
  hb_reads 0 (hb_new (B "he") 5) (mk_reader (B "lloGET /next") [1; 1; 50]%nat) [2; 100; 100; 100; 100; 7]%nat =
  (B "hello", mk_hbody (B "he") 5 5 0, mk_reader (B "GET /next") [49]%nat, None).
Proof. vm_compute. reflexivity. Qed.
