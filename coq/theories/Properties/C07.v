(** C07 — HTTP/1 requests are parsed exactly, independent of TCP segmentation.
    Only statements here; proofs are in Proofs/Http1ReadProofs.v.

    [serve grow mode https dh max_len limit stream sched] is the model of
    [kvarn_async::read::request] followed by [Http1Body::read_to_bytes(limit)] on a connection that
    carries [stream] and hands it out in the bursts of the read schedule [sched] (each read gets
    [min burst window] bytes); afterwards the peer closes ([mode] 0), stalls (1) or fails (2).
    [grow] is the reallocation policy of [BytesMut::reserve], only assumed to keep its promise
    ([grow_ok]: the new capacity is at least [len + additional]). *)
From KV Require Import Bytes RustInt Http1Read Http1ReadProofs.
Open Scope N_scope.

(** No blank line within the first [max_len] bytes (16 384 in kvarn): an error — for every read
    schedule (zero-length reads included), every growth function, every end mode. *)
Theorem head_limit : forall grow mode https dh (max_len : nat) limit stream (sched : list nat),
  contains_two_newlines (firstn max_len stream) = false ->
  exists e, serve grow mode https dh max_len limit stream sched = Err e /\
            (e = E_TOO_LONG \/ e = E_UNEXPECTED_END \/ e = E_SYNTAX).
Proof. exact head_limit_lemma. Qed.

(** The peer stops (closes, stalls until the timeout, fails) before the blank line has been
    delivered: an error, never a partial request. *)
Theorem stalled_head : forall grow mode https dh (max_len : nat) limit stream (sched : list nat),
  contains_two_newlines (firstn (sum_sched sched) stream) = false ->
  exists e, serve grow mode https dh max_len limit stream sched = Err e /\
            (e = E_TOO_LONG \/ e = E_UNEXPECTED_END \/ e = E_SYNTAX).
Proof. exact stalled_lemma. Qed.

(** [Http1Body::read_to_bytes]: when the [min content_length limit] bytes are delivered, exactly
    they are returned, for every schedule, and the connection keeps everything behind them
    (the next request). *)
Theorem body_exact : forall grow mode early (cl limit : N) stream (sched : list nat),
  grow_ok grow -> sched_pos sched ->
  (N.to_nat (N.min cl limit) <= length early + Nat.min (sum_sched sched) (length stream))%nat ->
  exists r', read_to_bytes grow mode early cl limit (mk_reader stream sched) =
               Ok (firstn (N.to_nat (N.min cl limit)) (early ++ stream), r') /\
             rd_data r' = skipn (N.to_nat (N.min cl limit) - length early) stream.
Proof. exact body_exact_lemma. Qed.

(** ... and in every case (short bodies: EOF gives what there is, a stall TimedOut, a failure the
    I/O error) the result is [body_spec], a function of the delivered bytes, not of the schedule. *)
Theorem body_any_schedule : forall grow mode early (cl limit : N) stream (sched : list nat),
  grow_ok grow -> sched_pos sched ->
  match body_spec mode early cl limit (firstn (sum_sched sched) stream) with
  | Ok b => exists r', read_to_bytes grow mode early cl limit (mk_reader stream sched) = Ok (b, r')
  | Err e => read_to_bytes grow mode early cl limit (mk_reader stream sched) = Err e
  | Panic => False
  end.
Proof. exact body_any_schedule. Qed.

(** Non-vacuity *)
Example grow_meets_hypothesis : grow_ok vec_grow.
Proof. exact vec_grow_ok. Qed.

Example head_limit_ex :
  contains_two_newlines (firstn 20%nat (B "GET /a-long-target-that-never-ends HTTP/1.1")) = false /\
  serve vec_grow 0 false None 20%nat 100 (B "GET /a-long-target-that-never-ends HTTP/1.1") [7; 100]%nat = Err E_TOO_LONG.
Proof. vm_compute. split; reflexivity. Qed.

Example stalled_ex :
  contains_two_newlines (firstn (sum_sched [5; 12]%nat) (B "GET / HTTP/1.1" ++ [13; 10; 13; 10])) = false /\
  serve vec_grow 1 false None 64%nat 100 (B "GET / HTTP/1.1" ++ [13; 10; 13; 10]) [5; 12]%nat = Err E_UNEXPECTED_END.
Proof. vm_compute. split; reflexivity. Qed.

Example body_exact_ex :
  sched_pos [3; 2; 50]%nat /\
  match read_to_bytes vec_grow 0 (B "he") 5 1000 (mk_reader (B "lloGET /next") [3; 2; 50]%nat) with
  | Ok (b, r') => b = B "hello" /\ rd_data r' = B "GET /next"
  | _ => False
  end.
Proof. split; [repeat constructor|vm_compute; split; reflexivity]. Qed.
