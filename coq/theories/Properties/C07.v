(** C07 — HTTP/1 requests are parsed exactly, independent of TCP segmentation.
    Only statements here; proofs are in Proofs/Http1ReadProofs.v.

    [serve grow mode https dh max_len limit stream sched] is the model of
    [kvarn_async::read::request] followed by [Http1Body::read_to_bytes(limit)] on a connection that
    carries [stream] and hands it out in the bursts of the read schedule [sched] (each read gets
    [min burst window] bytes); afterwards the peer closes ([mode] 0), stalls (1) or fails (2).
    [grow] is the reallocation policy of [BytesMut::reserve], only assumed to keep its promise
    ([grow_ok]: the new capacity is at least [len + additional]). *)
From KV Require Import Bytes RustInt Http1Read Http1ReadProofs Http1ReadParseProofs Http1ReadLocalProofs Http1ReadLfProofs.
Open Scope N_scope.

(** parse (print g) = g.  [g] ranges over the request grammar [greq_ok]: a method token of at most
    7 letters that starts like a known method, a non-empty target without SP/CR/LF, HTTP/1.0 or
    1.1, header lines [name ":" SP^k value CRLF] (any k, including 0) with token names that are
    unique up to case and values of visible ASCII/SP not starting with SP.  [expect] is the
    specification: method, path, query, version, header list, authority (the target is judged by
    the [http] crate's [Uri] parser, transcribed as [parse_uri]) and the first
    [min content-length limit] bytes of whatever follows the blank line.  For every schedule that
    delivers the head and the body, every growth function, every end mode, every trailing bytes
    (the next request): the reader returns exactly that. *)
Theorem parse_print : forall grow mode https dh (max_len : nat) limit (g : greq) rest (sched : list nat) e,
  grow_ok grow -> sched_pos sched -> greq_ok g = true -> (length (print_head g) <= max_len)%nat ->
  expect https dh limit g rest = Some e ->
  (N.to_nat (N.min (body_length (g_method g) (g_hmap g)) limit) <= length rest)%nat ->
  (length (print_head g) + N.to_nat (N.min (body_length (g_method g) (g_hmap g)) limit) <= sum_sched sched)%nat ->
  exists sv, serve grow mode https dh max_len limit (print_head g ++ rest) sched = Ok sv /\ observed sv = Some e.
Proof. exact parse_print_lemma. Qed.

(** The parser alone: the printed head followed by anything parses to the printed request, and
    the bytes after the blank line are exactly what followed (no byte lost or duplicated). *)
Theorem parse_print_head : forall https dh (g : greq) extra host auth path query,
  greq_ok g = true -> g_host dh g = Some host -> parse_uri https host (g_target g) = Some (auth, path, query) ->
  parse_request https dh (print_head g ++ extra) =
  Ok (mk_request (g_method g) path query (if g_v11 g then 11 else 10) (g_hmap g) auth extra).
Proof. exact parse_request_print. Qed.

(** The bare-LF variants the code accepts: the same for a head whose request line ([l0]), header
    lines ([fl], one flag per line, missing flags = CRLF) and blank line ([lb]) end in a bare LF
    instead of CRLF, in any mix.  [print_head_e false [] false g = print_head g]. *)
Theorem parse_print_lf : forall grow mode https dh (max_len : nat) limit (l0 : bool) (fl : list bool) (lb : bool) (g : greq) rest (sched : list nat) e,
  grow_ok grow -> sched_pos sched -> greq_ok g = true -> (length (print_head_e l0 fl lb g) <= max_len)%nat ->
  expect https dh limit g rest = Some e ->
  (N.to_nat (N.min (body_length (g_method g) (g_hmap g)) limit) <= length rest)%nat ->
  (length (print_head_e l0 fl lb g) + N.to_nat (N.min (body_length (g_method g) (g_hmap g)) limit) <= sum_sched sched)%nat ->
  exists sv, serve grow mode https dh max_len limit (print_head_e l0 fl lb g ++ rest) sched = Ok sv /\ observed sv = Some e.
Proof. exact parse_print_lf_lemma. Qed.

Theorem parse_print_head_lf : forall https dh (l0 : bool) (fl : list bool) (lb : bool) (g : greq) extra host auth path query,
  greq_ok g = true -> g_host dh g = Some host -> parse_uri https host (g_target g) = Some (auth, path, query) ->
  parse_request https dh (print_head_e l0 fl lb g ++ extra) =
  Ok (mk_request (g_method g) path query (if g_v11 g then 11 else 10) (g_hmap g) auth extra).
Proof. exact parse_request_print_e. Qed.

(** Two arbitrary ways of cutting the same bytes into reads (and two growth functions, two end
    modes) give the same request and the same body. *)
Theorem schedule_independent : forall grow1 grow2 mode1 mode2 https dh (max_len : nat) limit (g : greq) rest (sched1 sched2 : list nat),
  grow_ok grow1 -> grow_ok grow2 -> sched_pos sched1 -> sched_pos sched2 ->
  greq_ok g = true -> (length (print_head g) <= max_len)%nat ->
  expect https dh limit g rest <> None ->
  (N.to_nat (N.min (body_length (g_method g) (g_hmap g)) limit) <= length rest)%nat ->
  (length (print_head g) + N.to_nat (N.min (body_length (g_method g) (g_hmap g)) limit) <= sum_sched sched1)%nat ->
  (length (print_head g) + N.to_nat (N.min (body_length (g_method g) (g_hmap g)) limit) <= sum_sched sched2)%nat ->
  exists sv1 sv2,
    serve grow1 mode1 https dh max_len limit (print_head g ++ rest) sched1 = Ok sv1 /\
    serve grow2 mode2 https dh max_len limit (print_head g ++ rest) sched2 = Ok sv2 /\
    observed sv1 = observed sv2 /\ observed sv1 <> None.
Proof. exact schedule_independent_lemma. Qed.

(** Beyond the grammar: for EVERY byte stream (malformed heads, bare-LF line ends, anything) what
    a handler sees -- request fields and body outcome, or the error class -- is [serve_spec] of the
    delivered bytes [firstn (sum_sched sched) stream]: a function that has no schedule and no
    capacity in it (head end = first LF CR* LF, the parser run on exactly the head, the body =
    what follows).  The parser never looks past the blank line. *)
Theorem segmentation_blind : forall grow mode https dh (max_len : nat) limit stream (sched : list nat),
  grow_ok grow -> sched_pos sched ->
  result_view (serve grow mode https dh max_len limit stream sched) =
  serve_spec mode https dh max_len limit (firstn (sum_sched sched) stream).
Proof. exact serve_blind_lemma. Qed.

Theorem schedule_independent_any_stream : forall grow1 grow2 mode https dh (max_len : nat) limit stream (sched1 sched2 : list nat),
  grow_ok grow1 -> grow_ok grow2 -> sched_pos sched1 -> sched_pos sched2 ->
  firstn (sum_sched sched1) stream = firstn (sum_sched sched2) stream ->
  result_view (serve grow1 mode https dh max_len limit stream sched1) =
  result_view (serve grow2 mode https dh max_len limit stream sched2).
Proof. exact schedule_independent_any_lemma. Qed.

(** No blank line within the first [max_len] bytes (16 384 in kvarn): an error — for every read
    schedule (zero-length reads included), every growth function, every end mode. *)
Theorem head_limit : forall grow mode https dh (max_len : nat) limit stream (sched : list nat),
  contains_two_newlines (firstn max_len stream) = false ->
  exists e, serve grow mode https dh max_len limit stream sched = Err e /\
            (e = E_TOO_LONG \/ e = E_UNEXPECTED_END \/ e = E_SYNTAX).
Proof. exact head_limit_lemma. Qed.

(** The peer stops (closes, stalls until the timeout, fails) before the blank line has been
    delivered: an error, never a partial request. *)
Theorem stalled_head : forall grow mode https dh (max_len : nat) limit stream (sched : list nat),
  contains_two_newlines (firstn (sum_sched sched) stream) = false ->
  exists e, serve grow mode https dh max_len limit stream sched = Err e /\
            (e = E_TOO_LONG \/ e = E_UNEXPECTED_END \/ e = E_SYNTAX).
Proof. exact stalled_lemma. Qed.

(** [Http1Body::read_to_bytes]: when the [min content_length limit] bytes are delivered, exactly
    they are returned, for every schedule, and the connection keeps everything behind them
    (the next request). *)
Theorem body_exact : forall grow mode early (cl limit : N) stream (sched : list nat),
  grow_ok grow -> sched_pos sched ->
  (N.to_nat (N.min cl limit) <= length early + Nat.min (sum_sched sched) (length stream))%nat ->
  exists r', read_to_bytes grow mode early cl limit (mk_reader stream sched) =
               Ok (firstn (N.to_nat (N.min cl limit)) (early ++ stream), r') /\
             rd_data r' = skipn (N.to_nat (N.min cl limit) - length early) stream.
Proof. exact body_exact_lemma. Qed.

(** ... and in every case (short bodies: EOF gives what there is, a stall TimedOut, a failure the
    I/O error) the result is [body_spec], a function of the delivered bytes, not of the schedule. *)
Theorem body_any_schedule : forall grow mode early (cl limit : N) stream (sched : list nat),
  grow_ok grow -> sched_pos sched ->
  match body_spec mode early cl limit (firstn (sum_sched sched) stream) with
  | Ok b => exists r', read_to_bytes grow mode early cl limit (mk_reader stream sched) = Ok (b, r')
  | Err e => read_to_bytes grow mode early cl limit (mk_reader stream sched) = Err e
  | Panic => False
  end.
Proof. exact body_any_schedule. Qed.

(** Non-vacuity *)
Example vec_grow_keeps_promise : grow_ok vec_grow.
Proof. exact vec_grow_ok. Qed.

Example head_limit_ex :
  contains_two_newlines (firstn 20%nat (B "GET /a-long-target-that-never-ends HTTP/1.1")) = false /\
  serve vec_grow 0 false None 20%nat 100 (B "GET /a-long-target-that-never-ends HTTP/1.1") [7; 100]%nat = Err E_TOO_LONG.
Proof. vm_compute. split; reflexivity. Qed.

Example stalled_ex :
  contains_two_newlines (firstn (sum_sched [5; 12]%nat) (B "GET / HTTP/1.1" ++ [13; 10; 13; 10])) = false /\
  serve vec_grow 1 false None 64%nat 100 (B "GET / HTTP/1.1" ++ [13; 10; 13; 10]) [5; 12]%nat = Err E_UNEXPECTED_END.
Proof. vm_compute. split; reflexivity. Qed.

Example body_exact_ex :
  sched_pos [3; 2; 50]%nat /\
  match read_to_bytes vec_grow 0 (B "he") 5 1000 (mk_reader (B "lloGET /next") [3; 2; 50]%nat) with
  | Ok (b, r') => b = B "hello" /\ rd_data r' = B "GET /next"
  | _ => False
  end.
Proof. split; [repeat constructor|vm_compute; split; reflexivity]. Qed.

Definition ex_req : greq :=
  mk_greq (B "POST") (B "/p?x=1") true
    [mk_hline (B "Host") 1 (B "ex.org"); mk_hline (B "Content-Length") 0 (B "5"); mk_hline (B "X-A") 3 (B "b c")].
Example parse_print_ex :
  greq_ok ex_req = true /\ sched_pos [1; 30; 7; 100]%nat /\
  expect false None 65536 ex_req (B "helloGET /next") =
    Some (mk_expected (B "POST") (B "/p") (Some (B "x=1")) 11
            [(B "host", B "ex.org"); (B "content-length", B "5"); (B "x-a", B "b c")] (B "ex.org") (B "hello")) /\
  option_map observed
    (match serve vec_grow 0 false None (N.to_nat 16384) 65536 (print_head ex_req ++ B "helloGET /next") [1; 30; 7; 100]%nat
     with Ok sv => Some sv | _ => None end) =
  Some (expect false None 65536 ex_req (B "helloGET /next")).
Proof. split; [vm_compute; reflexivity|]. split; [repeat constructor|]. split; vm_compute; reflexivity. Qed.

(** a malformed stream (bare LF line ends, a header line without colon) cut in two different ways *)
Example segmentation_blind_ex :
  let stream := B "GET /x HTTP/1.1" ++ [10] ++ B "Host: h" ++ [10] ++ B "junk" ++ [10; 10] ++ B "tail" in
  sched_pos [3; 9; 100]%nat /\ sched_pos [1; 1; 1; 40]%nat /\
  result_view (serve vec_grow 0 false None 64%nat 10 stream [3; 9; 100]%nat) =
  result_view (serve vec_grow 0 false None 64%nat 10 stream [1; 1; 1; 40]%nat) /\
  result_view (serve vec_grow 0 false None 64%nat 10 stream [3; 9; 100]%nat) =
  serve_spec 0 false None 64%nat 10 stream.
Proof. split; [repeat constructor|]. split; [repeat constructor|]. vm_compute. split; reflexivity. Qed.

Example parse_print_lf_ex :
  print_head_e false [] false ex_req = print_head ex_req /\
  print_head_e true [false; true] true ex_req =
    B "POST /p?x=1 HTTP/1.1" ++ [10] ++ B "Host: ex.org" ++ [13; 10] ++ B "Content-Length:5" ++ [10] ++ B "X-A:   b c" ++ [13; 10; 10] /\
  option_map observed
    (match serve vec_grow 0 false None 200%nat 65536 (print_head_e true [false; true] true ex_req ++ B "helloGET /next") [2; 60; 100]%nat
     with Ok sv => Some sv | _ => None end) =
  Some (expect false None 65536 ex_req (B "helloGET /next")).
Proof. split; [apply print_head_e_crlf|]. split; vm_compute; reflexivity. Qed.

Example schedule_independent_ex :
  let stream := print_head ex_req ++ B "helloGET /next" in
  sched_pos (repeat 1%nat 80) /\ sched_pos [70; 3; 50]%nat /\
  option_map observed (match serve vec_grow 0 false None 200%nat 65536 stream (repeat 1%nat 80) with Ok sv => Some sv | _ => None end) =
  option_map observed (match serve (fun _ len add => (len + add)%nat) 2 false None 200%nat 65536 stream [70; 3; 50]%nat with Ok sv => Some sv | _ => None end) /\
  (length (print_head ex_req) + 5 <= 80)%nat.
Proof. split; [repeat constructor|]. split; [repeat constructor|]. vm_compute. split; [reflexivity|repeat constructor]. Qed.

(** a body that is cut short: EOF gives what arrived, a stall the time-out, a failure the I/O error *)
Example body_short_ex :
  body_spec 0 (B "ab") 10 100 (B "cd") = Ok (B "abcd") /\ body_spec 1 (B "ab") 10 100 (B "cd") = Err E_TIMEDOUT /\
  body_spec 2 (B "ab") 10 100 (B "cd") = Err E_IO /\
  read_to_bytes vec_grow 1 (B "ab") 10 100 (mk_reader (B "cd") [1; 1]%nat) = Err E_TIMEDOUT.
Proof. vm_compute. repeat split; reflexivity. Qed.
