(** C14 — Every response carries the security headers of its most specific rule.
    Only statements here; proofs are in Proofs/RuleSetProofs.v and Proofs/NonceProofs.v.

    [rs_reach hist rules]: [rules] is a vector that the history [hist] of [RuleSet::add_mut] calls
    (pattern, rule) can leave behind — each call removes the rule for the pattern, pushes the new
    one and sorts with [sort_unstable_by], which is only assumed to return *some* permutation
    sorted for the comparator.  [rs_get] = [RuleSet::get] (first match in vector order).
    [resolve hist uri] = the independent resolver: of the patterns in [hist] that cover [uri],
    the most specific one (exact before wildcard, then longer before shorter), with the rule
    added last for it.
    [nonce_rewrite n body] = the loop of the [nonce] Present extension; [nonce_spec] / [render] =
    the splice specification.  [package_chain rules server path h] = [resolve_package] with the
    Package extensions of [Extensions::new] + [with_csp] + [with_server_header] applied to the
    response head [h] (any status) for a request whose path is [path]. *)
From KV Require Import Bytes RuleSetStd RuleSet Nonce RuleSetProofs NonceProofs.
From KV Require Cache.
Open Scope N_scope.

(** ---- 1. the most specific rule, added last, whatever the sort does ---- *)
Theorem most_specific_rule : forall (R : Type) (hist : list (bytes * R)) (rules : ruleset R) (uri : bytes),
  rs_reach hist rules -> rs_get rules uri = resolve hist uri.
Proof. exact (fun R => @rs_get_resolve R). Qed.

(** the executable model (insertion sort, compared with the Rust code on every run) is one of them *)
Theorem most_specific_rule_model : forall (R : Type) (hist : list (bytes * R)) (uri : bytes),
  rs_reach hist (rs_build rs_add hist) /\ rs_get (rs_build rs_add hist) uri = resolve hist uri.
Proof. exact (fun R hist uri => conj (rs_build_reach hist) (rs_get_build_resolve hist uri)). Qed.

(** what the resolver answers, in words *)
Theorem resolver_meaning : forall (R : Type) (hist : list (bytes * R)) (uri : bytes) (r : R),
  resolve hist uri = Some r <->
  exists p, In p (map fst hist) /\ covers p uri = true /\
            (forall q, In q (map fst hist) -> covers q uri = true -> more_specific q p = false) /\
            last_added hist p = Some r.
Proof. exact (fun R => @resolve_some_meaning R). Qed.
Theorem resolver_none : forall (R : Type) (hist : list (bytes * R)) (uri : bytes),
  resolve hist uri = None <-> forall p, In p (map fst hist) -> covers p uri = false.
Proof. exact (fun R => @resolve_none R). Qed.
Theorem covers_meaning : forall p uri : bytes,
  covers p uri = true <->
  (is_wild p = false /\ p = uri) \/ (exists pre rest, p = pre ++ [c_star] /\ uri = pre ++ rest).
Proof. exact RuleSetProofs.covers_meaning. Qed.
Theorem specificity_order : forall p q : bytes,
  (is_wild p = false -> is_wild q = true -> more_specific p q = true) /\
  (is_wild p = is_wild q -> (length q < length p)%nat -> more_specific p q = true) /\
  (forall uri, covers p uri = true -> covers q uri = true ->
               more_specific q p = false -> more_specific p q = false -> p = q).
Proof.
  exact (fun p q => conj (ms_exact_beats_wild p q) (conj (ms_longer_beats_shorter p q) (fun uri => best_unique p q uri))).
Qed.
Theorem last_added_meaning : forall (R : Type) (hist : list (bytes * R)) (p : bytes) (r : R),
  last_added hist p = Some r <-> exists h1 h2, hist = h1 ++ (p, r) :: h2 /\ ~ In p (map fst h2).
Proof. exact (fun R => @RuleSetProofs.last_added_meaning R). Qed.

(** kvarn 0.6.3 (binary search by string order in [add_mut]) fails this: re-adding keeps the old rule *)
Theorem readd_v0_refuted :
  rs_get (rs_build rs_add_v0 v0_hist) (B "/a") = Some 1 /\
  resolve v0_hist (B "/a") = Some 4 /\
  rs_get (rs_build rs_add v0_hist) (B "/a") = Some 4.
Proof. exact add_mut_v0_keeps_old_rule. Qed.

(** ---- 2. the nonce rewriting ---- *)
Theorem nonce_spec : forall nonce body : bytes, nonce_rewrite nonce body = Ok (Nonce.nonce_spec nonce body).
Proof. exact nonce_rewrite_spec. Qed.

Theorem nonce_splice : forall nonce body : bytes,
  exists ps, Forall wf_piece ps /\ greedy ps /\ body = render (fun v => v) ps /\
             nonce_rewrite nonce body = Ok (render (fun _ => nonce) ps).
Proof. exact nonce_rewrite_splice. Qed.

Theorem nonce_parse_unique : forall ps1 ps2 : list piece,
  Forall wf_piece ps1 -> greedy ps1 -> Forall wf_piece ps2 -> greedy ps2 ->
  render (fun v => v) ps1 = render (fun v => v) ps2 -> ps1 = ps2.
Proof. exact parse_unique. Qed.

Theorem nonce_never_panics : forall nonce body : bytes,
  nonce_rewrite nonce body <> Panic /\ forall e, nonce_rewrite nonce body <> Err e.
Proof. exact nonce_rewrite_total. Qed.

(** kvarn 0.6.3 fails this: panic on an empty body and near the end, stray quote, clobbered values *)
Theorem nonce_v0_refuted :
  nonce_rewrite_v0 (B "N") [] = Panic /\
  nonce_rewrite_v0 (B "N") (B "xnonce=") = Panic /\
  nonce_rewrite_v0 (B "N") (B "<s nonce=""x"">") = Ok (B "<s nonce=""N"""">") /\
  nonce_rewrite_v0 (B "N") (B "<s nonce=abc>") = Ok (B "<s nonce=""""c>").
Proof.
  exact (conj (nonce_v0_panics_on_empty_body (B "N")) (conj nonce_v0_panics_near_end
        (conj (proj1 nonce_v0_stray_quote) (proj1 nonce_v0_clobbers_unquoted)))).
Qed.

(** ---- 3. the policy carries the nonce in the four directives ---- *)
Theorem nonce_in_directives : forall (r : csp_rule) (n d : bytes),
  length (fst r) = 27%nat -> hv_to_str_ok n = true -> In d nonce_directives ->
  exists vals v pre post,
    In ([d], vals) (combine directive_names (fst r)) /\
    to_header_nonce r (Some n) = Some v /\
    v = pre ++ d ++ [c_sp] ++ (if is_nil (join_sp vals) then SELF_SP else join_sp vals ++ [c_sp]) ++ nonce_source n ++ post /\
    sep_head pre /\ sep_tail post.
Proof. exact nonce_in_four_directives. Qed.

(** the page and the policy sent with it carry the same value *)
Theorem nonce_same_in_body_and_policy :
  forall (hist : list (bytes * csp_rule)) (rules : ruleset csp_rule) (server path : bytes)
         (rng : nat -> bytes) (handler : page) (rule : csp_rule) (k : nat),
  rs_reach hist rules -> resolve hist path = Some rule ->
  let reply := nonce_reply (rng k) handler in
  h_all H_CSP (package_chain rules server path (pg_headers reply))
  = match to_header_nonce rule (Some (rng k)) with Some v => [v] | None => h_all H_CSP (pg_headers handler) end /\
  exists ps, Forall wf_piece ps /\ greedy ps /\ pg_body handler = render (fun v => v) ps /\
             pg_body reply = render (fun _ => rng k) ps.
Proof. exact page_and_policy_same_nonce. Qed.

(** ---- 4. a nonce page is never cached ---- *)
Theorem nonce_not_cached : forall (rng : nat -> bytes) (handler : page) (n : nat),
  page_history nonce_rewrite rng true handler n {| st_calls := O; st_cache := None |}
  = Ok ({| st_calls := n; st_cache := None |}, map (fun k => nonce_reply (rng k) handler) (seq 1 n)).
Proof. exact nonce_never_cached. Qed.

Theorem nonce_not_admitted :
  forall (rewrite : bytes -> bytes -> outcome bytes) (n : bytes) (p p' : page),
  nonce_present rewrite n p = Ok p' ->
  pg_pref p' = SNone /\
  forall cache_on m status compress, Cache.may_store cache_on m (fat_of status compress p') = false.
Proof. exact nonce_page_not_admitted. Qed.

Theorem nonce_fresh_per_response : forall (rng : nat -> bytes) (handler : page) (n i j : nat),
  (forall a b, a <> b -> rng a <> rng b) -> i <> j -> (i < n)%nat -> (j < n)%nat ->
  forall st out, page_history nonce_rewrite rng true handler n {| st_calls := O; st_cache := None |} = Ok (st, out) ->
  exists ri rj, nth_error out i = Some ri /\ nth_error out j = Some rj /\
                h_get H_NONCE (pg_headers ri) = Some (rng (S i)) /\ h_get H_NONCE (pg_headers rj) = Some (rng (S j)) /\
                rng (S i) <> rng (S j).
Proof. exact nonce_replies_differ. Qed.

(** ---- 5. the internal header never leaves the Package chain ---- *)
Theorem internal_header_hidden : forall (rules : ruleset csp_rule) (server path : bytes) (h : headers),
  ~ In H_NONCE (map fst (package_chain rules server path h)).
Proof. exact chain_hides_nonce. Qed.

(** kvarn 0.6.3 fails this when no rule covers the path *)
Theorem internal_header_v0_refuted :
  h_all H_NONCE (package_chain_v0 [] (B "S") (B "/x") [(H_NONCE, B "n")]) = [B "n"] /\
  h_all H_NONCE (package_chain [] (B "S") (B "/x") [(H_NONCE, B "n")]) = [].
Proof. exact v0_exposes_nonce. Qed.

(** ---- 6. every head that goes through the chain gets the three headers ---- *)
Theorem always_headers :
  forall (hist : list (bytes * csp_rule)) (rules : ruleset csp_rule) (server path : bytes) (h : headers),
  rs_reach hist rules ->
  h_all H_CSP (package_chain rules server path h) = spec_csp hist path h /\
  h_all H_REFERRER (package_chain rules server path h) = spec_referrer h /\
  h_all H_SERVER (package_chain rules server path h) = [server] /\
  h_all H_NONCE (package_chain rules server path h) = [].
Proof. exact chain_always_headers. Qed.

(** ... and in the send-path model every reply (hit, miss, 4xx, 304, 206, 416) went through it *)
Theorem always_headers_send :
  forall (rewrite : bytes -> bytes -> outcome bytes) (hist : list (bytes * csp_rule)) (rules : ruleset csp_rule)
         (server : bytes) (hs : list chandler),
  rs_reach hist rules ->
  forall rs st out, conn_run rewrite (fun p h => package_chain rules server p h) hs st rs = Ok out ->
  Forall (fun rep => h_all H_SERVER (rp_headers rep) = [server] /\ h_all H_NONCE (rp_headers rep) = [] /\
                     h_all H_REFERRER (rp_headers rep) <> [] /\
                     exists p h, h_all H_CSP (rp_headers rep) = spec_csp hist p h /\
                                 h_all H_REFERRER (rp_headers rep) = spec_referrer h) out.
Proof. exact conn_run_headers. Qed.

(** ---- non-vacuity ---- *)
Definition ex_hist : list (bytes * N) :=
  [(B "/*", 1); (B "/a/*", 2); (B "/a/b", 3); (B "/*", 4); (B "/a/*", 5); (B "/a/b", 6); (B "/ab*", 7)].
Example ex_reach : rs_reach ex_hist (rs_build rs_add ex_hist).
Proof. apply rs_build_reach. Qed.
Example ex_get :
  map (rs_get (rs_build rs_add ex_hist)) [B "/a/b"; B "/a/c"; B "/abc"; B "/x"; B ""]
  = [Some 6; Some 5; Some 7; Some 4; None].
Proof. vm_compute. reflexivity. Qed.
(** a second vector reachable with the same history (equal-rank rules in another order) *)
Example ex_other_sort :
  rs_reach [(B "/a", 1); (B "/b", 2)] [(B "/b", 2); (B "/a", 1)] /\
  rs_build rs_add [(B "/a", 1); (B "/b", 2)] = [(B "/a", 1); (B "/b", 2)].
Proof.
  split; [|vm_compute; reflexivity].
  apply (reach_add [(B "/a", 1)] [(B "/a", 1)] (B "/b") 2).
  - apply (reach_add [] [] (B "/a") 1); [constructor|]. split; [apply Permutation.Permutation_refl|repeat constructor].
  - split; [apply Permutation.perm_swap|].
    repeat constructor; vm_compute; discriminate.
Qed.

Definition ex_body : bytes := B "<script nonce=""old"">a</script><style nonce=''>b</style> nonce=x nonce=""open".
Example ex_rewrite :
  nonce_rewrite (B "NONCE") ex_body
  = Ok (B "<script nonce=""NONCE"">a</script><style nonce='NONCE'>b</style> nonce=x nonce=""open").
Proof. vm_compute. reflexivity. Qed.

Definition ex_rule : csp_rule :=
  (set_nth 2 [B "'self'"] (set_nth 13 [B "'self'"; B "'unsafe-inline'"] (fst csp_empty)), []).
Example ex_rule_len : length (fst ex_rule) = 27%nat.
Proof. reflexivity. Qed.
Example ex_policy :
  to_header_nonce ex_rule (Some (B "AAAA")) =
  Some (B "default-src 'self'; script-src 'self' 'nonce-AAAA'; script-src-elem 'self' 'nonce-AAAA'; style-src 'self' 'unsafe-inline' 'nonce-AAAA'; style-src-elem 'self' 'nonce-AAAA'")
  /\ hv_to_str_ok (B "AAAA") = true.
Proof. vm_compute. split; reflexivity. Qed.

Definition ex_csp_hist : list (bytes * csp_rule) := [(B "/*", ex_rule); (B "/api/*", csp_empty)].
Example ex_chain :
  package_chain (rs_build rs_add ex_csp_hist) (B "Kvarn") (B "/index.html") [(B "content-type", B "text/html")]
  = [(B "content-type", B "text/html");
     (H_CSP, B "default-src 'self'; style-src 'self' 'unsafe-inline'");
     (H_REFERRER, NO_REFERRER); (H_SERVER, B "Kvarn")]
  /\ package_chain (rs_build rs_add ex_csp_hist) (B "Kvarn") (B "/api/x") [(H_REFERRER, B "origin"); (H_NONCE, B "n")]
  = [(H_REFERRER, B "origin"); (H_CSP, B "script-src 'self' 'nonce-n'; script-src-elem 'self' 'nonce-n'; style-src 'self' 'nonce-n'; style-src-elem 'self' 'nonce-n'"); (H_SERVER, B "Kvarn")].
Proof. vm_compute. split; reflexivity. Qed.

Example ex_history :
  page_history nonce_rewrite sym_nonce true {| pg_body := B "<s nonce='x'>"; pg_headers := []; pg_pref := SFull |} 3
    {| st_calls := O; st_cache := None |}
  = Ok ({| st_calls := 3; st_cache := None |},
        map (fun k => nonce_reply (sym_nonce k) {| pg_body := B "<s nonce='x'>"; pg_headers := []; pg_pref := SFull |}) [1; 2; 3]%nat)
  /\ sym_nonce 1 <> sym_nonce 2.
Proof. split; [vm_compute; reflexivity|vm_compute; discriminate]. Qed.

(** the fixture of the send path: miss, hit, 304, 206, 416, 404, 400 all carry the headers *)
Definition ex_handlers : list chandler :=
  [mkCH (B "/p") 200 [(H_REFERRER, B "origin")] true false (B "0123456789")].
Definition ex_reqs : list creq :=
  [mkCR 0 (B "/p") 0 false; mkCR 0 (B "/p") 0 false; mkCR 0 (B "/p") 0 true; mkCR 0 (B "/p") 1 false;
   mkCR 0 (B "/p") 2 false; mkCR 0 (B "/none") 0 false; mkCR 0 (B "/./p") 0 false].
Example ex_send :
  match conn_run nonce_rewrite (fun p h => package_chain (rs_build rs_add ex_csp_hist) (B "K") p h) ex_handlers (mkCS [] O) ex_reqs with
  | Ok out => map rp_status out = [200; 200; 304; 206; 416; 404; 400] /\
              map (fun r => h_all H_REFERRER (rp_headers r)) out
              = [[B "origin"]; [B "origin"]; [NO_REFERRER]; [B "origin"]; [NO_REFERRER]; [NO_REFERRER]; [NO_REFERRER]]
  | _ => False
  end.
Proof. vm_compute. split; reflexivity. Qed.
