(** C14 — Every response carries the security headers of its most specific rule.
    Only statements here; proofs are in Proofs/RuleSetProofs.v and Proofs/NonceProofs.v.

    [rs_reach hist rules]: [rules] is a vector that the history [hist] of [RuleSet::add_mut] calls
    (pattern, rule) can leave behind — each call removes the rule for the pattern, pushes the new
    one and sorts with [sort_unstable_by], which is only assumed to return *some* permutation
    sorted for the comparator.  [rs_get] = [RuleSet::get] (first match in vector order).
    [resolve hist uri] = the independent resolver: of the patterns in [hist] that cover [uri],
    the most specific one (exact before wildcard, then longer before shorter), with the rule
    added last for it.
    [nonce_rewrite n body] = the loop of the [nonce] Present extension; [nonce_spec] / [render] =
    the splice specification.  [package_chain rules server path h] = [resolve_package] with the
    Package extensions of [Extensions::new] + [with_csp] + [with_server_header] applied to the
    response head [h] (any status) for a request whose path is [path]; [package_chain_cfg] the same with
    the flags of [with_server_header].  [csp_path p] = the path the file of request path [p] is read
    from (percent-decoded, repeated slashes collapsed): the CSP rule is the one for that path.
    [parse_policy] = a CSP parser (split on ';', tokens separated by spaces); [spec_policy r nonce] = the
    directives and sources rule [r] holds, with the nonce source added to the four script/style
    directives.  [present_chain guard rewrite rng line k p] = the Present directives [line] of the first
    line of a page ([nonce], kvarn_extensions' [cache], [allow-ips], [hide]) run in order on the handler's
    response [p]; [page_history] = n requests for the page through the cache. *)
From KV Require Import Bytes RuleSetStd RuleSet Nonce RuleSetProofs NonceProofs CspPolicyProofs.
From KV Require Cache.
Open Scope N_scope.

(** ---- 1. the most specific rule, added last, whatever the sort does ---- *)
Theorem most_specific_rule : forall (R : Type) (hist : list (bytes * R)) (rules : ruleset R) (uri : bytes),
  rs_reach hist rules -> rs_get rules uri = resolve hist uri.
Proof. exact (fun R => @rs_get_resolve R). Qed.

(** the executable model (insertion sort, compared with the Rust code on every run) is one of them *)
Theorem most_specific_rule_model : forall (R : Type) (hist : list (bytes * R)) (uri : bytes),
  rs_reach hist (rs_build rs_add hist) /\ rs_get (rs_build rs_add hist) uri = resolve hist uri.
Proof. exact (fun R hist uri => conj (rs_build_reach hist) (rs_get_build_resolve hist uri)). Qed.

(** what the resolver answers, in words *)
Theorem resolver_meaning : forall (R : Type) (hist : list (bytes * R)) (uri : bytes) (r : R),
  resolve hist uri = Some r <->
  exists p, In p (map fst hist) /\ covers p uri = true /\
            (forall q, In q (map fst hist) -> covers q uri = true -> more_specific q p = false) /\
            last_added hist p = Some r.
Proof. exact (fun R => @resolve_some_meaning R). Qed.
Theorem resolver_none : forall (R : Type) (hist : list (bytes * R)) (uri : bytes),
  resolve hist uri = None <-> forall p, In p (map fst hist) -> covers p uri = false.
Proof. exact (fun R => @resolve_none R). Qed.
Theorem covers_meaning : forall p uri : bytes,
  covers p uri = true <->
  (is_wild p = false /\ p = uri) \/ (exists pre rest, p = pre ++ [c_star] /\ uri = pre ++ rest).
Proof. exact RuleSetProofs.covers_meaning. Qed.
Theorem specificity_order : forall p q : bytes,
  (is_wild p = false -> is_wild q = true -> more_specific p q = true) /\
  (is_wild p = is_wild q -> (length q < length p)%nat -> more_specific p q = true) /\
  (forall uri, covers p uri = true -> covers q uri = true ->
               more_specific q p = false -> more_specific p q = false -> p = q).
Proof.
  exact (fun p q => conj (ms_exact_beats_wild p q) (conj (ms_longer_beats_shorter p q) (fun uri => best_unique p q uri))).
Qed.
Theorem last_added_meaning : forall (R : Type) (hist : list (bytes * R)) (p : bytes) (r : R),
  last_added hist p = Some r <-> exists h1 h2, hist = h1 ++ (p, r) :: h2 /\ ~ In p (map fst h2).
Proof. exact (fun R => @RuleSetProofs.last_added_meaning R). Qed.

(** kvarn 0.6.3 (binary search by string order in [add_mut]) fails this: re-adding keeps the old rule *)
Theorem readd_v0_refuted :
  rs_get (rs_build rs_add_v0 v0_hist) (B "/a") = Some 1 /\
  resolve v0_hist (B "/a") = Some 4 /\
  rs_get (rs_build rs_add v0_hist) (B "/a") = Some 4.
Proof. exact add_mut_v0_keeps_old_rule. Qed.

(** ---- 2. the nonce rewriting ---- *)
Theorem nonce_spec : forall nonce body : bytes, nonce_rewrite nonce body = Ok (Nonce.nonce_spec nonce body).
Proof. exact nonce_rewrite_spec. Qed.

Theorem nonce_splice : forall nonce body : bytes,
  exists ps, Forall wf_piece ps /\ greedy ps /\ body = render (fun v => v) ps /\
             nonce_rewrite nonce body = Ok (render (fun _ => nonce) ps).
Proof. exact nonce_rewrite_splice. Qed.

Theorem nonce_parse_unique : forall ps1 ps2 : list piece,
  Forall wf_piece ps1 -> greedy ps1 -> Forall wf_piece ps2 -> greedy ps2 ->
  render (fun v => v) ps1 = render (fun v => v) ps2 -> ps1 = ps2.
Proof. exact parse_unique. Qed.

Theorem nonce_never_panics : forall nonce body : bytes,
  nonce_rewrite nonce body <> Panic /\ forall e, nonce_rewrite nonce body <> Err e.
Proof. exact nonce_rewrite_total. Qed.

(** kvarn 0.6.3 fails this: panic on an empty body and near the end, stray quote, clobbered values *)
Theorem nonce_v0_refuted :
  nonce_rewrite_v0 (B "N") [] = Panic /\
  nonce_rewrite_v0 (B "N") (B "xnonce=") = Panic /\
  nonce_rewrite_v0 (B "N") (B "<s nonce=""x"">") = Ok (B "<s nonce=""N"""">") /\
  nonce_rewrite_v0 (B "N") (B "<s nonce=abc>") = Ok (B "<s nonce=""""c>").
Proof.
  exact (conj (nonce_v0_panics_on_empty_body (B "N")) (conj nonce_v0_panics_near_end
        (conj (proj1 nonce_v0_stray_quote) (proj1 nonce_v0_clobbers_unquoted)))).
Qed.

(** ---- 3. the policy carries the nonce in the four directives ---- *)
Theorem nonce_in_directives : forall (r : csp_rule) (n d : bytes),
  length (fst r) = 27%nat -> hv_to_str_ok n = true -> In d nonce_directives ->
  exists vals v pre post,
    In ([d], vals) (combine directive_names (fst r)) /\
    to_header_nonce r (Some n) = Some v /\
    v = pre ++ d ++ [c_sp] ++ (if is_nil (join_sp vals) then SELF_SP else join_sp vals ++ [c_sp]) ++ nonce_source n ++ post /\
    sep_head pre /\ sep_tail post.
Proof. exact nonce_in_four_directives. Qed.

(** the serialisation against an independent reading: what a CSP parser reads from the emitted text is
    exactly what the rule holds (for rules and nonces made of tokens: no space, no semicolon, not empty) *)
Theorem policy_parses : forall (r : csp_rule) (nonce : option bytes) (v : bytes),
  wf_rule r -> wf_nonce nonce -> to_header_nonce r nonce = Some v -> parse_policy v = spec_policy r nonce.
Proof. exact to_header_nonce_parses. Qed.

(** a header is emitted exactly when the rule holds something or the page has a nonce *)
Theorem policy_emitted_iff : forall (r : csp_rule) (nonce : option bytes),
  length (fst r) = 27%nat ->
  (to_header_nonce r nonce = None -> spec_policy r nonce = []) /\
  (forall v, to_header_nonce r nonce = Some v -> spec_policy r nonce <> []).
Proof. exact (fun r nonce L => conj (to_header_nonce_none r nonce) (fun v => to_header_nonce_some_nonempty r nonce v L)). Qed.

(** each of the four directives holds the rule's sources (['self'] when it has none) and then the nonce
    source — once: [spec_sources true] is what [spec_policy] gives the four directives *)
Theorem policy_nonce_directive : forall (r : csp_rule) (n d : bytes),
  length (fst r) = 27%nat -> hv_to_str_ok n = true -> In d nonce_directives ->
  exists vals, In ([d], vals) (combine directive_names (fst r)) /\
               In (d, (match vals with [] => [SELF] | _ => vals end) ++ [nonce_source n]) (spec_policy r (Some n)).
Proof. exact spec_policy_nonce_directive. Qed.
Theorem policy_nonce_once : forall (n : bytes) (vals : list bytes),
  hv_to_str_ok n = true -> ~ In (nonce_source n) vals ->
  count_occ (list_eq_dec N.eq_dec) (spec_sources true (Some n) vals) (nonce_source n) = 1%nat.
Proof. exact spec_sources_once. Qed.

(** the page and the policy sent with it carry the same value *)
Theorem nonce_same_in_body_and_policy :
  forall (hist : list (bytes * csp_rule)) (rules : ruleset csp_rule) (server path : bytes)
         (rng : nat -> bytes) (handler : page) (rule : csp_rule) (k : nat),
  rs_reach hist rules -> resolve hist (csp_path path) = Some rule ->
  let reply := nonce_reply (rng k) handler in
  h_all H_CSP (package_chain rules server path (pg_headers reply))
  = match to_header_nonce rule (Some (rng k)) with Some v => [v] | None => h_all H_CSP (pg_headers handler) end /\
  exists ps, Forall wf_piece ps /\ greedy ps /\ pg_body handler = render (fun v => v) ps /\
             pg_body reply = render (fun _ => rng k) ps.
Proof. exact page_and_policy_same_nonce. Qed.

(** ---- 4. a nonce page is never cached ---- *)
Theorem nonce_not_cached : forall (guard : bool) (rng : nat -> bytes) (handler : page) (n : nat),
  page_history guard nonce_rewrite rng [DNonce] handler n pstate0
  = Ok ({| st_calls := n; st_draws := n; st_cache := None |}, map (fun k => nonce_reply (rng k) handler) (seq 1 n)).
Proof. exact nonce_never_cached. Qed.

Theorem nonce_not_admitted :
  forall (rewrite : bytes -> bytes -> outcome bytes) (n : bytes) (p p' : page),
  nonce_present rewrite n p = Ok p' ->
  pg_pref p' = SNone /\
  forall cache_on m status compress, Cache.may_store cache_on m (fat_of status compress p') = false.
Proof. exact nonce_page_not_admitted. Qed.

Theorem nonce_fresh_per_response : forall (guard : bool) (rng : nat -> bytes) (handler : page) (n i j : nat),
  (forall a b, a <> b -> rng a <> rng b) -> i <> j -> (i < n)%nat -> (j < n)%nat ->
  forall st out, page_history guard nonce_rewrite rng [DNonce] handler n pstate0 = Ok (st, out) ->
  exists ri rj, nth_error out i = Some ri /\ nth_error out j = Some rj /\
                h_get H_NONCE (pg_headers ri) = Some (rng (S i)) /\ h_get H_NONCE (pg_headers rj) = Some (rng (S j)) /\
                rng (S i) <> rng (S j).
Proof. exact nonce_replies_differ. Qed.

(** ... whatever else the first line of the page says, in whatever order ([!> nonce &> cache server:full],
    [!> allow-ips .. &> nonce &> cache ..], ...), for every rewriter and every history of requests: nothing
    that carries a nonce is in the cache, and two replies that carry a nonce carry different draws *)
Theorem nonce_not_cached_any_line :
  forall (rewrite : bytes -> bytes -> outcome bytes) (rng : nat -> bytes) (line : list directive) (handler : page)
         (n : nat) (st : pstate) (out : list page),
  nonce_of handler = None ->
  page_history true rewrite rng line handler n pstate0 = Ok (st, out) ->
  (forall p, st_cache st = Some p -> nonce_of p = None) /\
  ((forall a b, a <> b -> rng a <> rng b) ->
   forall i j ri rj x y, i <> j -> nth_error out i = Some ri -> nth_error out j = Some rj ->
   nonce_of ri = Some x -> nonce_of rj = Some y -> x <> y).
Proof. exact any_line_fresh. Qed.

Theorem nonce_line_never_admitted :
  forall (rewrite : bytes -> bytes -> outcome bytes) (rng : nat -> bytes) (line : list directive) (k k' : nat) (p p' : page),
  present_chain true rewrite rng line k p = Ok (k', p') -> nonce_of p' <> None -> pg_pref p' = SNone.
Proof. exact (fun rewrite rng line k k' p p' => guard_pref rewrite rng line k p k' p'). Qed.

(** kvarn 0.6.3 + kvarn_extensions fails this: [!> nonce &> cache server:full] is stored with its nonce *)
Theorem nonce_line_v0_refuted :
  (exists r, page_history false nonce_rewrite sym_nonce [DNonce; DCache (Some SFull)] line_v0_handler 2 pstate0
             = Ok ({| st_calls := 1; st_draws := 1; st_cache := Some r |}, [r; r]) /\ nonce_of r = Some (sym_nonce 1)) /\
  (exists r1 r2, page_history true nonce_rewrite sym_nonce [DNonce; DCache (Some SFull)] line_v0_handler 2 pstate0
             = Ok ({| st_calls := 2; st_draws := 2; st_cache := None |}, [r1; r2]) /\
             nonce_of r1 = Some (sym_nonce 1) /\ nonce_of r2 = Some (sym_nonce 2)).
Proof. exact line_v0_cached. Qed.

(** ---- 5. the internal header never leaves the Package chain ---- *)
Theorem internal_header_hidden : forall (rules : ruleset csp_rule) (server path : bytes) (h : headers),
  ~ In H_NONCE (map fst (package_chain rules server path h)).
Proof. exact chain_hides_nonce. Qed.

(** kvarn 0.6.3 fails this when no rule covers the path *)
Theorem internal_header_v0_refuted :
  h_all H_NONCE (package_chain_v0 [] (B "S") (B "/x") [(H_NONCE, B "n")]) = [B "n"] /\
  h_all H_NONCE (package_chain [] (B "S") (B "/x") [(H_NONCE, B "n")]) = [].
Proof. exact v0_exposes_nonce. Qed.

(** ---- 6. every head that goes through the chain gets the three headers ---- *)
Theorem always_headers :
  forall (hist : list (bytes * csp_rule)) (rules : ruleset csp_rule) (server path : bytes) (h : headers),
  rs_reach hist rules ->
  h_all H_CSP (package_chain rules server path h) = spec_csp hist path h /\
  h_all H_REFERRER (package_chain rules server path h) = spec_referrer h /\
  h_all H_SERVER (package_chain rules server path h) = [server] /\
  h_all H_NONCE (package_chain rules server path h) = [].
Proof. exact chain_always_headers. Qed.

(** ... with the flags of [with_server_header] (platform suffix; [override_server_header = false] appends) *)
Theorem always_headers_flags :
  forall (hist : list (bytes * csp_rule)) (rules : ruleset csp_rule) (platform override : bool) (server path : bytes) (h : headers),
  rs_reach hist rules ->
  h_all H_CSP (package_chain_cfg (mkCfg true true true platform override) rules server path h) = spec_csp hist path h /\
  h_all H_REFERRER (package_chain_cfg (mkCfg true true true platform override) rules server path h) = spec_referrer h /\
  h_all H_SERVER (package_chain_cfg (mkCfg true true true platform override) rules server path h) = spec_server platform override server h /\
  h_all H_NONCE (package_chain_cfg (mkCfg true true true platform override) rules server path h) = [].
Proof. exact chain_flags_headers. Qed.

(** ... and what a CSP parser reads from the header is the policy of the most specific rule for the path
    the file is read from (or what the handler set when that rule holds nothing / no rule covers it) *)
Theorem always_policy :
  forall (hist : list (bytes * csp_rule)) (rules : ruleset csp_rule) (platform override : bool) (server path : bytes) (h : headers),
  rs_reach hist rules -> Forall (fun e => wf_rule (snd e)) hist -> wf_nonce (h_get H_NONCE h) ->
  map parse_policy (h_all H_CSP (package_chain_cfg (mkCfg true true true platform override) rules server path h))
  = spec_csp_parsed hist path h.
Proof. exact chain_policy. Qed.

(** kvarn 0.6.3 fails this: the rule was looked up with the path as spelled in the request *)
Theorem csp_raw_path_refuted :
  h_all H_CSP (package_chain_raw (rs_build rs_add raw_hist) (B "S") (B "/%75c/evil.html") [])
    = [B "default-src 'self'; style-src 'self' 'unsafe-inline'"] /\
  spec_csp raw_hist (B "/%75c/evil.html") [] = [B "script-src 'none'"] /\
  h_all H_CSP (package_chain (rs_build rs_add raw_hist) (B "S") (B "/%75c/evil.html") []) = [B "script-src 'none'"].
Proof. exact raw_path_wrong_rule. Qed.

(** ... and in the send-path model every reply (hit, miss, 4xx, 304, 206, 416) went through the chain with
    the path of ITS request (after the Prime rewriting): the k-th reply carries the headers the property
    demands for the k-th request's path and the head [h] of the response selected for it *)
Theorem always_headers_send :
  forall (guard : bool) (rewrite : bytes -> bytes -> outcome bytes) (hist : list (bytes * csp_rule)) (rules : ruleset csp_rule)
         (platform override : bool) (server : bytes) (hs : list chandler),
  rs_reach hist rules ->
  forall rs st out,
  conn_run guard rewrite (package_chain_cfg (mkCfg true true true platform override) rules server) hs st rs = Ok out ->
  Forall2 (fun r rep => exists h,
             h_all H_CSP (rp_headers rep) = spec_csp hist (prime_path (cr_path r)) h /\
             h_all H_REFERRER (rp_headers rep) = spec_referrer h /\
             h_all H_SERVER (rp_headers rep) = spec_server platform override server h /\
             h_all H_NONCE (rp_headers rep) = []) rs out.
Proof. exact conn_run_headers. Qed.

(** [spec_csp] for a rule that holds something: exactly its serialisation (with the page's nonce, if any) *)
Theorem send_policy_of_request_rule :
  forall (hist : list (bytes * csp_rule)) (path : bytes) (h : headers) (rule : csp_rule) (v0 : bytes),
  resolve hist (csp_path path) = Some rule -> to_header_nonce rule None = Some v0 ->
  exists v, to_header_nonce rule (h_get H_NONCE h) = Some v /\ spec_csp hist path h = [v].
Proof. exact spec_csp_rule. Qed.

(** ---- non-vacuity ---- *)
Definition ex_hist : list (bytes * N) :=
  [(B "/*", 1); (B "/a/*", 2); (B "/a/b", 3); (B "/*", 4); (B "/a/*", 5); (B "/a/b", 6); (B "/ab*", 7)].
Example ex_reach : rs_reach ex_hist (rs_build rs_add ex_hist).
Proof. apply rs_build_reach. Qed.
Example ex_get :
  map (rs_get (rs_build rs_add ex_hist)) [B "/a/b"; B "/a/c"; B "/abc"; B "/x"; B ""]
  = [Some 6; Some 5; Some 7; Some 4; None].
Proof. vm_compute. reflexivity. Qed.
(** a second vector reachable with the same history (equal-rank rules in another order) *)
Example ex_other_sort :
  rs_reach [(B "/a", 1); (B "/b", 2)] [(B "/b", 2); (B "/a", 1)] /\
  rs_build rs_add [(B "/a", 1); (B "/b", 2)] = [(B "/a", 1); (B "/b", 2)].
Proof.
  split; [|vm_compute; reflexivity].
  apply (reach_add [(B "/a", 1)] [(B "/a", 1)] (B "/b") 2).
  - apply (reach_add [] [] (B "/a") 1); [constructor|]. split; [apply Permutation.Permutation_refl|repeat constructor].
  - split; [apply Permutation.perm_swap|].
    repeat constructor; vm_compute; discriminate.
Qed.

Definition ex_body : bytes := B "<script nonce=""old"">a</script><style nonce=''>b</style> nonce=x nonce=""open".
Example ex_rewrite :
  nonce_rewrite (B "NONCE") ex_body
  = Ok (B "<script nonce=""NONCE"">a</script><style nonce='NONCE'>b</style> nonce=x nonce=""open").
Proof. vm_compute. reflexivity. Qed.

Definition ex_rule : csp_rule :=
  (set_nth 2 [B "'self'"] (set_nth 13 [B "'self'"; B "'unsafe-inline'"] (fst csp_empty)), []).
Example ex_rule_len : length (fst ex_rule) = 27%nat.
Proof. reflexivity. Qed.
Example ex_policy :
  to_header_nonce ex_rule (Some (B "AAAA")) =
  Some (B "default-src 'self'; script-src 'self' 'nonce-AAAA'; script-src-elem 'self' 'nonce-AAAA'; style-src 'self' 'unsafe-inline' 'nonce-AAAA'; style-src-elem 'self' 'nonce-AAAA'")
  /\ hv_to_str_ok (B "AAAA") = true.
Proof. vm_compute. split; reflexivity. Qed.

Definition ex_csp_hist : list (bytes * csp_rule) := [(B "/*", ex_rule); (B "/api/*", csp_empty)].
Example ex_chain :
  package_chain (rs_build rs_add ex_csp_hist) (B "Kvarn") (B "/index.html") [(B "content-type", B "text/html")]
  = [(B "content-type", B "text/html");
     (H_CSP, B "default-src 'self'; style-src 'self' 'unsafe-inline'");
     (H_REFERRER, NO_REFERRER); (H_SERVER, B "Kvarn")]
  /\ package_chain (rs_build rs_add ex_csp_hist) (B "Kvarn") (B "/api/x") [(H_REFERRER, B "origin"); (H_NONCE, B "n")]
  = [(H_REFERRER, B "origin"); (H_CSP, B "script-src 'self' 'nonce-n'; script-src-elem 'self' 'nonce-n'; style-src 'self' 'nonce-n'; style-src-elem 'self' 'nonce-n'"); (H_SERVER, B "Kvarn")].
Proof. vm_compute. split; reflexivity. Qed.

Example ex_history :
  page_history true nonce_rewrite sym_nonce [DNonce] (handler_page (B "<s nonce='x'>") 1) 3 pstate0
  = Ok ({| st_calls := 3; st_draws := 3; st_cache := None |},
        map (fun k => nonce_reply (sym_nonce k) (handler_page (B "<s nonce='x'>") 1)) [1; 2; 3]%nat)
  /\ sym_nonce 1 <> sym_nonce 2.
Proof. split; [vm_compute; reflexivity|vm_compute; discriminate]. Qed.

(** a line with several directives: the nonce survives [cache] and a matching [allow-ips], not [hide] *)
Example ex_lines :
  map (fun line => match present_chain true nonce_rewrite sym_nonce line 0 (handler_page (B "<s nonce='x'>") 1) with
                   | Ok (k, p) => Some (k, pg_status p, nonce_of p, pg_pref p)
                   | _ => None end)
      [ [DNonce; DCache (Some SFull)]; [DCache (Some SFull); DNonce]; [DAllowIps true; DNonce; DCache (Some SMaxAge)];
        [DNonce; DHide; DCache (Some SFull)]; [DNonce; DNonce]; [DCache (Some SQueryMatters)] ]
  = [ Some (1%nat, 200, Some (sym_nonce 1), SNone); Some (1%nat, 200, Some (sym_nonce 1), SNone);
      Some (1%nat, 200, Some (sym_nonce 1), SNone); Some (1%nat, 404, None, SFull);
      Some (2%nat, 200, Some (sym_nonce 2), SNone); Some (0%nat, 200, None, SQueryMatters) ].
Proof. vm_compute. reflexivity. Qed.

(** a rule made of tokens, and what a parser reads from its serialisation *)
Example ex_wf_rule : wf_rule ex_rule /\ wf_nonce (Some (B "AAAA")).
Proof.
  split; [|split; vm_compute; intuition discriminate].
  split; [reflexivity|]. split; [|constructor].
  repeat constructor; try (apply wf_tokb_ok; vm_compute; reflexivity).
Qed.
Example ex_parsed :
  option_map parse_policy (to_header_nonce ex_rule (Some (B "AAAA"))) = Some (spec_policy ex_rule (Some (B "AAAA"))) /\
  spec_policy ex_rule (Some (B "AAAA")) =
  [ (B "default-src", [B "'self'"]); (B "script-src", [B "'self'"; B "'nonce-AAAA'"]);
    (B "script-src-elem", [B "'self'"; B "'nonce-AAAA'"]); (B "style-src", [B "'self'"; B "'unsafe-inline'"; B "'nonce-AAAA'"]);
    (B "style-src-elem", [B "'self'"; B "'nonce-AAAA'"]) ].
Proof. vm_compute. split; reflexivity. Qed.

(** the fixture of the send path: miss, hit, 304, 206, 416, 404, 400 all carry the headers *)
Definition ex_handlers : list chandler :=
  [mkCH (B "/p") 200 [(H_REFERRER, B "origin")] true [] (B "0123456789") false].
Definition ex_reqs : list creq :=
  [mkCR 0 (B "/p") 0 false 0; mkCR 0 (B "/p") 0 false 0; mkCR 0 (B "/p") 0 true 0; mkCR 0 (B "/p") 1 false 0;
   mkCR 0 (B "/p") 2 false 0; mkCR 0 (B "/none") 0 false 0; mkCR 0 (B "/./p") 0 false 0].
Example ex_send :
  match conn_run true nonce_rewrite (package_chain_cfg (mkCfg true true true false true) (rs_build rs_add ex_csp_hist) (B "K")) ex_handlers (mkCS [] O) ex_reqs with
  | Ok out => map rp_status out = [200; 200; 304; 206; 416; 404; 400] /\
              map (fun r => h_all H_REFERRER (rp_headers r)) out
              = [[B "origin"]; [B "origin"]; [NO_REFERRER]; [B "origin"]; [NO_REFERRER]; [NO_REFERRER]; [NO_REFERRER]]
  | _ => False
  end.
Proof. vm_compute. split; reflexivity. Qed.
