(** C08 — HTTP/1 responses are correctly framed on persistent connections. *)
From KV Require Import Bytes RustInt Range Cache Http1Write Http1WriteProofs.
Open Scope N_scope.
