(** C08 — HTTP/1 responses are correctly framed on persistent connections.
    Only statements here; proofs are in Proofs/Http1WriteProofs.v.

    Reading guide.  [print_head]/[wire] is what [kvarn_async::write::response] and the body write put on the
    socket; [send] is [SendKind::send] (no body for 1xx/204/304 -> range (not for a streamed reply) ->
    content-length (and no transfer-encoding beside it; not for a stream of unknown length) -> version -> Package
    extensions -> connection header -> body unless HEAD -> the chunks the reply's future writes, unless HEAD);
    [conn_run] is the request loop of [handle_connection]; [parse_responses] is the strict client of the property:
    one response per request method, bodies read by content-length (none for HEAD, 1xx, 204, 304), nothing may be
    left over; [parse_closing] is the same client on a connection the server ends after the last response, whose
    body may then run up to the end of the stream.
    [reply0] is what [handle_cache] returns, including a future ([stream_body], [with_future(_and_len)]): the
    length it announces, if any, and the chunks it writes.  [unframed r]: the reply streams a body of unknown
    length (and does not frame it itself by a transfer-encoding); the repaired server closes after it.
    [reply_ok] are the invariants of the [http] crate for what a handler / [handle_cache] returns (status
    100..999, lower-case token names, values without CR/LF/NUL.., not HTTP/0.9), the range of
    [sanitize_request] has start < end, and [stream_ok]: a streamed reply is not a 1xx/204/304, the length it
    announces is the length of what its body and future write, and a stream of unknown length carries no
    transfer-encoding / content-length of the handler's own.  Nothing is asked any more about the body of a
    1xx/204/304 reply or about transfer-encoding beside a known length: [send] repairs both.
    [app_ok app I]: the application keeps an invariant [I] of its state under which its replies satisfy
    [reply_ok] and are not [unframed].  [package_ok]: Package extensions leave version, status and
    content-length alone.  [polite]: the client addresses a configured host, is not beyond the limiter's drop
    level, and sends exactly the body its request declares. *)
From KV Require Import Bytes RustInt Range Cache Http1Write Http1WriteProofs.
Open Scope N_scope.

(** The strict client stays in sync on every sequence of well-formed responses. *)
Theorem framing_roundtrip : forall l : list (N * sent),
  Forall (fun p => framed (fst p) (snd p)) l ->
  parse_responses (map fst l) (concat (map (fun p => wire (snd p)) l)) = Some (map (fun p => observable (snd p)) l).
Proof. exact framing_roundtrip_lemma. Qed.

(** Every output of the send path is well formed for the strict client, and the send path never panics. *)
Theorem send_output_framed : forall (error_body : N -> option bytes -> bytes) (package : head -> head),
  package_ok package -> forall (m : N) (r : reply0) (s : sent),
  reply_ok r -> unframed r = false -> send error_body package m r = Ok s -> framed m s.
Proof. exact send_framed. Qed.

Theorem send_total : forall (error_body : N -> option bytes -> bytes) (package : head -> head),
  package_ok package -> forall (m : N) (r : reply0), reply_ok r -> exists s, send error_body package m r = Ok s.
Proof. exact send_never_panics. Qed.

(** content-length = number of body bytes written - those of the reply's body and those its future streams -
    for every method but HEAD (ranged, compressed, error, 304 and streamed replies alike). *)
Theorem length_is_body : forall (error_body : N -> option bytes -> bytes) (package : head -> head),
  package_ok package -> forall (m : N) (r : reply0) (s : sent),
  reply_ok r -> unframed r = false -> m <> M_HEAD -> send error_body package m r = Ok s ->
  announced (hd_headers (st_head s)) = Some (N.of_nat (length (st_body s))).
Proof. exact length_is_body_lemma. Qed.

(** HEAD: no byte follows the head - whether the reply holds its body or streams it - and the head (status,
    every header, the announced length) is the one GET gets for the same reply of [handle_cache]; the announced
    length is the number of body bytes of that GET. *)
Theorem head_has_no_body : forall (error_body : N -> option bytes -> bytes) (package : head -> head),
  package_ok package -> forall (r : reply0) (s : sent),
  reply_ok r -> send error_body package M_HEAD r = Ok s ->
  st_body s = [] /\
  exists g, send error_body package M_GET r = Ok g /\ st_head g = st_head s /\
            (unframed r = false -> announced (hd_headers (st_head s)) = Some (N.of_nat (length (st_body g)))).
Proof. exact head_has_no_body_lemma. Qed.

(** A stream of unknown length cannot be framed on a kept connection: no length is announced, the head says
    [connection: close], and the body is what follows up to the end of the stream. *)
Theorem unframed_stream_is_close_delimited : forall (error_body : N -> option bytes -> bytes) (package : head -> head),
  package_ok package -> forall (m : N) (r : reply0) (s : sent),
  reply_ok r -> unframed r = true -> send error_body package m r = Ok s ->
  close_framed m s /\ assoc s_connection (hd_headers (st_head s)) = Some (B "close") /\
  announced (hd_headers (st_head s)) = None.
Proof. exact send_close_framed. Qed.

(** ... and the server closes after it: on a history of polite requests whose last one - and no earlier one - is
    answered by such a stream, every request is answered, in order, the connection is closed after the last
    response, and the client that reads the last body up to the end of the stream recovers every response. *)
Theorem closing_history :
  forall (Q A : Type) (q_method : Q -> N) (q_content_length : Q -> option bytes) (q_known_host : Q -> bool)
         (q_head : Q -> bytes) (app : A -> Q -> A * reply0 * option N) (error_body : N -> option bytes -> bytes)
         (package : Q -> head -> head) (too_many_body : bytes),
  packages_ok Q package ->
  forall (hs : list (hreq Q)) (a : A) (h : hreq Q),
  run_ok Q A app a hs -> Forall (polite Q q_method q_content_length q_known_host) (hs ++ [h]) -> h_action h = APassed ->
  reply_ok (snd (fst (app (app_after Q A app a hs) (h_q h)))) ->
  unframed (snd (fst (app (app_after Q A app a hs) (h_q h)))) = true ->
  exists (ss : list sent) (s : sent),
    conn_run Q A q_method q_content_length q_known_host q_head app error_body package too_many_body true true a (Open []) (hs ++ [h])
      = (map Some (ss ++ [s]), Closed) /\
    length ss = length hs /\
    announced (hd_headers (st_head s)) = None /\ assoc s_connection (hd_headers (st_head s)) = Some (B "close") /\
    parse_closing (map (fun h => q_method (h_q h)) (hs ++ [h])) (written (map Some (ss ++ [s])))
      = Some (map observable (ss ++ [s])).
Proof. exact closing_history_lemma. Qed.

(** [extensions::stream_body] announces exactly the bytes its future sends - for every file content and every
    request (any Range header) that it answers with a stream ... *)
Theorem stream_body_announces : forall (content : bytes) (r : request) (f : option N * list bytes),
  stream_body_future true content r = Some f ->
  fst f = Some (N.of_nat (length (concat (snd f)))).
Proof. exact stream_body_announces_lemma. Qed.

(** ... and the only requests it does not answer with a stream are those whose range starts at or after the end
    of the file: they get the 416 page, which has no future (d675f8a). *)
Theorem stream_body_refuses : forall (content : bytes) (r : request),
  stream_body_future true content r = None <->
  exists s e, sanitize_range (header (B "range") r) = Ok (Some (s, e)) /\ N.of_nat (length content) <= s.
Proof. exact stream_body_refuses_lemma. Qed.

(** A request with a range (start < end, which is how [sanitize_request] hands a range over) that is answered with
    a stream gets 206 and a [content-range] that names exactly the bytes the future sends - at least one - out of
    the whole file (d675f8a; before, it got 200 without [content-range]). *)
Theorem stream_body_content_range : forall (content : bytes) (r : request) (s e0 : N) (f : option N * list bytes),
  stream_body_range r = Some (s, e0) -> s < e0 ->
  stream_body_future true content r = Some f ->
  let n := N.of_nat (length (concat (snd f))) in
  0 < n /\
  stream_body_head content r
  = (206, [(B "content-range", B "bytes " ++ dec s ++ B "-" ++ dec (s + n - 1) ++ B "/" ++ dec (N.of_nat (length content)))]) /\
  concat (snd f) = firstn (N.to_nat n) (skipn (N.to_nat s) content).
Proof. exact stream_body_content_range_lemma. Qed.

(** The connection: for every history of polite requests (any methods, any handlers' replies and use of the
    request body, any split of each body between the head's segment and later, any mix of passed and
    rate-limited requests) the server writes exactly one response per request, in request order ([serve_seq]
    threads only the application state), the connection is still open and clean afterwards, and the strict
    client parses everything that was written into exactly those responses. *)
Theorem one_response_per_request :
  forall (Q A : Type) (q_method : Q -> N) (q_content_length : Q -> option bytes) (q_known_host : Q -> bool)
         (q_head : Q -> bytes) (app : A -> Q -> A * reply0 * option N) (error_body : N -> option bytes -> bytes)
         (package : Q -> head -> head) (too_many_body : bytes) (I : A -> Prop),
  app_ok Q A app I -> packages_ok Q package ->
  forall (hs : list (hreq Q)) (a : A), I a ->
  Forall (polite Q q_method q_content_length q_known_host) hs ->
  exists ss : list sent,
    conn_run Q A q_method q_content_length q_known_host q_head app error_body package too_many_body true true a (Open []) hs
      = (map Some ss, Open []) /\
    length ss = length hs /\
    serve_seq Q A q_method app error_body package too_many_body true a hs = map Ok ss /\
    parse_responses (map (fun h => q_method (h_q h)) hs) (written (map Some ss)) = Some (map observable ss).
Proof. exact one_response_per_request_lemma. Qed.

(** A request body the handler did not read (or read in part: [lim]): after the response the repaired code
    discards what is left of the declared body, so the connection stays usable iff the client sent exactly the
    declared body — whatever part arrived with the head; if it sent less, the connection is closed after the
    response; more than declared is outside this model.  (Hypotheses: the bytes in the head's segment do not
    exceed the declared body, and a handler that reads is given the bytes it waits for.)
    The declared length is the one of [get_body_length_request]: 0 for GET / HEAD / OPTIONS whatever they say. *)
Theorem unread_body :
  forall (Q : Type) (q_method : Q -> N) (q_content_length : Q -> option bytes) (h : hreq Q) (lim : option N),
  let declared := body_length (q_method (h_q h)) (q_content_length (h_q h)) in
  let total := N.of_nat (length (h_body h)) in
  N.min (N.of_nat (h_early h)) total <= declared ->
  match lim with Some l => N.min declared l | None => 0 end <= total ->
  after_body Q q_method q_content_length true h lim =
    if total =? declared then Open [] else if total <? declared then Closed else Unmodelled.
Proof. exact after_body_spec. Qed.

(** The tie to the run: [h1w.expect] reports for every generated history whether it meets the hypotheses
    ([c8_hyps]: polite client, [reply_ok] for every reply of the fixture application along the history); for
    each such history the model's run — the prediction the real server's bytes are compared with — has the
    property by this theorem, not by evaluation. *)
Theorem checked_history_is_instance : forall (cfg : c8cfg) (reqs : list (c8req * bytes * nat)),
  c8_hyps cfg (c8_state0 cfg) (with_actions (c8_limit cfg) 1 reqs) = true ->
  exists ss, c8_run true true cfg reqs = (map Some ss, Open []) /\
             length ss = length (with_actions (c8_limit cfg) 1 reqs) /\
             parse_responses (map (fun h => rq_method (q_req (h_q h))) (with_actions (c8_limit cfg) 1 reqs))
                             (written (map Some ss)) = Some (map observable ss).
Proof. exact checked_history_lemma. Qed.

(** The same tie for the histories that meet a stream of unknown length (fifth field of [h1w.expect]): up to and
    including the first such answer the history is an instance of [closing_history]. *)
Theorem checked_closing_history_is_instance : forall (cfg : c8cfg) (reqs : list (c8req * bytes * nat)) (n : nat),
  c8_hyps_closing cfg (c8_state0 cfg) (with_actions (c8_limit cfg) 1 reqs) O = Some n ->
  exists pre h post ss s,
    with_actions (c8_limit cfg) 1 reqs = pre ++ h :: post /\ n = S (length pre) /\
    c8_run_hs true true cfg (pre ++ [h]) = (map Some (ss ++ [s]), Closed) /\ length ss = length pre /\
    announced (hd_headers (st_head s)) = None /\ assoc s_connection (hd_headers (st_head s)) = Some (B "close") /\
    parse_closing (map (fun h => rq_method (q_req (h_q h))) (pre ++ [h])) (written (map Some (ss ++ [s])))
      = Some (map observable (ss ++ [s])).
Proof. exact checked_closing_history_lemma. Qed.

(** The ways the loop ends a connection: once closed nothing more is written; an unknown Host gets a
    well-formed 409 and the connection is closed; a request beyond the limiter's drop level closes it unanswered. *)
Theorem closed_is_silent :
  forall (Q A : Type) (q_method : Q -> N) (q_content_length : Q -> option bytes) (q_known_host : Q -> bool)
         (q_head : Q -> bytes) (app : A -> Q -> A * reply0 * option N) (error_body : N -> option bytes -> bytes)
         (package : Q -> head -> head) (too_many_body : bytes) (drain head_rule : bool) (hs : list (hreq Q)) (a : A),
  conn_run Q A q_method q_content_length q_known_host q_head app error_body package too_many_body drain head_rule a Closed hs
  = (map (fun _ => None) hs, Closed).
Proof. exact closed_is_silent_lemma. Qed.

Theorem closing_requests :
  forall (Q A : Type) (q_method : Q -> N) (q_content_length : Q -> option bytes) (q_known_host : Q -> bool)
         (q_head : Q -> bytes) (app : A -> Q -> A * reply0 * option N) (error_body : N -> option bytes -> bytes)
         (package : Q -> head -> head) (too_many_body : bytes) (drain head_rule : bool) (h : hreq Q) (a : A),
  (q_known_host (h_q h) = false ->
   conn_step Q A q_method q_content_length q_known_host q_head app error_body package too_many_body drain true a [] h
   = (a, Some (no_host error_body true (q_method (h_q h))), Closed) /\
   framed (q_method (h_q h)) (no_host error_body true (q_method (h_q h)))) /\
  (q_known_host (h_q h) = true -> h_action h = ADrop ->
   conn_step Q A q_method q_content_length q_known_host q_head app error_body package too_many_body drain head_rule a [] h
   = (a, None, Closed)).
Proof. exact closing_requests_lemma. Qed.

(** The code before the repair (kvarn 0.6.3): POST /f.txt with content-length 10 whose body arrives after the
    head is answered 405 at once; the ten bytes are then read as the next request line and the connection is
    closed without answering the GET.  Replayed on the real code (corpus of the correspondence run). *)
Theorem unread_body_v0_refuted :
  (let '(os, fin) := c8_run false true w_cfg w_unread in
   statuses os = [Some 405; None] /\ fin = Closed /\ parse_responses [M_POST; M_GET] (written os) = None) /\
  (let '(os, fin) := c8_run true true w_cfg w_unread in
   statuses os = [Some 405; Some 200] /\ fin = Open [] /\
   option_map (map p_status) (parse_responses [M_POST; M_GET] (written os)) = Some [405; 200]).
Proof. exact unread_body_v0_witness. Qed.

(** Before the repair the rate-limit answer carried its body also for HEAD: the strict client lost sync. *)
Theorem limited_head_v0_refuted :
  parse_responses [M_HEAD; M_GET] (wire (limited TOO_MANY false M_HEAD) ++ wire (limited TOO_MANY false M_GET)) = None /\
  option_map (map p_status)
    (parse_responses [M_HEAD; M_GET] (wire (limited TOO_MANY true M_HEAD) ++ wire (limited TOO_MANY true M_GET))) = Some [429; 429].
Proof. exact limited_head_v0_witness. Qed.

(** The five defects of the send path repaired on the way ([send_v0] is the code before): a handler's 204 with a
    body; a streamed reply to HEAD; a stream of unknown length on a kept connection; transfer-encoding beside
    content-length; [stream_body] and a range that reaches past the end of the file.  Each was reproduced on the
    real code through the harness before the repair, and is replayed on the repaired code by the corpus. *)
Theorem bodyless_status_with_body_v0_refuted :
  (exists s, w_send_v0 M_GET w_204 = Ok s /\ parse_responses [M_GET] (wire s) = None) /\
  (exists s, w_send M_GET w_204 = Ok s /\ st_body s = [] /\
             option_map (map p_status) (parse_responses [M_GET] (wire s)) = Some [204]).
Proof. exact bodyless_with_body_witness. Qed.

Theorem head_stream_v0_refuted :
  parse_responses [M_HEAD; M_GET] (w_pair w_send_v0 w_stream) = None /\
  option_map (map (fun p => (p_status p, p_body p))) (parse_responses [M_HEAD; M_GET] (w_pair w_send w_stream))
    = Some [(200, []); (200, B "hello world")].
Proof. exact head_stream_v0_witness. Qed.

Theorem unframed_stream_v0_refuted :
  (exists s, w_send_v0 M_GET w_nolen = Ok s /\ announced (hd_headers (st_head s)) = None /\
             assoc s_connection (hd_headers (st_head s)) = Some s_keep_alive /\
             parse_responses [M_GET] (wire s) = None) /\
  (exists s, w_send M_GET w_nolen = Ok s /\ assoc s_connection (hd_headers (st_head s)) = Some (B "close") /\
             option_map (map p_body) (parse_closing [M_GET] (wire s)) = Some [B "abcdefg"]).
Proof. exact unframed_stream_v0_witness. Qed.

Theorem te_with_length_v0_refuted :
  (exists s, w_send_v0 M_GET w_te = Ok s /\ parse_responses [M_GET] (wire s) = None) /\
  (exists s, w_send M_GET w_te = Ok s /\
             option_map (map p_body) (parse_responses [M_GET] (wire s)) = Some [B "with te"]).
Proof. exact te_with_length_v0_witness. Qed.

Theorem stream_body_range_v0_refuted :
  exists content r f, stream_body_future false content r = Some f /\
                      fst f <> Some (N.of_nat (length (concat (snd f)))).
Proof. exact stream_body_range_v0_witness. Qed.

(** ---- non-vacuity ---- *)
Definition ex_reply : reply0 :=
  mkR0 11 200 [(B "content-type", B "text/plain"); (B "x-tag", B "a b\tc")] (B "hello world") (Some (Some (2, 6))) None.
Example ex_reply_ok : reply_ok ex_reply /\ unframed ex_reply = false.
Proof.
  split; [|reflexivity].
  unfold reply_ok, ex_reply. cbn [r0_status r0_version r0_headers r0_body r0_sanitize].
  split; [lia|]. split; [discriminate|]. split; [repeat constructor|]. split; [repeat constructor|].
  split; [lia | exact Logic.I].
Qed.
(** streamed replies: one with an announced length, one of unknown length, a 204 with a body, a reply with
    transfer-encoding - all within [reply_ok] *)
Example ex_stream_ok : reply_ok w_stream /\ unframed w_stream = false /\ reply_ok w_nolen /\ unframed w_nolen = true /\
                       reply_ok w_204 /\ reply_ok w_te.
Proof.
  assert (H : forall r, reply_okb r = true -> reply_ok r) by exact reply_okb_sound.
  repeat split; try reflexivity; apply H; vm_compute; reflexivity.
Qed.
Example ex_package_ok : package_ok (fun h => h).
Proof. exact package_id_ok. Qed.
(** an application meeting [app_ok]: every request is answered with [ex_reply], bodies are read up to 5 bytes *)
Example ex_app_ok : app_ok unit unit (fun a _ => (a, ex_reply, Some 5)) (fun _ => True) /\ packages_ok unit (fun _ h => h).
Proof. split; [intros a q _; split; [exact (proj1 ex_reply_ok) | split; [reflexivity | exact Logic.I]] | intros q; exact package_id_ok]. Qed.
(** GET, HEAD and a 416 on one connection: what is written and what the strict client reads *)
Example ex_sequence :
  exists g h e,
    send hardcoded_error_body (fun x => x) M_GET ex_reply = Ok g /\
    send hardcoded_error_body (fun x => x) M_HEAD ex_reply = Ok h /\
    send hardcoded_error_body (fun x => x) M_GET (mkR0 11 200 [] (B "abc") (Some (Some (7, 9))) None) = Ok e /\
    option_map (map (fun p => (p_status p, p_body p, announced (p_headers p))))
      (parse_responses [M_GET; M_HEAD; M_GET] (wire g ++ wire h ++ wire e))
    = Some [(206, B "llo ", Some 4); (206, [], Some 4); (416, hardcoded_error_body 416 (Some (B "Range start after end of body")), Some 290)].
Proof. do 3 eexists. repeat split; vm_compute; reflexivity. Qed.
Example ex_print :
  print_response (mkHead 11 404 [(B "content-length", B "2"); (B "connection", B "keep-alive")]) (B "no")
  = B "HTTP/1.1 404 Not Found" ++ crlf ++ B "content-length: 2" ++ crlf ++ B "connection: keep-alive" ++ crlf ++ crlf ++ B "no".
Proof. vm_compute. reflexivity. Qed.
(** a polite history on the fixture host: POST with an unread late body, HEAD, ranged GET, rate-limited GET *)
Example ex_history :
  let '(os, fin) := c8_run true true
        (mkC8 (mkCfg true false true [] [] [] 500) [(B "/f.txt", B "0123456789abcdefghij")] [] 3 [])
        [ w_req (B "POST") (B "/f.txt") [(B "content-length", B "10")] (B "0123456789") 4;
          w_req (B "HEAD") (B "/f.txt") [] [] 0;
          w_req (B "GET") (B "/f.txt") [(B "range", B "bytes=5-9")] [] 0;
          w_req (B "GET") (B "/f.txt") [] [] 0 ] in
  statuses os = [Some 405; Some 200; Some 206; Some 429] /\ fin = Open [] /\
  option_map (map (fun p => (p_status p, N.of_nat (length (p_body p)))))
    (parse_responses [M_POST; M_HEAD; M_GET; M_GET] (written os)) = Some [(405, 190); (200, 0); (206, 5); (429, 342)].
Proof. vm_compute. repeat split. Qed.
Example ex_checked_history :
  c8_hyps w_cfg (c8_state0 w_cfg) (with_actions (c8_limit w_cfg) 1 w_unread) = true.
Proof. vm_compute. reflexivity. Qed.
Example ex_polite :
  polite c8req (fun q => rq_method (q_req q)) c8_content_length (fun q => negb (q_nohost q))
         (mkHreq c8req (fst (fst (w_req (B "POST") (B "/f.txt") [(B "content-length", B "10")] (B "0123456789") 4)))
                 (B "0123456789") 4 APassed).
Proof. unfold polite. split; [reflexivity|]. split; [discriminate|]. vm_compute. reflexivity. Qed.
(** a history on a host with streaming handlers: GET and HEAD of a streamed file, a range reaching past its
    end (206, cut at the end), a range starting at its end (416; the range is then applied to that page), then
    a stream of unknown length, after which the server closes *)
Definition ex_scfg : c8cfg :=
  mkC8 (mkCfg true false true [] [] [] 500) [(B "/s/file.txt", B "streamed file content")] [] 0
       [(B "/s/file.txt", (0, 0, [])); (B "/st/nolen", (1, 0, [B "abc"; B "defg"]))].
Definition ex_sreqs : list (c8req * bytes * nat) :=
  [ w_req (B "GET") (B "/s/file.txt") [] [] 0; w_req (B "HEAD") (B "/s/file.txt") [] [] 0;
    w_req (B "GET") (B "/s/file.txt") [(B "range", B "bytes=9-999")] [] 0;
    w_req (B "GET") (B "/s/file.txt") [(B "range", B "bytes=21-23")] [] 0; w_req (B "GET") (B "/st/nolen") [] [] 0;
    w_req (B "GET") (B "/s/file.txt") [] [] 0 ].
Example ex_closing_history :
  c8_hyps_closing ex_scfg (c8_state0 ex_scfg) (with_actions 0 1 ex_sreqs) O = Some 5%nat /\
  (let '(os, fin) := c8_run true true ex_scfg ex_sreqs in
   statuses os = [Some 200; Some 200; Some 206; Some 416; Some 200; None] /\ fin = Closed /\
   option_map (map (fun p => (announced (p_headers p), assoc (B "content-range") (p_headers p), p_body p)))
     (parse_closing [M_GET; M_HEAD; M_GET; M_GET; M_GET] (written os))
   = Some [(Some 21, None, B "streamed file content"); (Some 21, None, []);
           (Some 12, Some (B "bytes 9-20/21"), B "file content"); (Some 3, Some (B "bytes 21-23/290"), B "<he");
           (None, None, B "abcdefg")]).
Proof. vm_compute. repeat split. Qed.
(** [stream_body] on a 21-byte file: a range reaching past the end is cut (206, 12 bytes), a range starting at the end is
    refused, no range streams the whole file *)
Example ex_stream_body :
  let c := B "streamed file content" in
  let q v := d_request 0 (B "GET") (B "/s/file.txt") [(B "range", v)] in
  stream_body_range (q (B "bytes=9-999")) = Some (9, 1000) /\
  stream_body_future true c (q (B "bytes=9-999")) = Some (Some 12, [B "file content"]) /\
  stream_body_head c (q (B "bytes=9-999")) = (206, [(B "content-range", B "bytes 9-20/21")]) /\
  stream_body_future true c (q (B "bytes=21-23")) = None /\
  stream_body_future true c (q (B "lines=1-2")) = Some (Some 21, [c]) /\
  stream_body_head c (q (B "lines=1-2")) = (200, []).
Proof. vm_compute. repeat split. Qed.
(** TRACE (and CONNECT) declare no body to kvarn whatever their content-length says *)
Example ex_trace_declares_nothing :
  body_length M_OTHER (c8_content_length (fst (fst (w_req (B "TRACE") (B "/f.txt") [(B "content-length", B "5")] (B "hello") 0)))) = 0 /\
  body_length M_OTHER (c8_content_length (fst (fst (w_req (B "PUT") (B "/f.txt") [(B "content-length", B "5")] (B "hello") 0)))) = 5.
Proof. vm_compute. split; reflexivity. Qed.
