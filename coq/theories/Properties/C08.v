(** C08 — HTTP/1 responses are correctly framed on persistent connections.
    Only statements here; proofs are in Proofs/Http1WriteProofs.v.

    Reading guide.  [print_head]/[wire] is what [kvarn_async::write::response] and the body write put on the
    socket; [send] is [SendKind::send] (range -> content-length -> version -> Package extensions -> connection
    header -> body unless HEAD); [conn_run] is the request loop of [handle_connection]; [parse_responses] is
    the strict client of the property: one response per request method, bodies read by content-length (none for
    HEAD, 1xx, 204, 304), nothing may be left over.
    [app_ok app I]: the application keeps an invariant [I] of its state under which its replies satisfy
    [reply_ok]; [reply_ok] are the invariants of the [http] crate for what a handler / [handle_cache] returns (status
    100..999, lower-case token names, values without CR/LF/NUL.., no transfer-encoding, not HTTP/0.9) plus: a
    1xx/204/304 reply has no body, and the range of [sanitize_request] has start < end.  [package_ok]: Package
    extensions leave version, status and content-length alone.  [polite]: the client addresses a configured
    host, is not beyond the limiter's drop level, and sends exactly the body its request declares. *)
From KV Require Import Bytes RustInt Range Cache Http1Write Http1WriteProofs.
Open Scope N_scope.

(** The strict client stays in sync on every sequence of well-formed responses. *)
Theorem framing_roundtrip : forall l : list (N * sent),
  Forall (fun p => framed (fst p) (snd p)) l ->
  parse_responses (map fst l) (concat (map (fun p => wire (snd p)) l)) = Some (map (fun p => observable (snd p)) l).
Proof. exact framing_roundtrip_lemma. Qed.

(** Every output of the send path is well formed for the strict client, and the send path never panics. *)
Theorem send_output_framed : forall (error_body : N -> option bytes -> bytes) (package : head -> head),
  package_ok package -> forall (m : N) (r : reply0) (s : sent),
  reply_ok r -> send error_body package m r = Ok s -> framed m s.
Proof. exact send_framed. Qed.

Theorem send_total : forall (error_body : N -> option bytes -> bytes) (package : head -> head),
  package_ok package -> forall (m : N) (r : reply0), reply_ok r -> exists s, send error_body package m r = Ok s.
Proof. exact send_never_panics. Qed.

(** content-length = number of body bytes written, for every method but HEAD (ranged, compressed, error and
    304 replies alike: the length is taken after the range step, from the bytes that are written). *)
Theorem length_is_body : forall (error_body : N -> option bytes -> bytes) (package : head -> head),
  package_ok package -> forall (m : N) (r : reply0) (s : sent),
  reply_ok r -> m <> M_HEAD -> send error_body package m r = Ok s ->
  announced (hd_headers (st_head s)) = Some (N.of_nat (length (st_body s))).
Proof. exact length_is_body_lemma. Qed.

(** HEAD: no byte follows the head, and the head — status, every header, the announced length — is the one
    GET gets for the same reply of [handle_cache]; the announced length is the number of body bytes of that GET. *)
Theorem head_has_no_body : forall (error_body : N -> option bytes -> bytes) (package : head -> head),
  package_ok package -> forall (r : reply0) (s : sent),
  reply_ok r -> send error_body package M_HEAD r = Ok s ->
  st_body s = [] /\
  exists g, send error_body package M_GET r = Ok g /\ st_head g = st_head s /\
            announced (hd_headers (st_head s)) = Some (N.of_nat (length (st_body g))).
Proof. exact head_has_no_body_lemma. Qed.

(** The connection: for every history of polite requests (any methods, any handlers' replies and use of the
    request body, any split of each body between the head's segment and later, any mix of passed and
    rate-limited requests) the server writes exactly one response per request, in request order ([serve_seq]
    threads only the application state), the connection is still open and clean afterwards, and the strict
    client parses everything that was written into exactly those responses. *)
Theorem one_response_per_request :
  forall (Q A : Type) (q_method : Q -> N) (q_content_length : Q -> option bytes) (q_known_host : Q -> bool)
         (q_head : Q -> bytes) (app : A -> Q -> A * reply0 * option N) (error_body : N -> option bytes -> bytes)
         (package : Q -> head -> head) (too_many_body : bytes) (I : A -> Prop),
  app_ok Q A app I -> packages_ok Q package ->
  forall (hs : list (hreq Q)) (a : A), I a ->
  Forall (polite Q q_method q_content_length q_known_host) hs ->
  exists ss : list sent,
    conn_run Q A q_method q_content_length q_known_host q_head app error_body package too_many_body true true a (Open []) hs
      = (map Some ss, Open []) /\
    length ss = length hs /\
    serve_seq Q A q_method app error_body package too_many_body true a hs = map Ok ss /\
    parse_responses (map (fun h => q_method (h_q h)) hs) (written (map Some ss)) = Some (map observable ss).
Proof. exact one_response_per_request_lemma. Qed.

(** A request body the handler did not read (or read in part: [lim]): after the response the repaired code
    discards what is left of the declared body, so the connection stays usable iff the client sent exactly the
    declared body — whatever part arrived with the head; if it sent less, the connection is closed after the
    response; more than declared is outside this model.  (Hypotheses: the bytes in the head's segment do not
    exceed the declared body, and a handler that reads is given the bytes it waits for.)
    The declared length is the one of [get_body_length_request]: 0 for GET / HEAD / OPTIONS whatever they say. *)
Theorem unread_body :
  forall (Q : Type) (q_method : Q -> N) (q_content_length : Q -> option bytes) (h : hreq Q) (lim : option N),
  let declared := body_length (q_method (h_q h)) (q_content_length (h_q h)) in
  let total := N.of_nat (length (h_body h)) in
  N.min (N.of_nat (h_early h)) total <= declared ->
  match lim with Some l => N.min declared l | None => 0 end <= total ->
  after_body Q q_method q_content_length true h lim =
    if total =? declared then Open [] else if total <? declared then Closed else Unmodelled.
Proof. exact after_body_spec. Qed.

(** The tie to the run: [h1w.expect] reports for every generated history whether it meets the hypotheses
    ([c8_hyps]: polite client, [reply_ok] for every reply of the fixture application along the history); for
    each such history the model's run — the prediction the real server's bytes are compared with — has the
    property by this theorem, not by evaluation. *)
Theorem checked_history_is_instance : forall (cfg : c8cfg) (reqs : list (c8req * bytes * nat)),
  c8_hyps cfg (c8_state0 cfg) (with_actions (c8_limit cfg) 1 reqs) = true ->
  exists ss, c8_run true true cfg reqs = (map Some ss, Open []) /\
             length ss = length (with_actions (c8_limit cfg) 1 reqs) /\
             parse_responses (map (fun h => rq_method (q_req (h_q h))) (with_actions (c8_limit cfg) 1 reqs))
                             (written (map Some ss)) = Some (map observable ss).
Proof. exact checked_history_lemma. Qed.

(** The ways the loop ends a connection: once closed nothing more is written; an unknown Host gets a
    well-formed 409 and the connection is closed; a request beyond the limiter's drop level closes it unanswered. *)
Theorem closed_is_silent :
  forall (Q A : Type) (q_method : Q -> N) (q_content_length : Q -> option bytes) (q_known_host : Q -> bool)
         (q_head : Q -> bytes) (app : A -> Q -> A * reply0 * option N) (error_body : N -> option bytes -> bytes)
         (package : Q -> head -> head) (too_many_body : bytes) (drain head_rule : bool) (hs : list (hreq Q)) (a : A),
  conn_run Q A q_method q_content_length q_known_host q_head app error_body package too_many_body drain head_rule a Closed hs
  = (map (fun _ => None) hs, Closed).
Proof. exact closed_is_silent_lemma. Qed.

Theorem closing_requests :
  forall (Q A : Type) (q_method : Q -> N) (q_content_length : Q -> option bytes) (q_known_host : Q -> bool)
         (q_head : Q -> bytes) (app : A -> Q -> A * reply0 * option N) (error_body : N -> option bytes -> bytes)
         (package : Q -> head -> head) (too_many_body : bytes) (drain head_rule : bool) (h : hreq Q) (a : A),
  (q_known_host (h_q h) = false ->
   conn_step Q A q_method q_content_length q_known_host q_head app error_body package too_many_body drain true a [] h
   = (a, Some (no_host error_body true (q_method (h_q h))), Closed) /\
   framed (q_method (h_q h)) (no_host error_body true (q_method (h_q h)))) /\
  (q_known_host (h_q h) = true -> h_action h = ADrop ->
   conn_step Q A q_method q_content_length q_known_host q_head app error_body package too_many_body drain head_rule a [] h
   = (a, None, Closed)).
Proof. exact closing_requests_lemma. Qed.

(** The code before the repair (kvarn 0.6.3): POST /f.txt with content-length 10 whose body arrives after the
    head is answered 405 at once; the ten bytes are then read as the next request line and the connection is
    closed without answering the GET.  Replayed on the real code (corpus of the correspondence run). *)
Theorem unread_body_v0_refuted :
  (let '(os, fin) := c8_run false true w_cfg w_unread in
   statuses os = [Some 405; None] /\ fin = Closed /\ parse_responses [M_POST; M_GET] (written os) = None) /\
  (let '(os, fin) := c8_run true true w_cfg w_unread in
   statuses os = [Some 405; Some 200] /\ fin = Open [] /\
   option_map (map p_status) (parse_responses [M_POST; M_GET] (written os)) = Some [405; 200]).
Proof. exact unread_body_v0_witness. Qed.

(** Before the repair the rate-limit answer carried its body also for HEAD: the strict client lost sync. *)
Theorem limited_head_v0_refuted :
  parse_responses [M_HEAD; M_GET] (wire (limited TOO_MANY false M_HEAD) ++ wire (limited TOO_MANY false M_GET)) = None /\
  option_map (map p_status)
    (parse_responses [M_HEAD; M_GET] (wire (limited TOO_MANY true M_HEAD) ++ wire (limited TOO_MANY true M_GET))) = Some [429; 429].
Proof. exact limited_head_v0_witness. Qed.

(** The hypothesis "a 204 reply has no body" of [reply_ok] is needed: kvarn sends such a handler's body. *)
Theorem bodyless_status_with_body_refuted :
  exists r s, send hardcoded_error_body (fun h => h) M_GET r = Ok s /\ r0_status r = 204 /\ r0_body r <> [] /\
              parse_responses [M_GET] (wire s) = None.
Proof. exact bodyless_with_body_witness. Qed.

(** ---- non-vacuity ---- *)
Definition ex_reply : reply0 :=
  mkR0 11 200 [(B "content-type", B "text/plain"); (B "x-tag", B "a b\tc")] (B "hello world") (Some (Some (2, 6))).
Example ex_reply_ok : reply_ok ex_reply.
Proof.
  unfold reply_ok, ex_reply. cbn [r0_status r0_version r0_headers r0_body r0_sanitize].
  split; [lia|]. split; [discriminate|]. split; [repeat constructor|]. split; [repeat constructor|].
  split; [reflexivity|]. split; [discriminate|]. left. lia.
Qed.
Example ex_package_ok : package_ok (fun h => h).
Proof. exact package_id_ok. Qed.
(** an application meeting [app_ok]: every request is answered with [ex_reply], bodies are read up to 5 bytes *)
Example ex_app_ok : app_ok unit unit (fun a _ => (a, ex_reply, Some 5)) (fun _ => True) /\ packages_ok unit (fun _ h => h).
Proof. split; [intros a q _; split; [exact ex_reply_ok | exact Logic.I] | intros q; exact package_id_ok]. Qed.
(** GET, HEAD and a 416 on one connection: what is written and what the strict client reads *)
Example ex_sequence :
  exists g h e,
    send hardcoded_error_body (fun x => x) M_GET ex_reply = Ok g /\
    send hardcoded_error_body (fun x => x) M_HEAD ex_reply = Ok h /\
    send hardcoded_error_body (fun x => x) M_GET (mkR0 11 200 [] (B "abc") (Some (Some (7, 9)))) = Ok e /\
    option_map (map (fun p => (p_status p, p_body p, announced (p_headers p))))
      (parse_responses [M_GET; M_HEAD; M_GET] (wire g ++ wire h ++ wire e))
    = Some [(206, B "llo ", Some 4); (206, [], Some 4); (416, hardcoded_error_body 416 (Some (B "Range start after end of body")), Some 290)].
Proof. do 3 eexists. repeat split; vm_compute; reflexivity. Qed.
Example ex_print :
  print_response (mkHead 11 404 [(B "content-length", B "2"); (B "connection", B "keep-alive")]) (B "no")
  = B "HTTP/1.1 404 Not Found" ++ crlf ++ B "content-length: 2" ++ crlf ++ B "connection: keep-alive" ++ crlf ++ crlf ++ B "no".
Proof. vm_compute. reflexivity. Qed.
(** a polite history on the fixture host: POST with an unread late body, HEAD, ranged GET, rate-limited GET *)
Example ex_history :
  let '(os, fin) := c8_run true true
        (mkC8 (mkCfg true false true [] [] [] 500) [(B "/f.txt", B "0123456789abcdefghij")] [] 3)
        [ w_req (B "POST") (B "/f.txt") [(B "content-length", B "10")] (B "0123456789") 4;
          w_req (B "HEAD") (B "/f.txt") [] [] 0;
          w_req (B "GET") (B "/f.txt") [(B "range", B "bytes=5-9")] [] 0;
          w_req (B "GET") (B "/f.txt") [] [] 0 ] in
  statuses os = [Some 405; Some 200; Some 206; Some 429] /\ fin = Open [] /\
  option_map (map (fun p => (p_status p, N.of_nat (length (p_body p)))))
    (parse_responses [M_POST; M_HEAD; M_GET; M_GET] (written os)) = Some [(405, 190); (200, 0); (206, 5); (429, 342)].
Proof. vm_compute. repeat split. Qed.
Example ex_checked_history :
  c8_hyps w_cfg (c8_state0 w_cfg) (with_actions (c8_limit w_cfg) 1 w_unread) = true.
Proof. vm_compute. reflexivity. Qed.
Example ex_polite :
  polite c8req (fun q => rq_method (q_req q)) (fun q => header s_content_length (q_req q)) (fun q => negb (q_nohost q))
         (mkHreq c8req (fst (fst (w_req (B "POST") (B "/f.txt") [(B "content-length", B "10")] (B "0123456789") 4)))
                 (B "0123456789") 4 APassed).
Proof. unfold polite. split; [reflexivity|]. split; [discriminate|]. vm_compute. reflexivity. Qed.
