(** C15 — virtual hosts. *)
From KV Require Import Bytes Hosts HostsProofs.
Open Scope N_scope.
