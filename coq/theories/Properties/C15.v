(** C15 — Requests are routed to the named virtual host and hosts stay isolated.
    Only statements here; proofs are in Proofs/HostsProofs.v.  [V1] is the code after the
    two fix: commits of this property (chain following in get_host, IPv6 loopback test);
    [V0] is the snapshot. *)
From KV Require Import Bytes CacheX HostsPipe HostsPipeProofs Hosts HostsProofs.
Open Scope N_scope.

(** Routing = reference resolver.  For every sequence of builder calls that does not
    panic (at most one [.default]) and in which no name or alternative name of a host is a
    name or alternative name of another host, and for every SNI value and every list of
    Host header values, [get_from_request] returns the host the reference resolver names
    (or none: 409). *)
Theorem routing_eq_reference : forall (ops : list op) (c : collection) (sni : option bytes) (hh : list bytes),
  build ops = Ok c -> no_overlap (hosts_of ops) ->
  omap hid (get_from_request V1 c sni hh)
  = Ok (reference (hosts_of ops) (default_index O ops) sni (hd_error hh)).
Proof. exact routing_reference. Qed.

(** Overlapping configurations, too: for EVERY sequence of builder calls the result is
    the general reference resolver's ([owner]: a name belongs to the last host that
    mentions it; an alternative name is an alias of that host's name, which belongs to the
    last host mentioning it, and so on).  In particular no lookup panics. *)
Theorem routing_overlapping : forall (ops : list op) (c : collection) (sni : option bytes) (hh : list bytes),
  build ops = Ok c ->
  omap hid (get_from_request V1 c sni hh) = Ok (reference_general ops sni (hd_error hh)).
Proof. exact routing_general. Qed.

(** The two resolvers agree when nothing overlaps. *)
Theorem reference_general_eq_reference : forall (ops : list op) (sni hdr : option bytes),
  no_overlap (hosts_of ops) ->
  reference_general ops sni hdr = reference (hosts_of ops) (default_index O ops) sni hdr.
Proof. exact reference_general_simple. Qed.

(** [get_host]: the reference-following loop terminates and finds [owner]'s host. *)
Theorem get_host_eq_owner : forall (ops : list op) (c : collection) (n : bytes),
  build ops = Ok c -> get_host V1 c n = Ok (owner O (hosts_of ops) n).
Proof. exact get_host_owner. Qed.

(** The host handed out is the configured host with that index and name. *)
Theorem routed_host_configured : forall (ops : list op) (c : collection) (sni : option bytes) (hh : list bytes) (r : host),
  build ops = Ok c -> get_from_request V1 c sni hh = Ok (Some r) ->
  exists h, nth_error (hosts_of ops) (hid r) = Some h /\ hname r = h_name h.
Proof. exact routed_host_is_configured. Qed.

(** The choice in [handle_connection]: never a panic (neither in the lookups nor in the
    [unwrap] of the second lookup); 409 exactly when the reference resolver names no host. *)
Theorem connection_choice : forall (ops : list op) (c : collection) (sni : option bytes) (hh : list bytes),
  build ops = Ok c ->
  exists ch, choose_host V1 c sni hh = Ok ch /\
    match ch with
    | Refuse409 => reference_general ops sni (hd_error hh) = None
    | ServeWith h => reference_general ops sni (hd_error hh) = Some (hid h)
    end.
Proof. exact choose_host_reference. Qed.

(** The builder panics exactly when [.default] is called twice. *)
Theorem builder_panics_iff_two_defaults : forall ops : list op,
  ((count_defaults ops <= 1)%nat -> exists c, build ops = Ok c) /\
  ((2 <= count_defaults ops)%nat -> build ops = Panic).
Proof. exact builder_outcome. Qed.

(** Which cache [clear_page]/[clear_file] touch. *)
Theorem clear_target_eq : forall (ops : list op) (c : collection) (name : bytes),
  build ops = Ok c ->
  clear_target V1 c name = Ok (if beq name [] || beq name s_default then dflt_owner ops else own ops name).
Proof. exact clear_target_general. Qed.

(** The snapshot (V0) violated the property: an alias chain panics, and the IPv6 loopback
    names are never recognised.  Both are repaired (fix: commits) and replayed by the corpus. *)
Theorem alias_chain_refuted :
  exists ops c hh, build ops = Ok c /\ get_from_request V0 c None hh = Panic.
Proof. exact alias_chain_v0_refuted. Qed.

Theorem ipv6_loopback_refuted :
  exists ops c hh, build ops = Ok c /\ no_overlap (hosts_of ops) /\
    omap hid (get_from_request V0 c None hh) = Ok None /\
    reference (hosts_of ops) (default_index O ops) None (hd_error hh) = Some O.
Proof. exact ipv6_loopback_v0_refuted. Qed.

(** Frame theorem.  In the multi-host server (a product of per-host states; [serve i] is
    host [i]'s pipeline with its handlers, files and caches) a request routed to host [i]
    leaves every other component untouched, and its reply and the new component [i] are
    functions of component [i] only. *)
Theorem host_frame : forall (St Req Rep : Type) (serve : nat -> St -> Req -> St * Rep)
    (route : Req -> option nat) (refuse : Rep) (st : nat -> St) (r : Req) (i : nat),
  route r = Some i ->
  (forall j, j <> i -> fst (rstep St Req Rep serve route refuse st r) j = st j) /\
  (forall st', st' i = st i ->
     snd (rstep St Req Rep serve route refuse st' r) = snd (rstep St Req Rep serve route refuse st r) /\
     fst (rstep St Req Rep serve route refuse st' r) i = fst (rstep St Req Rep serve route refuse st r) i).
Proof. exact host_frame_lemma. Qed.

(** For every history of requests and administrative events (cache clears): component [i]
    of the server and all replies to the events that concern host [i] are exactly those of
    host [i] running alone on the sub-history that concerns it. *)
Theorem host_frame_history : forall (St Req Rep Adm : Type) (serve : nat -> St -> Req -> St * Rep)
    (admin : Adm -> St -> St) (route : Req -> option nat) (targets : Adm -> nat -> bool) (refuse : Rep)
    (es : list (event Req Adm)) (st : nat -> St) (i : nat),
  fst (mrun St Req Rep Adm serve admin route targets refuse st es) i
  = fst (srun St Req Rep Adm serve admin i (st i) (filter (concerns Req Adm route targets i) es)) /\
  replies_for Req Rep Adm route targets i es (snd (mrun St Req Rep Adm serve admin route targets refuse st es))
  = snd (srun St Req Rep Adm serve admin i (st i) (filter (concerns Req Adm route targets i) es)).
Proof. exact history_projection. Qed.

(** Hence what other hosts were asked before makes no difference for host [i]. *)
Theorem host_history_independence : forall (St Req Rep Adm : Type) (serve : nat -> St -> Req -> St * Rep)
    (admin : Adm -> St -> St) (route : Req -> option nat) (targets : Adm -> nat -> bool) (refuse : Rep)
    (es es' : list (event Req Adm)) (st st' : nat -> St) (i : nat),
  st i = st' i ->
  filter (concerns Req Adm route targets i) es = filter (concerns Req Adm route targets i) es' ->
  fst (mrun St Req Rep Adm serve admin route targets refuse st es) i
  = fst (mrun St Req Rep Adm serve admin route targets refuse st' es') i /\
  replies_for Req Rep Adm route targets i es (snd (mrun St Req Rep Adm serve admin route targets refuse st es))
  = replies_for Req Rep Adm route targets i es' (snd (mrun St Req Rep Adm serve admin route targets refuse st' es')).
Proof. exact history_independence. Qed.

(** The loop body of [handle_connection] (choose the host, serve with it) is the step of
    that multi-host server with the reference resolver as routing function. *)
Theorem server_step_routes_by_reference : forall (St P Rep : Type) (serve : nat -> St -> P -> St * Rep) (refuse : Rep)
    (ops : list op) (c : collection) (st : nat -> St) (r : srequest P),
  build ops = Ok c ->
  server_step St P Rep serve refuse V1 c st r
  = Ok (rstep St (srequest P) Rep (spec_serve St P Rep serve) (spec_route P ops) refuse st r).
Proof. exact server_step_spec. Qed.

(** ---- histories over loopback connections: plain HTTP/1.x, HTTP/1.1 over TLS, HTTP/2 over TLS ----
    [wire_history auth_ok fixed c st reqs] is the model of today's code ([handle_connection] with the
    TLS certificate resolver, [kvarn_async::read::request], [get_from_request], the per-host marker
    handlers and response caches); [auth_ok] stands for [http::uri::Authority::try_from], of which only
    "accepts nothing but text" is used.  For EVERY configuration and EVERY history — any mix of
    connections, SNI values, Host lines, [:authority], methods and conditional requests — none of whose TLS
    connections is refused during the handshake (known class tls-handshake-refused), the replies are those
    of the specification server: the product of the per-host handlers and caches, routed by the reference
    resolver from the SNI of the connection if there is one, else from the Host header. *)
Theorem wire_histories_eq_spec : forall (auth_ok : bytes -> bool),
  (forall h, auth_ok h = true -> is_text h) ->
  forall (ops : list op) (c : collection), build ops = Ok c ->
  forall (reqs : list wreq) (st : nat -> hstate),
  Forall (fun r => wf_wreq r /\ tls_refused ops r = false) reqs ->
  wire_history auth_ok fixed c st reqs = map Ok (wire_spec ops st reqs).
Proof. exact wire_history_spec. Qed.

(** ... in particular with the [http] crate's authority parser as transcribed (and validated by the differential
    run) for C07 — the function the executable model runs: no hypothesis about the parser is left. *)
Theorem wire_histories_eq_spec_http : forall (ops : list op) (c : collection), build ops = Ok c ->
  forall (reqs : list wreq) (st : nat -> hstate),
  Forall (fun r => wf_wreq r /\ tls_refused ops r = false) reqs ->
  wire_history auth_ok_http fixed c st reqs = map Ok (wire_spec ops st reqs).
Proof. exact wire_history_spec_http. Qed.

(** The SNI of the connection decides: with an SNI, Host header and [:authority] do not matter. *)
Theorem sni_decides : forall (ops : list op) (r : wreq) (s : bytes),
  w_tls r = true -> w_sni r = Some s -> wire_route ops r = reference_general ops (Some s) None.
Proof. exact wire_route_sni. Qed.

(** Over TLS no request is answered with 409: the lookup that chose the certificate found a host, so
    the lookup for the request finds one (refusals happen in the handshake). *)
Theorem tls_never_409 : forall (auth_ok : bytes -> bool),
  (forall h, auth_ok h = true -> is_text h) ->
  forall (ops : list op) (c : collection) (st st' : nat -> hstate) (r : wreq),
  build ops = Ok c -> wf_wreq r -> w_tls r = true ->
  wire_request auth_ok fixed c st r <> Ok (st', W409).
Proof. intros auth_ok Ha ops c st st' r. exact (wire_tls_no_409 auth_ok Ha ops c st r st'). Qed.

(** A refused handshake changes no state. *)
Theorem tls_refusal_changes_nothing : forall (auth_ok : bytes -> bool) (ops : list op) (c : collection)
    (st : nat -> hstate) (r : wreq) (fx : fixes),
  build ops = Ok c -> tls_refused ops r = true -> wire_request auth_ok fx c st r = Ok (st, WNoTls).
Proof. exact wire_request_refused. Qed.

(** What exactly [Authority::try_from] accepts makes no difference for the replies of the repaired code. *)
Theorem authority_parser_irrelevant : forall (auth1 auth2 : bytes -> bool) (ops : list op) (c : collection)
    (st : nat -> hstate) (r : wreq),
  (forall h, auth1 h = true -> is_text h) -> (forall h, auth2 h = true -> is_text h) ->
  build ops = Ok c -> wf_wreq r ->
  wire_request auth1 fixed c st r = wire_request auth2 fixed c st r.
Proof. exact wire_request_auth_irrelevant. Qed.

(** Isolation on these histories (instance of [host_history_independence]): two histories with the same
    requests for host [i] — whatever else is asked of the other hosts, for the same paths, over whichever
    connections — give the same replies to them. *)
Theorem wire_isolation : forall (ops : list op) (reqs reqs' : list wreq) (st st' : nat -> hstate) (i : nat),
  st i = st' i ->
  filter (wire_routed_to ops i) reqs = filter (wire_routed_to ops i) reqs' ->
  wire_replies_for ops i reqs (wire_spec ops st reqs) = wire_replies_for ops i reqs' (wire_spec ops st' reqs').
Proof. exact wire_isolation_lemma. Qed.

(** Concurrent clients, every schedule: [m] is any interleaving of the requests of one client (tag [true]) with the
    requests of all other clients (tag [false]).  If no request of the others is routed to a host that one of
    the client's requests is routed to, the client receives exactly the replies it would receive alone. *)
Theorem wire_concurrent_clients : forall (ops : list op) (m : list (bool * wreq)) (st st' : nat -> hstate),
  (forall i, wire_touches ops (mine m) i = true -> wire_touches ops (others m) i = false) ->
  (forall i, wire_touches ops (mine m) i = true -> st i = st' i) ->
  tagged_replies m (wire_spec ops st (map snd m)) = wire_spec ops st' (mine m).
Proof. exact concurrent_client. Qed.

(** The code before the three repairs of this round violated the property (each witness is replayed on
    the real code by the corpus; the last conjunct is the repaired code on the same witness). *)
Theorem absent_host_refuted : forall auth_ok : bytes -> bool,
  exists ops c r, build ops = Ok c /\
    wire_history auth_ok snapshot c (fun _ => hstate0) [r] = [Ok WClosed] /\
    wire_spec ops (fun _ => hstate0) [r] = [W409] /\
    wire_history auth_ok fixed c (fun _ => hstate0) [r] = [Ok W409].
Proof. exact absent_host_closed_refuted. Qed.

Theorem bad_authority_refuted : forall auth_ok : bytes -> bool, auth_ok (B "a b") = false ->
  exists ops c r, build ops = Ok c /\
    wire_history auth_ok (mkFixes true false false) c (fun _ => hstate0) [r] = [Ok WClosed] /\
    wire_spec ops (fun _ => hstate0) [r] = [W200 1 1] /\
    wire_history auth_ok fixed c (fun _ => hstate0) [r] = [Ok (W200 1 1)].
Proof. exact bad_authority_closed_refuted. Qed.

Theorem h2_authority_refuted : forall auth_ok : bytes -> bool,
  exists ops c r, build ops = Ok c /\
    wire_history auth_ok (mkFixes true true false) c (fun _ => hstate0) [r] = [Ok (W200 1 1)] /\
    wire_spec ops (fun _ => hstate0) [r] = [W200 0 1] /\
    wire_history auth_ok fixed c (fun _ => hstate0) [r] = [Ok (W200 0 1)].
Proof. exact h2_authority_ignored_refuted. Qed.

(** Today's code, known class tls-handshake-refused: (a) unknown SNI, no default host: the handshake is
    refused instead of a 409; (b) no SNI, no default host, loopback Host header: refused instead of the
    first host. *)
Theorem tls_handshake_refuted : forall auth_ok : bytes -> bool,
  exists ops c ra rb, build ops = Ok c /\
    tls_refused ops ra = true /\ tls_refused ops rb = true /\
    wire_history auth_ok fixed c (fun _ => hstate0) [ra] = [Ok WNoTls] /\
    wire_spec ops (fun _ => hstate0) [ra] = [W409] /\
    wire_history auth_ok fixed c (fun _ => hstate0) [rb] = [Ok WNoTls] /\
    wire_spec ops (fun _ => hstate0) [rb] = [W200 0 1].
Proof. exact tls_handshake_refused_refuted. Qed.

(** ---- the multi-host server over the real pipeline model (Model/HostsPipe.v) -----------------------
    [prun cfgs (proute c) (ptargets c)] is the product of Model/Hosts.v instantiated with the model of
    [kvarn::handle_cache] of C03/C04 (Model/CacheX.v: response cache, variants, lifetimes, conditional
    requests, the fixture handlers with their invocation counters) as every host's [serve], the model of
    [handle_connection]'s host choice as [route], and [Collection::clear_page(name, uri)] /
    [clear_response_caches(filter)] / waits as further events.  For EVERY configuration the builder
    accepts, EVERY assignment of pipeline configurations to the hosts, EVERY starting state and EVERY
    history: the state of host [i] and the replies to the events that concern it are those of host [i]'s
    own pipeline on the sub-history the SPECIFICATION assigns to it (reference resolver; the owner of the
    name given to [clear_page]; for [clear_response_caches] the hosts reachable under their own name whose
    name passes the filter).  Nothing another host was asked, and no clear aimed at another host, has any
    effect on it. *)
Theorem multi_host_pipeline_eq_projection : forall (ops : list Hosts.op) (c : collection) (cfgs : list configx)
    (es : list pevent) (st : nat -> pstate) (i : nat),
  build ops = Ok c -> Forall wf_pevent es ->
  fst (prun cfgs (proute c) (ptargets c) st es) i
  = fst (srun pstate preq prep padm (pserve cfgs) padmin i (st i)
              (filter (concerns preq padm (spec_proute ops) (spec_ptargets ops) i) es)) /\
  replies_for preq prep padm (spec_proute ops) (spec_ptargets ops) i es (snd (prun cfgs (proute c) (ptargets c) st es))
  = snd (srun pstate preq prep padm (pserve cfgs) padmin i (st i)
              (filter (concerns preq padm (spec_proute ops) (spec_ptargets ops) i) es)).
Proof. exact pipeline_projection. Qed.

(** The model of the code answers every such history exactly as the specification server does. *)
Theorem multi_host_pipeline_eq_spec : forall (ops : list Hosts.op) (c : collection) (cfgs : list configx)
    (es : list pevent) (st : nat -> pstate),
  build ops = Ok c -> Forall wf_pevent es ->
  snd (prun cfgs (proute c) (ptargets c) st es) = snd (prun cfgs (spec_proute ops) (spec_ptargets ops) st es).
Proof. exact pipeline_eq_spec. Qed.

(** Host [i] on its own is the single-host pipeline of C03/C04: its state after a sub-history is the
    state [CacheX.runX_state] reaches with host [i]'s configuration on the same operations. *)
Theorem host_alone_is_cache_pipeline : forall (cfgs : list configx) (i : nat) (es : list pevent) (s : statex (list N)) (now : N),
  fst (srun pstate preq prep padm (pserve cfgs) padmin i (s, now) es)
  = runX_state (list N)
      (compute_x (cf_default_ext (cx_base (cfg_of cfgs i))) (cf_handlers (cx_base (cfg_of cfgs i))) (cx_xhandlers (cfg_of cfgs i)))
      (cf_cache (cx_base (cfg_of cfgs i))) (cf_ims (cx_base (cfg_of cfgs i)))
      (cx_fix_vary (cfg_of cfgs i)) (cx_fix_ovkey (cfg_of cfgs i)) (cx_fix_clear (cfg_of cfgs i)) (cx_fix_svary (cfg_of cfgs i))
      (cx_fix_qmkey (cfg_of cfgs i)) (cx_fix_ims (cfg_of cfgs i))
      (sfilter_fix (cx_sfilter (cfg_of cfgs i))) parse_ims_fix sanitize_ok_fix
      (if cf_default_ext (cx_base (cfg_of cfgs i)) then uri_redirect else (fun r => r))
      (override_x (cf_default_ext (cx_base (cfg_of cfgs i))) (cx_ovprime (cfg_of cfgs i)))
      (fun _ _ => None)
      (vary_tuple_x (cx_fix_ovkey (cfg_of cfgs i)) (cf_vary (cx_base (cfg_of cfgs i))))
      (vary_header_x (cx_fix_ovkey (cfg_of cfgs i)) (cf_vary (cx_base (cfg_of cfgs i)))) clear_alias_fix
      s now (map to_opx es).
Proof. exact host_alone_is_cache_model. Qed.

(** Which hosts [clear_response_caches(filter)] / [clear_file_caches(filter)] reach, and which host
    [clear_page(name, ..)] / [clear_file(name, ..)] touch. *)
Theorem clear_all_targets_eq : forall (ops : list Hosts.op) (c : collection) (flt : option bytes) (i : nat),
  build ops = Ok c -> (In i (map hid (clear_all_targets c flt)) <-> cleared_by_all ops flt i = true).
Proof. exact clear_all_targets_members. Qed.

Theorem clear_page_target_eq : forall (ops : list Hosts.op) (c : collection) (name : bytes),
  build ops = Ok c -> omap hid (clear_target V1 c name) = Ok (clear_reference ops name).
Proof. exact clear_target_reference. Qed.

(** ---- non-vacuity: concrete configurations meeting the hypotheses, on every branch ------- *)
Definition ex_ops : list op :=
  [ (false, cfg (B "a.test") [B "www.a.test"]); (true, cfg (B "b.test") []); (false, cfg (B "c.test") [B "c.alt"; B "c.test"]) ].
Definition ex_ops_nodefault : list op :=
  [ (false, cfg (B "a.test") [B "www.a.test"]); (false, cfg (B "b.test") []) ].

Example ex_no_overlap : no_overlap (hosts_of ex_ops).
Proof. apply no_overlapb_spec. vm_compute. reflexivity. Qed.
Example ex_builds : exists c, build ex_ops = Ok c.
Proof. eexists. vm_compute. reflexivity. Qed.
Example ex_alias_header : reference (hosts_of ex_ops) (default_index O ex_ops) None (Some (B "www.a.test")) = Some 0%nat.
Proof. vm_compute. reflexivity. Qed.
Example ex_sni_wins : reference (hosts_of ex_ops) (default_index O ex_ops) (Some (B "c.alt")) (Some (B "a.test")) = Some 2%nat.
Proof. vm_compute. reflexivity. Qed.
Example ex_trailing_dot : reference (hosts_of ex_ops) (default_index O ex_ops) None (Some (B "a.test.")) = Some 0%nat.
Proof. vm_compute. reflexivity. Qed.
Example ex_upper_case_is_unknown : reference (hosts_of ex_ops) (default_index O ex_ops) None (Some (B "A.TEST")) = Some 1%nat.
Proof. vm_compute. reflexivity. Qed.
Example ex_port_is_unknown : reference (hosts_of ex_ops_nodefault) (default_index O ex_ops_nodefault) None (Some (B "a.test:8080")) = None.
Proof. vm_compute. reflexivity. Qed.
Example ex_loopback_first : reference (hosts_of ex_ops_nodefault) (default_index O ex_ops_nodefault) None (Some (B "[::1]:8080")) = Some 0%nat.
Proof. vm_compute. reflexivity. Qed.
Example ex_absent_no_default : reference (hosts_of ex_ops_nodefault) (default_index O ex_ops_nodefault) None None = None.
Proof. vm_compute. reflexivity. Qed.
Example ex_model_agrees :
  exists c, build ex_ops = Ok c /\
            omap hid (get_from_request V1 c None [B "c.alt"; B "a.test"]) = Ok (Some 2%nat) /\
            omap hid (get_from_request V1 c None [B "nobody"]) = Ok (Some 1%nat).
Proof. eexists. split; [|split]; vm_compute; reflexivity. Qed.
(** overlapping: b.test takes over the name a.test and with it a.test's alias x.test *)
Example ex_overlap_owner :
  reference_general chain_ops None (Some (B "x.test")) = Some 1%nat /\ no_overlapb (hosts_of chain_ops) = false.
Proof. split; vm_compute; reflexivity. Qed.
(** frame: two hosts with counters; a request to host 0 does not move host 1's counter *)
Example ex_frame :
  let serve := fun (i : nat) (s : N) (_ : unit) => (s + 1, (i, s)) in
  let route := fun (_ : unit) => Some 0%nat in
  fst (rstep N unit (nat * N) serve route (0%nat, 0) (fun _ => 7) tt) 1%nat = 7 /\
  fst (rstep N unit (nat * N) serve route (0%nat, 0) (fun _ => 7) tt) 0%nat = 8.
Proof. split; vm_compute; reflexivity. Qed.
Example ex_wire_history :
  wire_spec ex_ops_nodefault (fun _ => hstate0)
    [get1 TR_PLAIN None [B "a.test"] None; get1 TR_TLS1 (Some (B "b.test")) [B "a.test"] None;
     get1 TR_H2 (Some (B "a.test")) [] (Some (B "b.test")); get1 TR_PLAIN None [B "zzz"] None;
     mkW TR_PLAIN None false (B "POST") [B "a.test"] None (B "/h/page") 0;
     mkW TR_PLAIN None false s_GET [B "a.test"] None (B "/h/page?x") 2]
  = [W200 0 1; W200 1 1; W200 0 1; W409; W200 0 2; W304].
Proof. vm_compute. reflexivity. Qed.
(** the hypotheses of [wire_histories_eq_spec] are met by a history with TLS and HTTP/2 requests *)
Example ex_wire_hypotheses :
  Forall (fun r => wf_wreq r /\ tls_refused ex_ops_nodefault r = false)
    [get1 TR_TLS1 (Some (B "b.test")) [B "a.test"] None; get1 TR_H2 (Some (B "a.test")) [] (Some (B "b.test"))]
  /\ (forall h, auth_ok_http h = true -> is_text h).
Proof.
  split.
  - repeat constructor; try (vm_compute; reflexivity); intros a Ht Ha; inversion Ha; subst; vm_compute; reflexivity.
  - apply auth_ok_http_text.
Qed.
(** two hosts with the same counting handler on the same path: each counts for itself; the filtered clear
    empties only a.test's cache, [clear_page] only b.test's *)
Example ex_pipeline :
  exists c, build ex_pops = Ok c /\ Forall wf_pevent ex_history /\
  map (fun o => match o with
                | Some (PObs i (XbReply rp _)) => Some (i, rx_body rp)
                | _ => None end)
      (snd (prun [ex_cx; ex_cx] (proute c) (ptargets c) (fun _ => cfg_state0 ex_cx) ex_history))
  = [Some (0%nat, B "n=1"); Some (1%nat, B "n=1"); Some (0%nat, B "n=1"); None;
     Some (0%nat, B "n=2"); Some (1%nat, B "n=1"); None; Some (1%nat, B "n=2")].
Proof. eexists. split; [vm_compute; reflexivity|]. split; [repeat constructor; vm_compute; reflexivity | vm_compute; reflexivity]. Qed.
