(** C03 — a cache hit returns what recomputation would return. Statements only. *)
From KV Require Import Bytes RustInt Range CacheControl Cache CacheProofs.
Open Scope N_scope.

Section C03.
  Variable hstate : Type.
  Variable compute : hstate -> request -> bool -> fat * hstate * list bytes.
  Variable ims_on : bool.
  Variable parse_ims : bytes -> option Z.
  Variable sanitize_ok : request -> bool.
  Variable prime : request -> request.
  Variable negotiate : request -> fat -> option (N * bytes).
  Variable vary_tuple : request -> tuple.
  Variable vary_header : request -> fat -> list (bytes * bytes).
  (** handler contract: the response is a function [cf] of the request (not of handler state) that
      depends only on the method class, the path, the vary tuple and — for QueryMatters — the query;
      query-matters-ness is uniform per path; error responses (sanitize failed) are not cacheable *)
  Variable cf : request -> bool -> fat.
  Hypothesis Hpure : forall hs r ok, fst (fst (compute hs r ok)) = cf r ok.
  Hypothesis contract : forall r r',
    get_or_head (rq_method r) = true -> get_or_head (rq_method r') = true ->
    vary_tuple r = vary_tuple r' -> rq_path r = rq_path r' ->
    (qm (cf r true) = true -> path_query r = path_query r') ->
    cf r true = cf r' true.
  Hypothesis pref_uniform : forall r r', rq_path r = rq_path r' -> qm (cf r true) = qm (cf r' true).
  Hypothesis Herr : forall r, f_spref (cf r false) = SP_NONE.

  (** For every history (requests, page clears, clear-all, waits) started in any cache state satisfying the
      invariant, any handler states and any clock value, the observations of the caching server and of the
      cache-less server are pairwise equivalent (same status, headers, body sent and identity body). *)
  Theorem cache_transparent : forall ops c hs cU hsU now,
    Inv vary_tuple cf c -> Forall (op_no_ims ims_on prime) ops ->
    Forall2 obs_equiv
      (run hstate compute true ims_on parse_ims sanitize_ok prime negotiate vary_tuple vary_header (c, hs) now ops)
      (run hstate compute false ims_on parse_ims sanitize_ok prime negotiate vary_tuple vary_header (cU, hsU) now ops).
  Proof. exact (run_sim hstate compute ims_on parse_ims sanitize_ok prime negotiate vary_tuple vary_header cf Hpure contract pref_uniform Herr). Qed.

  Theorem cache_transparent_from_empty : forall ops hs hsU now,
    Forall (op_no_ims ims_on prime) ops ->
    Forall2 obs_equiv
      (run hstate compute true ims_on parse_ims sanitize_ok prime negotiate vary_tuple vary_header ([], hs) now ops)
      (run hstate compute false ims_on parse_ims sanitize_ok prime negotiate vary_tuple vary_header ([], hsU) now ops).
  Proof. intros. apply cache_transparent; [apply Inv_nil | assumption]. Qed.

  (** What a hit serves was computed for a request with the same path, the same vary tuple, a GET/HEAD
      method and — if the response is query-dependent — the same query. *)
  Theorem cache_hit_same_class : forall c now r k e c1 f,
    Inv vary_tuple cf c -> lookup r c now = ((k, Some e), c1) -> v_find (vary_tuple r) (e_vars e) = Some f ->
    exists r1, get_or_head (rq_method r1) = true /\ vary_tuple r1 = vary_tuple r /\ f = cf r1 true /\
               rq_path r1 = rq_path r /\ (qm f = true -> path_query r1 = path_query r).
  Proof. exact (hit_same_class vary_tuple cf). Qed.
End C03.
