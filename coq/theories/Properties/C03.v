(** C03 — a cache hit returns what recomputation would return. Statements only.
    Model: Model/CacheX.v ([serveX]/[runX]: kvarn::handle_cache with streams, body sizes, the status filter, override
    URIs and the repaired code paths); [_refuted]: witnesses on the model of the code before a repair. *)
From KV Require Import Bytes RustInt Range CacheControl Cache CacheProofs Fixture CacheX CacheXProofs CacheXWitness CacheKey CacheKeyProofs.
From KV Require Import RuleSet CacheRules CacheRulesProofs CacheReachProofs CacheFixtureProofs CacheQmProofs.
Open Scope N_scope.

Section C03.
  Variable hstate : Type.
  Variable compute : hstate -> request -> option (bytes * option bytes) -> bool -> fatx * hstate * list bytes.
  Variable ims_on : bool.
  Variable fix_clear : bool.
  Variable sfilter : N -> bool.
  Variable parse_ims : bytes -> option Z.
  Variable sanitize_ok : request -> bool.
  Variable prime : request -> request.
  Variable override : request -> option (bytes * option bytes).
  Variable negotiate : request -> fatx -> option (N * bytes).
  Variable vary_tuple : request -> option (bytes * option bytes) -> tuple.
  Variable vary_header : request -> option (bytes * option bytes) -> fatx -> list (bytes * bytes).
  Variable clear_alias : request -> option request.
  (** handler contract: the response is a function [cf] of the request (not of handler state) that depends only on the
      method class, the path of the URI that selects the handler (the internal route if a Prime extension overrode
      the URI), the vary tuple and — for QueryMatters — the query; error responses (sanitize failed) are not
      cacheable *)
  Variable cf : request -> option (bytes * option bytes) -> bool -> fatx.
  Hypothesis Hpure : forall hs r ov ok, fst (fst (compute hs r ov ok)) = cf r ov ok.
  Hypothesis contract : forall r ov r' ov',
    get_or_head (rq_method r) = true -> get_or_head (rq_method r') = true ->
    vary_tuple r ov = vary_tuple r' ov' -> rq_path (lookup_req r ov) = rq_path (lookup_req r' ov') ->
    (qmx (cf r ov true) = true -> path_query (lookup_req r ov) = path_query (lookup_req r' ov')) ->
    cf r ov true = cf r' ov' true.
  Hypothesis Herr : forall r ov, f_spref (fx_fat (cf r ov false)) = SP_NONE.

  Notation runC := (runX hstate compute true ims_on true true fix_clear true true true sfilter parse_ims sanitize_ok prime
                         override negotiate vary_tuple vary_header clear_alias).
  Notation runU := (runX hstate compute false ims_on true true fix_clear true true true sfilter parse_ims sanitize_ok prime
                         override negotiate vary_tuple vary_header clear_alias).

  (** For every history (requests, page clears, clear-all, waits) started in any cache state satisfying the
      invariant, any handler states and any clock value, the observations of the caching server and of the
      cache-less server are pairwise equivalent: same status, headers, body sent (with its size), identity body
      and stream. *)
  Theorem cache_transparent : forall ops c hs cU hsU now,
    TInv vary_tuple cf c -> Forall (op_no_imsx ims_on prime) ops ->
    Forall2 obsx_equiv (runC (c, hs) now ops) (runU (cU, hsU) now ops).
  Proof.
    exact (run_simx hstate compute ims_on fix_clear sfilter parse_ims sanitize_ok prime override negotiate vary_tuple
             vary_header clear_alias cf Hpure contract Herr).
  Qed.

  Theorem cache_transparent_from_empty : forall ops hs hsU now,
    Forall (op_no_imsx ims_on prime) ops ->
    Forall2 obsx_equiv (runC ([], hs) now ops) (runU ([], hsU) now ops).
  Proof. intros. apply cache_transparent; [apply TInv_nil | assumption]. Qed.

  (** What a hit serves was computed for a request with the same path (of the URI looked up), the same vary tuple, a
      GET/HEAD method and — if the response is query-dependent — the same query. *)
  Theorem cache_hit_same_class : forall c now lr k e c1 v,
    TInv vary_tuple cf c -> xlookup lr c now = ((k, Some e), c1) -> xv_find (v_tuple v) (ex_vars e) = Some v ->
    exists r1 ov1, get_or_head (rq_method r1) = true /\ vary_tuple r1 ov1 = v_tuple v /\ v_resp v = cf r1 ov1 true /\
                   rq_path (lookup_req r1 ov1) = rq_path lr /\
                   (qmx (v_resp v) = true -> path_query (lookup_req r1 ov1) = path_query lr).
  Proof. exact (hit_same_class_x vary_tuple cf). Qed.

  Notation runC_state := (runX_state hstate compute true ims_on true true fix_clear true true true sfilter parse_ims sanitize_ok prime
                                     override negotiate vary_tuple vary_header clear_alias).

  (** What an entry holds after ANY history: every stored variant was computed for a GET/HEAD request with that vary
      tuple whose looked-up URI has the path of a Path key — and then the response does not depend on the query — or the
      path and query of a PathQuery key. *)
  Theorem stored_variant_keyed_by_what_it_depends_on : forall ops st now k e v,
    TInv vary_tuple cf (fst st) -> Forall (op_no_imsx ims_on prime) ops ->
    xc_find k (fst (fst (runC_state st now ops))) = Some e -> In v (ex_vars e) ->
    exists r ov, get_or_head (rq_method r) = true /\ vary_tuple r ov = v_tuple v /\ v_resp v = cf r ov true /\
      match k with
      | KPath p => rq_path (lookup_req r ov) = p /\ qmx (v_resp v) = false
      | KPathQuery s i => path_query (lookup_req r ov) = (s, i)
      end.
  Proof.
    exact (stored_variant_key_ok hstate compute ims_on fix_clear sfilter parse_ims sanitize_ok prime override negotiate
             vary_tuple vary_header clear_alias cf Hpure contract Herr).
  Qed.

  (** In particular (seeded change C03-10): a query-dependent (QueryMatters) response is never held by an entry keyed by
      the path alone — the entry every query of that path falls back to —, whether or not the request that computed it
      carried a query. *)
  Theorem qm_response_never_under_path_key : forall ops hs now p e v,
    Forall (op_no_imsx ims_on prime) ops ->
    xc_find (KPath p) (fst (fst (runC_state ([], hs) now ops))) = Some e -> In v (ex_vars e) ->
    qmx (v_resp v) = false.
  Proof.
    exact (qm_never_under_path_key hstate compute ims_on fix_clear sfilter parse_ims sanitize_ok prime override negotiate
             vary_tuple vary_header clear_alias cf Hpure contract Herr).
  Qed.
End C03.

(** the history of the seeded change C03-10 (Full variant; QueryMatters variant WITHOUT a query; the same with a query) on
    the model without the key-kind guard — with which that change coincides on query-less requests —: the QueryMatters
    variant joins the path-keyed entry and /v?id=7 is answered with the response computed for /v *)
Theorem qm_queryless_variant_refuted :
  bodies (run_cfgx true w6_cx w6q_ops) = [B "static-a"; B "b:/v"; B "b:/v"; B "b:/v"] /\
  bodies (run_cfgx false w6_cx w6q_ops) = [B "static-a"; B "b:/v"; B "b:/v?id=7"; B "b:/v"] /\
  map (fun '(k, e) => (k, map (fun v => (v_tuple v, qmx (v_resp v))) (ex_vars e))) (fst (fst (run_cfgx_state true w6_cx w6q_ops)))
  = [(KPath (B "/v"), [([B "b"], true); ([B "a"], false)])].
Proof. exact qm_queryless_variant_refuted_w. Qed.

Example c03_ex_qm_queryless_variant :
  bodies (run_cfgx true w6r_cx w6q_ops) = [B "static-a"; B "b:/v"; B "b:/v?id=7"; B "b:/v"] /\
  bodies (run_cfgx false w6r_cx w6q_ops) = [B "static-a"; B "b:/v"; B "b:/v?id=7"; B "b:/v"] /\
  map (fun '(k, e) => (k, map (fun v => (v_tuple v, qmx (v_resp v))) (ex_vars e))) (fst (fst (run_cfgx_state true w6r_cx w6q_ops)))
  = [(KPath (B "/v"), [([B "a"], false)])].
Proof. exact qm_queryless_variant_ex_w. Qed.

(** ---- the keys separate URIs ([UriKey] / [PathQuery], src/comprash.rs) ----
    What the cache compares ([key_eqb] = the derived PartialEq/Eq/Hash of [UriKey] and [PathQuery]) on the keys made
    from two URIs: PathQuery keys are equal exactly when path AND query are equal ([eff_query]: an empty query is no
    query, as [PathQuery::query] documents) — the position of the boundary keeps "/a"+"b" and "/ab" apart —, Path
    keys exactly when the paths are equal, and a Path key never equals a PathQuery key. *)
Theorem key_injective : forall r r',
  (key_eqb (key_pq r) (key_pq r') = true <-> rq_path r = rq_path r' /\ eff_query r = eff_query r') /\
  (key_eqb (key_p r) (key_p r') = true <-> rq_path r = rq_path r') /\
  key_eqb (key_p r) (key_pq r') = false /\ key_eqb (key_pq r) (key_p r') = false.
Proof. exact key_eqb_uri. Qed.

(** ... and the boundary position is needed for it: "/a?b" and "/ab" have the same concatenation, a comparison of
    [string] alone (the seeded change C03-3) identifies them although their paths differ. *)
Theorem query_start_needed :
  let r := rq_get (B "/a") (Some (B "b")) in let r' := rq_get (B "/ab") None in
  fst (path_query r) = fst (path_query r') /\ key_eqb_string_only (key_pq r) (key_pq r') = true /\
  key_eqb (key_pq r) (key_pq r') = false /\ rq_path r <> rq_path r'.
Proof. exact query_start_needed_w. Qed.

(** The key is made from the RAW path ([Uri::path]), the path kvarn routes on: an entry stored under either key of one
    URI is found with either key of another only if the two raw paths are the same bytes — different percent-spellings
    of one decoded path ("/page", "/p%61ge") never share an entry. *)
Theorem key_is_raw_path : forall (r r' : request) (k k' : key),
  In k [key_pq r; key_p r] -> In k' [key_pq r'; key_p r'] -> key_eqb k k' = true -> rq_path r = rq_path r'.
Proof. exact key_is_raw_path_x. Qed.

(** ... and decoding the path in the key (the seeded change C03-6) merges requests the routing tells apart *)
Theorem decoded_key_collides_refuted :
  let r := rq_get (B "/page") None in let r' := rq_get (B "/p%61ge") None in
  rq_path r <> rq_path r' /\
  key_eqb (key_pq_decoded r) (key_pq_decoded r') = true /\ key_eqb (key_p_decoded r) (key_p_decoded r') = true /\
  key_eqb (key_pq r) (key_pq r') = false /\ key_eqb (key_p r) (key_p r') = false /\
  w9_status (rq_path r) = 200 /\ w9_status (rq_path r') = 404.
Proof. exact decoded_key_collides_refuted_w. Qed.

Example c03_ex_keys_apart :
  key_eqb (key_pq (rq_get (B "/x/y") (Some (B "z=1")))) (key_pq (rq_get (B "/x/yz=1") None)) = false /\
  key_eqb (key_pq (rq_get (B "/a") (Some (B "")))) (key_pq (rq_get (B "/a") None)) = true /\
  key_eqb (key_pq (rq_get (B "/a") (Some (B "bc")))) (key_pq (rq_get (B "/ab") (Some (B "c")))) = false.
Proof. vm_compute. repeat split. Qed.

(** [cache_transparent] and [cache_hit_same_class] with the handler contract and the conclusion stated with the path
    and the query of the URI instead of [path_query] (by [key_injective]). *)
Section C03uri.
  Variable hstate : Type.
  Variable compute : hstate -> request -> option (bytes * option bytes) -> bool -> fatx * hstate * list bytes.
  Variable ims_on : bool.
  Variable fix_clear : bool.
  Variable sfilter : N -> bool.
  Variable parse_ims : bytes -> option Z.
  Variable sanitize_ok : request -> bool.
  Variable prime : request -> request.
  Variable override : request -> option (bytes * option bytes).
  Variable negotiate : request -> fatx -> option (N * bytes).
  Variable vary_tuple : request -> option (bytes * option bytes) -> tuple.
  Variable vary_header : request -> option (bytes * option bytes) -> fatx -> list (bytes * bytes).
  Variable clear_alias : request -> option request.
  Variable cf : request -> option (bytes * option bytes) -> bool -> fatx.
  Hypothesis Hpure : forall hs r ov ok, fst (fst (compute hs r ov ok)) = cf r ov ok.
  Hypothesis contract_uri : forall r ov r' ov',
    get_or_head (rq_method r) = true -> get_or_head (rq_method r') = true ->
    vary_tuple r ov = vary_tuple r' ov' -> rq_path (lookup_req r ov) = rq_path (lookup_req r' ov') ->
    (qmx (cf r ov true) = true -> eff_query (lookup_req r ov) = eff_query (lookup_req r' ov')) ->
    cf r ov true = cf r' ov' true.
  Hypothesis Herr : forall r ov, f_spref (fx_fat (cf r ov false)) = SP_NONE.

  Theorem cache_transparent_uri : forall ops c hs cU hsU now,
    TInv vary_tuple cf c -> Forall (op_no_imsx ims_on prime) ops ->
    Forall2 obsx_equiv
      (runX hstate compute true ims_on true true fix_clear true true true sfilter parse_ims sanitize_ok prime
            override negotiate vary_tuple vary_header clear_alias (c, hs) now ops)
      (runX hstate compute false ims_on true true fix_clear true true true sfilter parse_ims sanitize_ok prime
            override negotiate vary_tuple vary_header clear_alias (cU, hsU) now ops).
  Proof.
    exact (run_simx_uri hstate compute ims_on fix_clear sfilter parse_ims sanitize_ok prime override negotiate vary_tuple
             vary_header clear_alias cf Hpure contract_uri Herr).
  Qed.
End C03uri.

Theorem cache_hit_same_uri : forall (vary_tuple : request -> option (bytes * option bytes) -> tuple)
    (cf : request -> option (bytes * option bytes) -> bool -> fatx) c now lr k e c1 v,
  TInv vary_tuple cf c -> xlookup lr c now = ((k, Some e), c1) -> xv_find (v_tuple v) (ex_vars e) = Some v ->
  exists r1 ov1, get_or_head (rq_method r1) = true /\ vary_tuple r1 ov1 = v_tuple v /\ v_resp v = cf r1 ov1 true /\
                 rq_path (lookup_req r1 ov1) = rq_path lr /\
                 (qmx (v_resp v) = true -> eff_query (lookup_req r1 ov1) = eff_query lr).
Proof. exact hit_same_uri_x. Qed.

(** before the repair (repo 9992768) the answer of an internal route (override URI of a Prime extension) was stored
    under the key of the requested page and then served for that page: the caching server answers "internal" where the
    cache-less one answers "page" *)
Theorem override_poisons_refuted :
  bodies (run_cfgx true w3_cx w3_ops) = [B "internal"; B "internal"] /\
  bodies (run_cfgx false w3_cx w3_ops) = [B "internal"; B "page"].
Proof. exact override_poisons_refuted_w. Qed.

(** before the repair (repo 00528a6) a response streamed without a length got a vary header from the cached-item arm
    but none from a cache-less host *)
Theorem stream_vary_refuted :
  nth 1 (vary_of (run_cfgx true w5_cx w1_ops)) None = Some (B "accept-encoding, x-v") /\
  nth 1 (vary_of (run_cfgx false w5_cx w1_ops)) None = None.
Proof. exact stream_vary_refuted_w. Qed.

(** before the last repair a query-dependent (QueryMatters) variant computed by handle_vary_missing joined the entry
    keyed by the path alone (created by a Full variant) and was then served for every query: the request for
    /v?x=2 got the answer computed for /v?x=1.  With the repair the extra hypothesis "query-matters-ness is uniform
    per path" of earlier versions of [cache_transparent] is no longer needed. *)
Theorem qm_variant_refuted :
  bodies (run_cfgx true w6_cx w6_ops) = [B "static-a"; B "b:/v?x=1"; B "b:/v?x=1"] /\
  bodies (run_cfgx false w6_cx w6_ops) = [B "static-a"; B "b:/v?x=1"; B "b:/v?x=2"].
Proof. exact qm_variant_refuted_w. Qed.

(** non-vacuity: a history with a hit, a variant push and an override on the fixture satisfies the contract's
    conclusion on the repaired model *)
Example c03_ex_repaired_override :
  bodies (run_cfgx true (mkCfgX (cx_base w3_cx) [] 0 (cx_ovprime w3_cx) true true true true true true) (w3_ops ++ w3_ops)) =
  bodies (run_cfgx false (mkCfgX (cx_base w3_cx) [] 0 (cx_ovprime w3_cx) true true true true true true) (w3_ops ++ w3_ops)).
Proof. vm_compute. reflexivity. Qed.

(** ---- the vary rules of a cached page ([Vary::rules_from_path] = [RuleSet::get], C14) ----
    The model ([rules_for_x], used by [vary_tuple_x] / [vary_header_x] for the path of the URI the response is cached
    under — after the rewriting Primes, the internal route if a Prime overrode the URI) applies the rules of the
    independent resolver of C14: of the patterns added to the host's rule set that cover the path, the most specific
    one, with the rules added last for it. *)
Theorem vary_rules_most_specific : forall (rules : list (bytes * list vrule)) (p : bytes),
  rules_for_x p rules = rules_or_none (resolve rules p).
Proof. exact rules_for_x_resolve. Qed.

(** an exact rule for the path wins against every pattern that covers the path too, whatever their lengths ... *)
Theorem vary_exact_rule_wins : forall (rules : list (bytes * list vrule)) (p : bytes) (rs : list vrule),
  is_wild p = false -> last_added rules p = Some rs -> rules_for_x p rules = rs.
Proof. exact exact_rule_wins. Qed.

(** ... and without one the longest pattern that covers it *)
Theorem vary_longest_pattern_wins : forall (rules : list (bytes * list vrule)) (p q : bytes) (rs : list vrule),
  (forall x, In x (map fst rules) -> covers x p = true -> is_wild x = true /\ (length x <= length q)%nat) ->
  is_wild q = true -> covers q p = true -> last_added rules q = Some rs -> rules_for_x p rules = rs.
Proof. exact longest_pattern_wins. Qed.

(** the seeded change C03-7 (rule set sorted by length first): the pattern "/lang*" shadows the exact rule "/lang", and
    the two x-w variants of the page get one tuple *)
Theorem length_first_shadows_exact_refuted :
  rules_for_x (B "/lang") w8_rules = [(B "x-w", 0, B "dw")] /\
  rules_for_len_first (B "/lang") w8_rules = [(B "x-v", 0, B "dv")] /\
  tuple_of_rules (rules_for_x (B "/lang") w8_rules) (w8_req (B "sv")) <> tuple_of_rules (rules_for_x (B "/lang") w8_rules) (w8_req (B "en")) /\
  tuple_of_rules (rules_for_len_first (B "/lang") w8_rules) (w8_req (B "sv")) =
  tuple_of_rules (rules_for_len_first (B "/lang") w8_rules) (w8_req (B "en")).
Proof. exact length_first_shadows_exact_refuted_w. Qed.

Example c03_ex_rules :
  rules_for_x (B "/lang") [(B "/lang*", [(B "x-v", 0, B "dv")]); (B "/lang", [(B "x-w", 0, B "dw")]); (B "/*", [])] = [(B "x-w", 0, B "dw")] /\
  rules_for_x (B "/language") [(B "/lan*", []); (B "/lang*", [(B "x-v", 0, B "dv")]); (B "/lang", [(B "x-w", 0, B "dw")])] = [(B "x-v", 0, B "dv")] /\
  rules_for_x (B "/other") [(B "/lang*", [(B "x-v", 0, B "dv")]); (B "/lang", [(B "x-w", 0, B "dw")])] = [].
Proof. vm_compute. repeat split. Qed.

(** ---- the contract asked only of what the server can produce ----
    [cache_transparent] asks the handler contract of every (request, override URI) pair; a handler that echoes the
    request's path cannot meet it for override URIs no Prime of the host produces.  The same theorem with the contract
    restricted to a set [reach] that contains every pair the Primes produce ([reach := fun _ _ => True] is
    [cache_transparent]); the invariant [TInvR] is [TInv] with "computed for a reachable pair". *)
Theorem cache_transparent_reachable :
  forall (hstate : Type) (compute : hstate -> request -> option (bytes * option bytes) -> bool -> fatx * hstate * list bytes)
         (ims_on fix_clear : bool) (sfilter : N -> bool) (parse_ims : bytes -> option Z) (sanitize_ok : request -> bool)
         (prime : request -> request) (override : request -> option (bytes * option bytes))
         (negotiate : request -> fatx -> option (N * bytes)) (vary_tuple : request -> option (bytes * option bytes) -> tuple)
         (vary_header : request -> option (bytes * option bytes) -> fatx -> list (bytes * bytes)) (clear_alias : request -> option request)
         (reach : request -> option (bytes * option bytes) -> Prop),
  (forall r0, reach (prime r0) (override r0)) ->
  forall cf : request -> option (bytes * option bytes) -> bool -> fatx,
  (forall hs r ov ok, fst (fst (compute hs r ov ok)) = cf r ov ok) ->
  (forall r ov r' ov', reach r ov -> reach r' ov' ->
     get_or_head (rq_method r) = true -> get_or_head (rq_method r') = true ->
     vary_tuple r ov = vary_tuple r' ov' -> rq_path (lookup_req r ov) = rq_path (lookup_req r' ov') ->
     (qmx (cf r ov true) = true -> path_query (lookup_req r ov) = path_query (lookup_req r' ov')) ->
     cf r ov true = cf r' ov' true) ->
  (forall r ov, f_spref (fx_fat (cf r ov false)) = SP_NONE) ->
  forall ops c hs cU hsU now,
  TInvR vary_tuple reach cf c -> Forall (op_no_imsx ims_on prime) ops ->
  Forall2 obsx_equiv
    (runX hstate compute true ims_on true true fix_clear true true true sfilter parse_ims sanitize_ok prime
          override negotiate vary_tuple vary_header clear_alias (c, hs) now ops)
    (runX hstate compute false ims_on true true fix_clear true true true sfilter parse_ims sanitize_ok prime
          override negotiate vary_tuple vary_header clear_alias (cU, hsU) now ops).
Proof.
  intros hstate compute ims_on fix_clear sfilter parse_ims sanitize_ok prime override negotiate vary_tuple vary_header clear_alias
         reach Hreach cf Hpure contract Herr.
  exact (run_simR hstate compute ims_on fix_clear sfilter parse_ims sanitize_ok prime override negotiate vary_tuple vary_header
           clear_alias reach Hreach cf Hpure contract Herr).
Qed.

(** ---- the fixture honours the contract: the theorem applies to the model runs that are compared with the code ----
    For every configuration of the fixture menu that passes [wf_fixture] (Model/CacheRules.v: no counting and no
    extended handlers; path-echo handlers declare QueryMatters and are not internal routes; tuple-echo handlers echo the
    rules [rules_for_x] selects for their path — exact rule, else longest pattern; any statuses, headers, preferences,
    status filter, default extensions with the '/', 'dir/', 'name.' expansion and the CORS denial route, override
    Prime), the handler contract holds of the pairs the fixture's Primes produce ... *)
Theorem fixture_honours_contract : forall (cx : configx), wf_fixture cx = true ->
  let de := cf_default_ext (cx_base cx) in let rules := cf_vary (cx_base cx) in let ovp := cx_ovprime cx in
  (forall r0, reach_fix de ovp (prime_fix de r0) (override_x de ovp r0)) /\
  (forall hs r ov ok, fst (fst (compute_x de (cf_handlers (cx_base cx)) [] hs r ov ok)) = cf_fix cx r ov ok) /\
  (forall r ov r' ov', reach_fix de ovp r ov -> reach_fix de ovp r' ov' ->
     get_or_head (rq_method r) = true -> get_or_head (rq_method r') = true ->
     vary_tuple_x true rules r ov = vary_tuple_x true rules r' ov' ->
     rq_path (lookup_req r ov) = rq_path (lookup_req r' ov') ->
     (qmx (cf_fix cx r ov true) = true -> path_query (lookup_req r ov) = path_query (lookup_req r' ov')) ->
     cf_fix cx r ov true = cf_fix cx r' ov' true) /\
  (forall r ov, f_spref (fx_fat (cf_fix cx r ov false)) = SP_NONE).
Proof.
  intros cx WF. cbv zeta. split; [exact (fixture_reach cx)|]. split; [exact (fixture_pure cx WF)|].
  split; [exact (fixture_contract cx WF) | exact (fixture_err cx)].
Qed.

(** ... and therefore, for EVERY history of requests (without If-Modified-Since: C04), page clears, clear-alls and waits,
    the model of the caching host ([run_cfgx true] = component pipex.run, compared with the real host on every check)
    and the model of the cache-less host ([run_cfgx false] = component pipex.run_nocache, the oracle) answer alike:
    status, headers, body, identity body, stream *)
Theorem fixture_cache_transparent : forall (cx : configx) (ops : list opx),
  wf_fixture cx = true ->
  Forall (op_no_imsx (cf_ims (cx_base cx)) (prime_fix (cf_default_ext (cx_base cx)))) ops ->
  Forall2 obsx_equiv (run_cfgx true cx ops) (run_cfgx false cx ops).
Proof. exact (fun cx ops WF => fixture_transparent cx WF ops). Qed.

(** non-vacuity: the configurations of the three seeded gaps pass [wf_fixture] — a page behind an exact rule next to a
    covering pattern, a rule on the page '/' expands to, a path-echo handler bound to two percent-spellings *)
Definition ex_cx (de : bool) (hs : list hspec) (rules : list (bytes * list vrule)) : configx :=
  mkCfgX (mkCfg true de true hs rules [] 500) [] 0 None true true true true true true.
Example c03_ex_wf :
  wf_fixture (ex_cx false [mkH (B "/lang") 3 200 (B "P") [] SP_FULL 0 true [(B "x-w", 0, B "dw")];
                           mkH (B "/langx") 3 200 (B "Q") [] SP_QUERY 0 true [(B "x-v", 0, B "dv")]] w8_rules) = true /\
  wf_fixture (ex_cx true [mkH (B "/index.html") 3 200 (B "L") [] SP_FULL 0 true [(B "x-w", 1, B "dw")]]
                    [(B "/index.html", [(B "x-w", 1, B "dw")])]) = true /\
  wf_fixture (ex_cx true [mkH (B "/data.json") 1 200 (B "for:") [] SP_QUERY 0 true []; mkH (B "/data%2Ejson") 1 200 (B "for:") [] SP_QUERY 0 true []] []) = true /\
  (* a tuple-echo handler that ignores the rule of its path is rejected *)
  wf_fixture (ex_cx false [mkH (B "/lang") 3 200 (B "P") [] SP_FULL 0 true [(B "x-v", 0, B "dv")]] w8_rules) = false.
Proof. vm_compute. repeat split. Qed.
