(** C11 — Handover: the successor listens before the predecessor stops.
    Only statements here; proofs are in Proofs/HandoverProofs.v.  The transition system (Model/Handover.v)
    is a chain of any number of instances on [n] listening sockets and one control-socket path; every instance
    embeds C10's machine ([repaired]) for its shutdown manager, accept loops and connection tasks, and runs the
    request loop of [handle_connection] on every connection (keep-alive).
    [hrepaired] is the code after the two fixes (listeners bound and put into listening state by [execute] before
    the accept tasks are spawned and before the predecessor is contacted; the control socket bound by [start_at]
    before [execute] returns), [hbound] the code after the first fix only, [htoday] kvarn 0.6.3 as found.
    A new instance is started by the environment only when the newest one's [execute] has returned.
    All schedules, any number of sockets, any number of successive handovers. *)
From KV Require Import Bytes Shutdown ShutdownProofs Handover HandoverProofs.
Open Scope nat_scope.

(** No gap: in every reachable state every socket's port is bound and listening in some instance. *)
Theorem always_bound : forall (n : nat) (s : hstate) (j : nat),
  hreachable hrepaired n s -> j < n -> port_served s j = true.
Proof. exact HandoverProofs.always_bound. Qed.

(** "The successor binds before the predecessor is told to shut down": while the handover message is on an instance's
    control socket, and ever after its shutdown plugin has been entered, the next instance exists and has every socket
    bound and in listening state. *)
Theorem told_after_bound : forall (n : nat) (s : hstate) (i : nat) (x : inst),
  hreachable hrepaired n s -> nth_error (insts s) i = Some x -> (i_msg x || i_recv x) = true ->
  exists y, nth_error (insts s) (S i) = Some y /\ all_bnd n y.
Proof. exact HandoverProofs.told_after_bound. Qed.

(** A listener of an instance is closed only when the next instance exists and has every socket bound and listening. *)
Theorem successor_binds_first : forall (n : nat) (s : hstate) (i : nat) (x : inst) (j : nat),
  hreachable hrepaired n s -> nth_error (insts s) i = Some x -> closed x j ->
  exists y, nth_error (insts s) (S i) = Some y /\ all_bnd n y.
Proof. exact HandoverProofs.successor_binds_first. Qed.

(** Every instance: when its shutdown-complete signal has been sent ([wait()] resolves), no accept loop holds an
    accepted stream, no connection task is still to run or running (its request loop has ended), and no listener is bound
    (C10's [finished_after_all] and [finished_listeners_closed] applied to the embedded machine). *)
Theorem handover_drains : forall (n : nat) (s : hstate) (i : nat) (x : inst),
  hreachable hrepaired n s -> nth_error (insts s) i = Some x -> finished (i_sd x) = true ->
  all_done (i_sd x) = true /\ forallb (fun l => negb (l_bound l)) (ls (i_sd x)) = true.
Proof. exact HandoverProofs.handover_drains_safe. Qed.

(** Keep-alive: a connection task reads at most ONE request after the shutdown flag of its instance has been set (the one
    that arrives while it waits, or none if a request is in flight): the re-check after every answer closes the connection. *)
Theorem keepalive_one_more : forall (n : nat) (s : hstate) (i : nat) (x : inst) (c : nat),
  hreachable hrepaired n s -> nth_error (insts s) i = Some x -> k_after (kget c (i_ka x)) <= 1.
Proof. exact HandoverProofs.keepalive_one_more. Qed.

(** ... and the predecessor's [wait()] does resolve: in every reachable state in which no thread of any instance
    can move, an instance that received the handover message has sent its signal, closed every listener, ended
    every connection task (also the kept-alive ones) and resolved its waiter (C10's [no_hang]) — and every later call
    of [wait()] has resolved too. *)
Theorem handover_no_hang : forall (n : nat) (s : hstate) (i : nat) (x : inst),
  hreachable hrepaired n s -> nth_error (insts s) i = Some x -> i_recv x = true -> hquiescent hrepaired s ->
  completed (i_sd x) = true /\ forallb (fun w => w) (i_lw x) = true.
Proof. exact HandoverProofs.handover_no_hang. Qed.

(** A [wait()] polled after the shutdown-complete signal resolves at that poll, whenever it was called (before, during or
    after the drain): the receiver it clones has never marked a value as seen. *)
Theorem late_wait_resolves : forall (v : hvariant) (s : hstate) (i : nat) (x : inst) (w : nat),
  nth_error (insts s) i = Some x -> finished (i_sd x) = true -> nth_error (i_lw x) w = Some false ->
  exists s', hstep v s (HWaitPoll i w) = Some s' /\
             exists x', nth_error (insts s') i = Some x' /\ nth_error (i_lw x') w = Some true.
Proof. exact HandoverProofs.late_wait_resolves. Qed.

(** The control-socket path is answered by the newest instance, or by its predecessor only while the newest
    is still inside [execute]: once the successor is running nobody else answers. *)
Theorem ctl_successor_only : forall (n : nat) (s : hstate) (i : nat),
  hreachable hrepaired n s -> serves s i = true ->
  S i = length (insts s) \/
  (S (S i) = length (insts s) /\ exists y, nth_error (insts s) (S i) = Some y /\ i_pc y <> PRunning).
Proof. exact HandoverProofs.ctl_successor_only. Qed.

(** ... and the successor DOES answer: whenever no thread can move, a connect to the path reaches the newest instance. *)
Theorem ctl_successor_answers : forall (n : nat) (s : hstate),
  hreachable hrepaired n s -> hquiescent hrepaired s -> serves s (pred (length (insts s))) = true.
Proof. exact HandoverProofs.ctl_successor_answers. Qed.

(** ... and keeps answering: no step of any thread of any instance takes the path away from the newest instance (only a
    next handover does: the step after which it is no longer the newest is the operator's). *)
Theorem path_stable : forall (n : nat) (s : hstate) (k : nat) (lb : hlabel) (s' : hstate),
  hreachable hrepaired n s -> serves s k = true -> S k = length (insts s) -> hstep hrepaired s lb = Some s' -> serves s' k = true.
Proof. exact HandoverProofs.path_stable. Qed.

(** All clauses in every reachable state of a chain of any length (the induction over the handovers is the
    inductive invariant [hinv] over the run). *)
Theorem chain : forall (n : nat) (s : hstate),
  hreachable hrepaired n s ->
  (forall j, j < n -> port_served s j = true) /\
  (forall i x, nth_error (insts s) i = Some x ->
     ((i_msg x || i_recv x) = true -> exists y, nth_error (insts s) (S i) = Some y /\ all_bnd n y) /\
     (forall j, closed x j -> exists y, nth_error (insts s) (S i) = Some y /\ all_bnd n y) /\
     (finished (i_sd x) = true -> all_done (i_sd x) = true /\ forallb (fun l => negb (l_bound l)) (ls (i_sd x)) = true) /\
     (forall c, k_after (kget c (i_ka x)) <= 1) /\
     (i_recv x = true -> hquiescent hrepaired s -> completed (i_sd x) = true /\ forallb (fun w => w) (i_lw x) = true)) /\
  (forall i, serves s i = true ->
     S i = length (insts s) \/
     (S (S i) = length (insts s) /\ exists y, nth_error (insts s) (S i) = Some y /\ i_pc y <> PRunning)) /\
  (hquiescent hrepaired s -> serves s (pred (length (insts s))) = true) /\
  (forall k lb s', serves s k = true -> S k = length (insts s) -> hstep hrepaired s lb = Some s' -> serves s' k = true).
Proof. exact HandoverProofs.chain. Qed.

(** kvarn 0.6.3 as found: a schedule (replayed on the real code with a delay at the bind point) after which socket 0
    is bound by nobody: the predecessor has closed its listener, the successor's accept task has not bound yet. *)
Theorem always_bound_today_refuted :
  exists s, hreachable htoday 1 s /\ port_served s 0 = false /\
            exists x y, nth_error (insts s) 0 = Some x /\ closed x 0 /\ nth_error (insts s) 1 = Some y /\ nth 0 (i_bnd y) BNone = BNone.
Proof. exact HandoverProofs.always_bound_today_refuted. Qed.

(** After the first repair only ([start_at] binds the path in its spawned task): an instance started when its predecessor's
    [execute] has just returned finds no control socket; a state in which nothing can move, two instances listen on the port,
    the control socket is answered by the OLDER of the two, which has never been told to shut down (replayed on the real code:
    the successor is started while the predecessor's main task keeps its thread busy for 50 ms after [execute]). *)
Theorem eager_start_refuted :
  exists s, hreachable hbound 1 s /\ hquiescentb hbound s = true /\ length (insts s) = 3 /\
            serves s 1 = true /\ serves s 2 = false /\
            exists x y, nth_error (insts s) 1 = Some x /\ nth_error (insts s) 2 = Some y /\
                        listening x 0 = true /\ listening y 0 = true /\ i_pc x = PRunning /\ i_pc y = PRunning /\
                        i_msg x = false /\ i_recv x = false /\ finished (i_sd x) = false.
Proof. exact HandoverProofs.eager_start_refuted. Qed.

(** Non-vacuity. *)
(** three successive handovers on two sockets with two connections in flight across every switch, run to rest, then one more
    wait() on every predecessor: four instances, every socket served throughout, the three predecessors completed (also the late
    waiters), the newest answers at the path *)
Example ex_chain_of_three :
  let '(s0, ok) := scenario hrepaired 4000 3 2 2 0 (hinit 2) true in
  let s := late_wait hrepaired 4000 s0 in
  ok = true /\ length (insts s) = 4 /\ who_serves s = 4 /\ hquiescentb hrepaired s = true /\
  forallb (fun x => completed (i_sd x) && i_recv x && late_done x) (removelast (insts s)) = true /\
  forallb (fun x => Nat.eqb (length (cs (i_sd x))) 2) (removelast (insts s)) = true.
Proof. vm_compute. repeat split. Qed.
(** a reachable state in which the predecessor has closed a listener (hypothesis of [successor_binds_first]) and
    has sent its signal (hypothesis of [handover_drains]) *)
Example ex_closed_and_finished :
  let '(s, _) := scenario hrepaired 2000 1 1 1 0 (hinit 1) true in
  match nth_error (insts s) 0 with
  | Some x => finished (i_sd x) = true /\ (exists l, nth_error (ls (i_sd x)) 0 = Some l /\ l_bound l = false) /\ serves s 1 = true
  | None => False
  end.
Proof. vm_compute. split; [reflexivity|]. split; [eexists; split; reflexivity|reflexivity]. Qed.
(** keep-alive across the handover: a connection is accepted by instance 0 and answers one request; the successor starts and tells
    instance 0 to shut down (flag set); the client sends one more request on the same connection — it is read ([k_after] = 1) and
    answered, then the re-check ends the loop ([KExit]): a further request is not enabled, the task ends, everything drains. *)
Definition sched_keepalive : list hlabel :=
  [HSd 0 (EConn 0); HSd 0 (LTake 0); HSd 0 (LStep 0); HSd 0 (LStep 0);      (* accepted, counted, task spawned *)
   HReq 0 0; HResp 0 0;                                                      (* request 1 answered; flag not set: keep waiting *)
   HStart; HMain 1; HMain 1; HMain 1; HRecv 0; HSd 0 (SStep 0);              (* successor bound, listening, message, flag set *)
   HReq 0 0; HResp 0 0].                                                     (* request 2: read after the flag, answered, loop left *)
Example ex_keepalive :
  match hrun hrepaired (hinit 1) sched_keepalive with
  | Some s =>
      match nth_error (insts s) 0 with
      | Some x => kget 0 (i_ka x) = {| k_st := KExit; k_after := 1 |} /\ hstep hrepaired s (HReq 0 0) = None /\
                  (let '(s1, ok) := hdrain hrepaired 400 s true in
                   ok = true /\ hquiescentb hrepaired s1 = true /\ who_serves s1 = 2 /\
                   match nth_error (insts s1) 0 with Some x1 => completed (i_sd x1) = true | None => False end)
      | None => False
      end
  | None => False
  end.
Proof. vm_compute. repeat split. Qed.
(** a late waiter (hypotheses of [late_wait_resolves]): wait() called on the predecessor after it has finished *)
Example ex_late_waiter :
  let '(s0, _) := scenario hrepaired 2000 1 1 0 0 (hinit 1) true in
  match hstep hrepaired s0 (HWaitNew 0) with
  | Some s => match nth_error (insts s) 0 with
              | Some x => finished (i_sd x) = true /\ nth_error (i_lw x) 0 = Some false /\ hstep hrepaired s (HWaitPoll 0 0) <> None
              | None => False
              end
  | None => False
  end.
Proof. vm_compute. repeat split. discriminate. Qed.
