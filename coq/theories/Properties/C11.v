(** C11 — Handover: the successor listens before the predecessor stops.
    Only statements here; proofs are in Proofs/HandoverProofs.v.  The transition system (Model/Handover.v)
    is a chain of any number of instances on [n] ports and one control-socket path; every instance embeds
    C10's machine ([repaired]) for its shutdown manager, accept loops and connection tasks.  [hrepaired] is
    the code after the fix (listeners bound by [execute] before the accept tasks are spawned and before the
    predecessor is contacted), [htoday] kvarn 0.6.3 as found (bound inside the spawned accept tasks).
    A new instance is started by the environment only when the newest one is up ([execute] returned, control
    socket bound).  All schedules, any number of ports, any number of successive handovers. *)
From KV Require Import Bytes Shutdown ShutdownProofs Handover HandoverProofs.
Open Scope nat_scope.

(** No gap: in every reachable state every port is bound and listening in some instance. *)
Theorem always_bound : forall (n : nat) (s : hstate) (j : nat),
  hreachable hrepaired n s -> j < n -> port_served s j = true.
Proof. exact HandoverProofs.always_bound. Qed.

(** A listener of an instance is closed only when the next instance exists and has bound every port. *)
Theorem successor_binds_first : forall (n : nat) (s : hstate) (i : nat) (x : inst) (j : nat),
  hreachable hrepaired n s -> nth_error (insts s) i = Some x -> closed x j ->
  exists y, nth_error (insts s) (S i) = Some y /\ all_bnd n y.
Proof. exact HandoverProofs.successor_binds_first. Qed.

(** Every instance: when its shutdown-complete signal has been sent ([wait()] resolves), no accept loop holds an
    accepted stream, no connection task is still to run or running, and no listener is bound (C10's
    [finished_after_all] and [finished_listeners_closed] applied to the embedded machine). *)
Theorem handover_drains : forall (n : nat) (s : hstate) (i : nat) (x : inst),
  hreachable hrepaired n s -> nth_error (insts s) i = Some x -> finished (i_sd x) = true ->
  all_done (i_sd x) = true /\ forallb (fun l => negb (l_bound l)) (ls (i_sd x)) = true.
Proof. exact HandoverProofs.handover_drains_safe. Qed.

(** ... and the predecessor's [wait()] does resolve: in every reachable state in which no thread of any instance
    can move, an instance that received the handover message has sent its signal, closed every listener, ended
    every connection task and resolved its waiter (C10's [no_hang]). *)
Theorem handover_no_hang : forall (n : nat) (s : hstate) (i : nat) (x : inst),
  hreachable hrepaired n s -> nth_error (insts s) i = Some x -> i_recv x = true -> hquiescent hrepaired s ->
  completed (i_sd x) = true.
Proof. exact HandoverProofs.handover_no_hang. Qed.

(** The control-socket path is answered by the newest instance, or by its predecessor only while the newest
    is still inside [execute]: once the successor is running nobody else answers.
    (Not proved, checked by the run only: that the successor's socket file stays at the path afterwards.) *)
Theorem ctl_successor_only : forall (n : nat) (s : hstate) (i : nat),
  hreachable hrepaired n s -> serves s i = true ->
  S i = length (insts s) \/
  (S (S i) = length (insts s) /\ exists y, nth_error (insts s) (S i) = Some y /\ i_pc y <> PRunning).
Proof. exact HandoverProofs.ctl_successor_only. Qed.

(** All clauses in every reachable state of a chain of any length (the induction over the handovers is the
    inductive invariant [hinv] over the run). *)
Theorem chain : forall (n : nat) (s : hstate),
  hreachable hrepaired n s ->
  (forall j, j < n -> port_served s j = true) /\
  (forall i x, nth_error (insts s) i = Some x ->
     (forall j, closed x j -> exists y, nth_error (insts s) (S i) = Some y /\ all_bnd n y) /\
     (finished (i_sd x) = true -> all_done (i_sd x) = true /\ forallb (fun l => negb (l_bound l)) (ls (i_sd x)) = true) /\
     (i_recv x = true -> hquiescent hrepaired s -> completed (i_sd x) = true)) /\
  (forall i, serves s i = true ->
     S i = length (insts s) \/
     (S (S i) = length (insts s) /\ exists y, nth_error (insts s) (S i) = Some y /\ i_pc y <> PRunning)).
Proof. exact HandoverProofs.chain. Qed.

(** kvarn 0.6.3 as found: a schedule (replayed on the real code with a delay at the bind point) after which port 0
    is bound by nobody: the predecessor has closed its listener, the successor's accept task has not bound yet. *)
Theorem always_bound_today_refuted :
  exists s, hreachable htoday 1 s /\ port_served s 0 = false /\
            exists x y, nth_error (insts s) 0 = Some x /\ closed x 0 /\ nth_error (insts s) 1 = Some y /\ nth 0 (i_bnd y) false = false.
Proof. exact HandoverProofs.always_bound_today_refuted. Qed.

(** Non-vacuity. *)
(** three successive handovers on two ports with two connections in flight across every switch, run to rest:
    four instances, every port served throughout, the three predecessors completed, the newest answers at the path *)
Example ex_chain_of_three :
  let '(s, ok) := scenario hrepaired 4000 3 2 2 0 (hinit 2) true in
  ok = true /\ length (insts s) = 4 /\ who_serves s = 4 /\ hquiescentb hrepaired s = true /\
  forallb (fun x => completed (i_sd x) && i_recv x) (removelast (insts s)) = true /\
  forallb (fun x => Nat.eqb (length (cs (i_sd x))) 2) (removelast (insts s)) = true.
Proof. vm_compute. repeat split. Qed.
(** a reachable state in which the predecessor has closed a listener (hypothesis of [successor_binds_first]) and
    has sent its signal (hypothesis of [handover_drains]) *)
Example ex_closed_and_finished :
  let '(s, _) := scenario hrepaired 2000 1 1 1 0 (hinit 1) true in
  match nth_error (insts s) 0 with
  | Some x => finished (i_sd x) = true /\ (exists l, nth_error (ls (i_sd x)) 0 = Some l /\ l_bound l = false) /\ serves s 1 = true
  | None => False
  end.
Proof. vm_compute. split; [reflexivity|]. split; [eexists; split; reflexivity|reflexivity]. Qed.
