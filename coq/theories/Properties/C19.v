(** C19 — Control commands round-trip their arguments and never wedge the socket.
    Only statements here; proofs are in Proofs/QuotedProofs.v and Proofs/CtlProofs.v. *)
From KV Require Import Bytes Quoted QuotedProofs Ctl CtlProofs CtlHosts CtlHostsProofs.
Open Scope N_scope.

(** Encoding every argument, joining with one space and splitting on the other side gives the
    same list back: for ALL lists of ALL strings (any code points, including the empty string,
    spaces, both quotes, backslashes). *)
Theorem split_encode_roundtrip : forall l : list str,
  quoted_str_split (join_sp (map encode_quoted_str l)) = l.
Proof. exact split_join_encoded. Qed.

(** Two different argument vectors never have the same wire form. *)
Theorem wire_format_injective : forall l1 l2 : list str,
  join_sp (map encode_quoted_str l1) = join_sp (map encode_quoted_str l2) -> l1 = l2.
Proof. exact join_encoded_injective. Qed.

(** What kvarnctl sends for a command with at least one argument arrives as that command and
    those arguments. *)
Theorem client_args_arrive : forall (command a : str) (args : list str),
  quoted_str_split (client_message command (a :: args)) = command :: a :: args.
Proof. exact split_client_message. Qed.

(** A command typed without arguments is sent as typed; a non-empty plain word arrives as itself. *)
Theorem client_plain_command_arrives : forall command : str,
  command <> [] -> forallb plain_char command = true ->
  quoted_str_split (client_message command []) = [command].
Proof. exact split_client_message_noargs. Qed.

(** The data of the [ping] plugin splits into its arguments. *)
Theorem ping_data_roundtrip : forall args : list str, quoted_str_split (ping_data args) = args.
Proof. exact split_ping_data. Qed.

(** The splitter's [escaped] counter is 0 or 1 in every reachable state: the third arm of
    [match self.escaped] is dead and [self.escaped += 1] cannot overflow. *)
Theorem escaped_bounded : forall s : str, escaped (run_state split_init s) <= 1.
Proof. exact reachable_escaped_le_1. Qed.

(** The splitter invents nothing. For EVERY line -- encoded by kvarnctl or typed by hand, with
    unbalanced quotes, dangling backslashes, any code points -- the tokens laid end to end are
    the line with some characters (separators, quotes, escaping backslashes) left out: no
    character is invented, duplicated or moved, so an argument can only ever contain what the
    operator sent, in the order it was sent. *)
Theorem split_invents_nothing : forall s : str, subseq (concat (quoted_str_split s)) s.
Proof. exact split_subseq. Qed.

(** ... hence the arguments a plugin receives are never longer, in total, than the request. *)
Theorem split_no_amplification : forall s : str,
  (length (concat (quoted_str_split s)) <= length s)%nat.
Proof. exact QuotedProofs.split_no_amplification. Qed.

(** Lines compose. After ANY prefix [a] that leaves the splitter outside quotes and outside an
    escape (every complete encoded message does; so does any hand-typed line whose quotes are
    closed), a space starts afresh: whatever follows cannot change the tokens of [a], and the
    tokens that follow are those of the rest alone. So appending arguments to a command never
    alters the command or the arguments before them. *)
Theorem arguments_compose : forall a b : str,
  quotes (run_state split_init a) = QNo -> escaped (run_state split_init a) = 0 ->
  quoted_str_split (a ++ c_space :: b) = quoted_str_split a ++ quoted_str_split b.
Proof. exact split_compose. Qed.

(** ... in particular after every argument vector kvarnctl encodes (the empty one included): ANY
    text after the next space -- more encoded arguments, or anything typed by hand, balanced or
    not -- is split on its own and cannot reach back into the arguments already sent. *)
Theorem encoded_prefix_is_sealed : forall (l : list str) (b : str),
  quoted_str_split (join_sp (map encode_quoted_str l) ++ c_space :: b) = l ++ quoted_str_split b.
Proof. exact split_encoded_prefix. Qed.

(** The wire form of an argument is the argument plus its two quotes, plus at most one escaping
    backslash per character: never more than twice its length plus two. *)
Theorem encoding_bounded : forall s : str,
  (length s + 2 <= length (encode_quoted_str s) <= 2 * length s + 2)%nat.
Proof. exact encode_length. Qed.

(** UTF-8: what the server decodes is what the client's string was. *)
Theorem utf8_decode_encode : forall s : str, all_scalar s = true -> utf8_decode (utf8_encode s) = Some s.
Proof. exact utf8_roundtrip. Qed.

(** The in-place reply construction is: status word, then a space and the data if there is data. *)
Theorem frame_spec : forall (prepend : bytes) (data : option bytes),
  frame prepend data = prepend ++ match data with Some (c :: d) => c_space :: c :: d | _ => [] end.
Proof. exact frame_eq. Qed.

(** [kvarnctl ping args...] against any plugin table whose [ping] is the built-in one, in any
    state: the reply is [ok] followed by the encoded arguments, the socket is not closed, the
    state is unchanged, and kvarnctl's reading of the reply is [ok] and exactly [args]. *)
Theorem ping_echo : forall (S : Type) (ps : plugins S) (args : list str) (s : S),
  lookup_plugin (B "ping") ps = Some ping_plugin ->
  forallb all_scalar args = true ->
  let reply := B "ok" ++ match args with
                         | [] => []
                         | _ => c_space :: utf8_encode (join_sp (map encode_quoted_str args))
                         end in
  handle ps (utf8_encode (client_message (B "ping") args)) s = ({| hr_data := reply; hr_close := false |}, s)
  /\ client_reply_tokens reply = Some (B "ok" :: args).
Proof. exact ping_echo_lemma. Qed.

(** Every request gets a reply whose status word says what happened: anything but a plugin's [Ok]
    (not UTF-8, unknown command, plugin error) starts with [error], a plugin's [Ok] starts with [ok];
    not-UTF-8 and unknown commands neither close the socket nor change the state. *)
Theorem dispatch_total : forall (S : Type) (ps : plugins S) (req : bytes) (s : S),
  let hr := fst (handle ps req s) in
  (classify S ps req s <> CPluginOk -> starts_with (B "error") (hr_data hr) = true) /\
  (classify S ps req s = CPluginOk -> starts_with (B "ok") (hr_data hr) = true) /\
  (classify S ps req s = CBinary \/ classify S ps req s = CUnknown ->
     hr_close hr = false /\ snd (handle ps req s) = s).
Proof. exact handle_total. Qed.

(** Whatever bytes a plugin puts in its response, kvarnctl reads the status word as first token. *)
Theorem client_reads_status_word : forall (prepend : bytes) (data : option bytes) (line : str),
  prepend = B "ok" \/ prepend = B "error" ->
  utf8_decode (frame prepend data) = Some line ->
  exists rest, quoted_str_split line = prepend :: rest.
Proof. exact client_reads_status. Qed.

(** For every history of requests and every plugin table: as long as no response asks to close,
    the listener is still listening and every request was answered with [ok..] or [error..]. *)
Theorem socket_persists : forall (S : Type) (ps : plugins S) (reqs : list bytes) (s : S),
  no_close S ps s reqs = true ->
  fst (fst (run ps (Listening, s) reqs)) = Listening /\
  Forall answered (snd (run ps (Listening, s) reqs)) /\
  length (snd (run ps (Listening, s) reqs)) = length reqs.
Proof. exact run_persists. Qed.

(** ... and with a closing response: everything up to and including it is answered, nothing after. *)
Theorem socket_answers_until_close : forall (S : Type) (ps : plugins S) (pre : list bytes) (s : S)
    (c : bytes) (post : list bytes),
  no_close S ps s pre = true ->
  (let s1 := snd (fst (run ps (Listening, s) pre)) in hr_close (fst (handle ps c s1)) = true) ->
  let res := run ps (Listening, s) (pre ++ c :: post) in
  fst (fst res) = Closed /\
  exists ans last, length ans = length pre /\ Forall answered ans /\ answered last /\
                   snd res = ans ++ last :: repeat NoAnswer (length post).
Proof. exact run_until_close. Qed.

(** [clear all <host>] reports the host exactly as the operator typed it. *)
Theorem clear_sees_host : forall (S : Type) (ps : plugins S) (uri_ok : str -> bool) (host : str) (s : S),
  lookup_plugin (B "clear") ps = Some (clear_plugin uri_ok) ->
  all_scalar host = true ->
  handle ps (utf8_encode (client_message (B "clear") [B "all"; host])) s
  = ({| hr_data := frame (B "ok") (Some (B "cleared the caches on " ++ utf8_encode host)); hr_close := false |}, s).
Proof. exact clear_all_sees_host. Qed.

(** ---- strengthening: every panic explicit, any number of connections -------------------------------------- *)

(** For every request byte string (any length, UTF-8 or not) and every plugin table whose plugins
    do not panic, the handler -- with the panics of its own operations explicit ([frame_chk]:
    the range check of [data[..prepend.len()]] and the length check of [copy_from_slice]) --
    returns a reply that begins with [ok] or [error]. *)
Theorem reply_total : forall (S : Type) (ps : plugins_chk S) (req : bytes) (s : S),
  plugins_total ps ->
  exists hr s', handle_chk ps req s = Ok (hr, s') /\ status_ok (hr_data hr).
Proof. exact handle_chk_total. Qed.

(** The handler of the earlier theorems is this one: with plugins that cannot panic nothing in
    the closure panics. *)
Theorem handler_never_panics : forall (S : Type) (ps : plugins S) (req : bytes) (s : S),
  handle_chk (lift_plugins ps) req s = Ok (handle ps req s).
Proof. exact handle_chk_lift. Qed.

(** [with_ping]'s [data.remove(0)] (a [String] operation that panics off a char boundary and on
    an empty string) is always on the space pushed first. *)
Theorem ping_never_panics : forall (S : Type) (args : list str) (s : S),
  ping_plugin_chk args s = Ok (ping_plugin args s).
Proof. exact ping_plugin_chk_ok. Qed.

(** Cutting the request at a byte count, [&data[..data.len().min(64)]], is NOT total on valid
    UTF-8: the reason why no such slice may appear in the handler. *)
Theorem log_truncation_refuted :
  exists (data : bytes) (line : str),
    utf8_decode data = Some line /\ (length data > 64)%nat /\ log_truncate_chk 64 data = Panic.
Proof. exact log_truncation_panics. Qed.

(** The listener with any number of connections, in ANY state [st] (so in every reachable one),
    for ANY further events [evs] of the other connections and of the environment (every
    interleaving): a connection whose request is complete stays so, nobody else can consume or
    disturb it; and as soon as its handler is not blocked (its plugin terminates), its own step
    gives it a reply beginning with [ok] or [error] -- whatever phase the other connections are
    in (connected and silent, half sent, waiting for a shutdown, ...) -- and changes no other
    connection. *)
Theorem socket_never_wedged : forall (S : Type) (ps : plugins_chk S) (blocked : bytes -> S -> bool)
    (env_step : N -> S -> S * bool) (ack : S -> S) (st : lts_state S) (evs : list event) (k : N) (req : bytes),
  plugins_total ps ->
  conn_get k (l_conns st) = Some (PComplete req) ->
  Forall (fun ev => event_conn ev <> Some k) evs ->
  let st1 := lrun ps blocked env_step ack st evs in
  conn_get k (l_conns st1) = Some (PComplete req) /\
  (blocked req (l_env st1) = false ->
   let st2 := lstep ps blocked env_step ack st1 (EHandle k) in
   (exists d, conn_get k (l_conns st2) = Some (PReplied d) /\ status_ok d) /\
   (forall j, j <> k -> conn_get j (l_conns st2) = conn_get j (l_conns st1))).
Proof. exact never_wedged. Qed.

(** While the listener listens a new connection is accepted and read to its end whatever the
    others are doing, without effect on listener, state or other connections. *)
Theorem accept_never_blocked : forall (S : Type) (ps : plugins_chk S) (blocked : bytes -> S -> bool)
    (env_step : N -> S -> S * bool) (ack : S -> S) (st : lts_state S) (k : N) (req : bytes),
  l_listener st = Listening -> conn_get k (l_conns st) = None ->
  let st1 := lrun ps blocked env_step ack st [EConnect k; ESend k req; EFin k] in
  conn_get k (l_conns st1) = Some (PComplete req) /\ l_listener st1 = Listening /\ l_env st1 = l_env st /\
  (forall j, j <> k -> conn_get j (l_conns st1) = conn_get j (l_conns st)).
Proof. exact accept_not_blocked. Qed.

(** Nothing a client does (connect, send, half-close, close the connection, stay silent) changes
    the listener or the state: only a response with [close], the environment, or what happens to the
    socket file does. *)
Theorem clients_cannot_close : forall (S : Type) (ps : plugins_chk S) (blocked : bytes -> S -> bool)
    (env_step : N -> S -> S * bool) (ack : S -> S) (st : lts_state S) (ev : event),
  (forall k, ev <> EHandle k) -> event_conn ev <> None ->
  l_listener (lstep ps blocked env_step ack st ev) = l_listener st /\
  l_env (lstep ps blocked env_step ack st ev) = l_env st.
Proof. exact client_events_keep_listener. Qed.

(** Requests that are not UTF-8 or name no plugin: the same [error] reply in every state, no
    effect -- at whatever point among the other connections' events the handler runs. *)
Theorem rejected_requests_schedule_independent : forall (S : Type) (ps : plugins_chk S) (req : bytes),
  (utf8_decode req = None \/
   exists line, utf8_decode req = Some line /\ lookup_chk (request_name (quoted_str_split line)) ps = None) ->
  exists d, starts_with (B "error") d = true /\
            forall s, handle_chk ps req s = Ok ({| hr_data := d; hr_close := false |}, s).
Proof. exact rejected_reply_constant. Qed.

(** The plugin table of the concurrent sessions satisfies the hypothesis. *)
Theorem fixture_plugins_total : plugins_total fx_plugins_chk.
Proof. exact fx_plugins_chk_total. Qed.


(** ---- strengthening 2: the operator's side, real hosts, the socket file, accept errors, post_send ------------ *)

(** [kvarnctl name a args...] against ANY plugin table, in any state: the plugin registered under
    [name] is called with exactly the arguments the operator typed, whatever characters they
    contain (spaces, quotes, backslashes, empty strings, any Unicode scalar value), and its response
    comes back framed.  [ping_echo] and the [clear] theorems below are instances. *)
Theorem plugin_sees_typed_arguments : forall (S : Type) (ps : plugins S) (name : str) (p : plugin S)
    (a : str) (args : list str) (s : S),
  lookup_plugin name ps = Some p ->
  all_scalar name = true -> forallb all_scalar (a :: args) = true ->
  handle ps (utf8_encode (client_message name (a :: args))) s
  = (let (response, s') := p (a :: args) s in
     let (data, prepend) := match pr_kind response with
                            | KError data => (data, B "error")
                            | KOk data => (data, B "ok")
                            end in
     ({| hr_data := frame prepend data; hr_close := pr_close response |}, s')).
Proof. exact plugin_gets_typed_args. Qed.

(** [kvarnctl clear file <host> <path>] on an instance with any ports and hosts: afterwards every
    port's host collection is what [Collection::clear_file(host, path)] -- with the host and the path
    exactly as typed -- makes of it; the reply is [ok] iff some port found the host and had the file
    cached, [error] otherwise; the socket stays open. *)
Theorem clear_file_sees_typed_target : forall (dbg : str -> str) (ps : plugins (list collection))
    (host path : str) (ports : list collection),
  lookup_plugin (B "clear") ps = Some (clear_hosts_plugin dbg) ->
  all_scalar host = true -> all_scalar path = true ->
  let res := handle ps (utf8_encode (client_message (B "clear") [(B "file" : str); host; path])) ports in
  let found := existsb (fun c => fst (fst (clear_file_coll host path c))) ports in
  let cleared := existsb (fun c => snd (fst (clear_file_coll host path c))) ports in
  snd res = map (fun c => snd (clear_file_coll host path c)) ports /\
  hr_close (fst res) = false /\
  starts_with (B "ok") (hr_data (fst res)) = found && cleared /\
  starts_with (B "error") (hr_data (fst res)) = negb (found && cleared).
Proof. exact (fun dbg ps host path ports H => clear_file_typed dbg ps H host path ports). Qed.

(** ... and [Collection::clear_file] removes exactly the typed key from the file cache of the
    designated host ([""] / ["default"]: the default host; else the host of that name) and nothing
    else: [file_cached] afterwards, for EVERY host name and EVERY key. *)
Theorem clear_file_removes_exactly : forall (host path : str) (c : collection) (name key : str),
  file_cached (snd (clear_file_coll host path c)) name key
  = file_cached c name key &&
    negb (match file_target c host with Some n => beq n name && beq path key | None => false end).
Proof. exact clear_file_exact. Qed.

(** [kvarnctl clear response <host> <response>]: the response is parsed by http's path-and-query
    scanner ([uri_parts], transcribed and run against the real one); an invalid one is an [error]
    without effect; otherwise every port's collection is what [clear_page(host, uri)] makes of it. *)
Theorem clear_response_sees_typed_target : forall (dbg : str -> str) (ps : plugins (list collection))
    (host response : str) (ports : list collection),
  lookup_plugin (B "clear") ps = Some (clear_hosts_plugin dbg) ->
  all_scalar host = true -> all_scalar response = true ->
  let res := handle ps (utf8_encode (client_message (B "clear") [(B "response" : str); host; response])) ports in
  match uri_parts (utf8_encode response) with
  | None => snd res = ports /\ hr_close (fst res) = false /\ starts_with (B "error") (hr_data (fst res)) = true
  | Some (p, q) =>
      let query := match q with Some q' => q' | None => [] end in
      let found := existsb (fun c => fst (fst (clear_page_coll host p query c))) ports in
      let cleared := existsb (fun c => snd (fst (clear_page_coll host p query c))) ports in
      snd res = map (fun c => snd (clear_page_coll host p query c)) ports /\
      hr_close (fst res) = false /\
      starts_with (B "ok") (hr_data (fst res)) = found && cleared /\
      starts_with (B "error") (hr_data (fst res)) = negb (found && cleared)
  end.
Proof. exact (fun dbg ps host response ports H => clear_response_typed dbg ps H host response ports). Qed.

(** [clear_page] removes exactly the two keys of the typed path (with and without its query) from the
    response cache of the designated host, and nothing else. *)
Theorem clear_response_removes_exactly : forall (host : str) (p q : bytes) (c : collection) (name : str) (k : rkey),
  page_cached (snd (clear_page_coll host p q c)) name k
  = page_cached c name k &&
    negb (match page_target c host with
          | Some n => beq n name && (rkey_eqb (RPathQuery p q) k || rkey_eqb (RPath p) k)
          | None => false
          end).
Proof. exact clear_page_exact. Qed.

(** A host that is named (neither [""] nor ["default"]) designates the host of exactly that name. *)
Theorem named_host_is_the_typed_one : forall (c : collection) (host n : str),
  is_empty host || beq host (B "default") = false ->
  (file_target c host = Some n \/ page_target c host = Some n) -> n = host.
Proof. exact named_target_is_typed. Qed.

(** The instance without ports of the sequential sessions: [clear_plugin] (above) is this plugin on the
    empty list of ports. *)
Theorem clear_without_ports : forall (dbg : str -> str) (args : list str),
  fst (clear_hosts_plugin dbg args [])
  = fst (clear_plugin (fun r => match uri_parts (utf8_encode r) with Some _ => true | None => false end) args tt).
Proof. exact clear_portless. Qed.

(** The real [kvarnctl] ([request] and the end of [main], ctl/src/main.rs): [kvarnctl ping args...]
    prints the arguments joined by one space and a newline and exits with 0. *)
Theorem kvarnctl_ping_prints : forall (S : Type) (ps : plugins S) (args : list str) (s : S),
  lookup_plugin (B "ping") ps = Some ping_plugin ->
  forallb all_scalar args = true ->
  client_outcome (Data (hr_data (fst (handle ps (utf8_encode (client_message (B "ping") args)) s))))
  = (0, utf8_encode (join_sp args) ++ [c_newline]).
Proof. exact kvarnctl_ping. Qed.

(** For every request and every plugin table: kvarnctl's exit status is 6 when the reply is not UTF-8,
    else 0 exactly for a plugin's [Ok] and 1 (and nothing printed) for everything else -- not UTF-8
    request, unknown command, plugin error. *)
Theorem kvarnctl_exit_status : forall (S : Type) (ps : plugins S) (req : bytes) (s : S),
  let d := hr_data (fst (handle ps req s)) in
  (utf8_decode d = None -> client_outcome (Data d) = (6, [])) /\
  (utf8_decode d <> None ->
     (classify S ps req s = CPluginOk -> fst (client_outcome (Data d)) = 0) /\
     (classify S ps req s <> CPluginOk -> client_outcome (Data d) = (1, []))).
Proof. exact kvarnctl_exit. Qed.

(** The socket FILE is removed while the instance runs (a tmp cleaner): the listener notices, nobody
    can connect meanwhile, and after the re-listen the state is exactly what it was -- every pending
    connection, the plugins' state, and a listener that accepts ([accept_never_blocked]). *)
Theorem socket_survives_unlink : forall (S : Type) (ps : plugins_chk S) (blocked : bytes -> S -> bool)
    (env_step : N -> S -> S * bool) (ack : S -> S) (st : lts_state S),
  l_listener st = Listening ->
  let st1 := lstep ps blocked env_step ack st EUnlink in
  l_listener st1 = Unlinked /\ l_env st1 = l_env st /\ l_conns st1 = l_conns st /\
  lstep ps blocked env_step ack st1 ERelisten = st.
Proof. exact unlink_relisten. Qed.

Theorem unlinked_refuses_then_accepts_again : forall (S : Type) (ps : plugins_chk S) (blocked : bytes -> S -> bool)
    (env_step : N -> S -> S * bool) (ack : S -> S) (st : lts_state S) (k : N),
  l_listener st = Unlinked -> conn_get k (l_conns st) = None ->
  conn_get k (l_conns (lstep ps blocked env_step ack st (EConnect k))) = Some PRefused /\
  l_listener (lstep ps blocked env_step ack st ERelisten) = Listening /\
  l_env (lstep ps blocked env_step ack st ERelisten) = l_env st /\
  l_conns (lstep ps blocked env_step ack st ERelisten) = l_conns st.
Proof. exact unlinked_refuses_then_accepts. Qed.

(** Once a response asked to close (or the instance shuts down) nobody listens again, whatever
    happens afterwards -- in particular a re-listen that was under way does not revive the socket
    (the [true] message is not lost in the [try_recv] loop). *)
Theorem closed_listener_is_final : forall (S : Type) (ps : plugins_chk S) (blocked : bytes -> S -> bool)
    (env_step : N -> S -> S * bool) (ack : S -> S) (evs : list event) (st : lts_state S),
  l_listener st = Closed -> l_listener (lrun ps blocked env_step ack st evs) = Closed.
Proof. exact closed_final. Qed.

(** The same at the moment it matters most: a request whose response closes, handled in ANY state of
    the listener -- in particular [Unlinked], between the removal of the socket file and the re-listen
    -- is answered on its connection, and from then on nobody listens and every new connection is
    refused, whatever follows (also the [ERelisten] that was under way). *)
Theorem closing_response_is_final : forall (S : Type) (ps : plugins_chk S) (blocked : bytes -> S -> bool)
    (env_step : N -> S -> S * bool) (ack : S -> S) (st : lts_state S) (k : N) (req : bytes)
    (hr : handler_response) (s' : S) (evs : list event),
  conn_get k (l_conns st) = Some (PComplete req) -> blocked req (l_env st) = false ->
  handle_chk ps req (l_env st) = Ok (hr, s') -> hr_close hr = true ->
  let st1 := lstep ps blocked env_step ack st (EHandle k) in
  conn_get k (l_conns st1) = Some (PReplied (hr_data hr)) /\
  l_listener (lrun ps blocked env_step ack st1 evs) = Closed /\
  forall j, conn_get j (l_conns (lrun ps blocked env_step ack st1 evs)) = None ->
    conn_get j (l_conns (lstep ps blocked env_step ack (lrun ps blocked env_step ack st1 evs) (EConnect j))) = Some PRefused.
Proof. exact closing_response_final. Qed.

(** ... and a close from outside the socket ([Manager::shutdown]) in any state of the listener. *)
Theorem outside_close_is_final : forall (S : Type) (ps : plugins_chk S) (blocked : bytes -> S -> bool)
    (env_step : N -> S -> S * bool) (ack : S -> S) (st : lts_state S) (e : N) (evs : list event),
  snd (env_step e (l_env st)) = true ->
  l_listener (lrun ps blocked env_step ack (lstep ps blocked env_step ack st (EEnv e)) evs) = Closed.
Proof. exact env_close_final. Qed.

(** ---- the accept loop itself ([loop_step]: position of the loop, the channel's messages in order,
    the socket file), of which [Listening | Unlinked | Closed] is the abstraction [loop_listener] ----

    In EVERY state: a close that has been sent (or a loop that has stopped) stays so, whatever is
    sent, removed or received afterwards. *)
Theorem accept_loop_close_is_final : forall (evs : list loop_event) (st : loop_state),
  close_pending st = true -> close_pending (loop_run st evs) = true.
Proof. exact loop_close_final. Qed.

(** In EVERY state with a close pending the loop has stopped after at most two steps of its own
    (receive the watcher's [false]; find the close while emptying the channel after the pause),
    whatever happens in between; then nobody can connect. *)
Theorem accept_loop_stops_after_close : forall (st : loop_state) (evs : list loop_event),
  close_pending st = true -> (2 <= length (filter is_floop evs))%nat ->
  lp_pc (loop_run st evs) = LStopped /\ connectable (loop_run st evs) = false.
Proof. exact loop_close_stops. Qed.

(** A close that is pending while the loop pauses (listener dropped, path not yet bound again) or
    has stopped: the loop never gets back to [accept()] -- a closed instance does not bind the
    control socket again.  (This is the [if close { break 'outer }] of the emptying loop.) *)
Theorem accept_loop_never_rebinds_after_close : forall (st : loop_state) (evs : list loop_event),
  close_pending st = true -> lp_pc st <> LAccept ->
  lp_pc (loop_run st evs) <> LAccept /\ connectable (loop_run st evs) = false.
Proof. exact loop_never_rebinds. Qed.

(** The reachable states keep the invariant ... *)
Theorem accept_loop_invariant : forall evs : list loop_event, loop_inv (loop_run loop_init evs).
Proof. intros evs. apply loop_inv_run. exact loop_inv_init. Qed.

(** ... under which the re-bind after the pause always succeeds (no close pending) ... *)
Theorem accept_loop_rebinds : forall st : loop_state,
  loop_inv st -> lp_pc st = LPause -> close_pending st = false ->
  loop_step st FLoop = {| lp_pc := LAccept; lp_chan := []; lp_file := true |}.
Proof. exact loop_rebind_succeeds. Qed.

(** ... and every step of the loop is zero or one step of the coarse listener of the theorems above
    ([EUnlink] for the removal, [ERelisten] for the re-bind, a closing event when a close is SENT). *)
Theorem accept_loop_refines_listener : forall (st : loop_state) (ev : loop_event),
  loop_inv st ->
  l_listener (fold_left coarse_step (coarse_events st ev) (coarse_of st)) = loop_listener (loop_step st ev).
Proof. exact loop_simulates. Qed.

(** A failed [accept()] (EMFILE: the process is out of file descriptors) changes nothing ... *)
Theorem accept_error_is_harmless : forall (S : Type) (ps : plugins_chk S) (blocked : bytes -> S -> bool)
    (env_step : N -> S -> S * bool) (ack : S -> S) (st : lts_state S),
  lstep ps blocked env_step ack st EAcceptErr = st.
Proof. exact accept_error_harmless. Qed.

(** ... whereas in the code before the repair ([lstep_v0]) one failed [accept()] ended the control
    socket for the rest of the process, without any closing request: the statement "the socket still
    answers the next request until a command that closes it" was false (reproduced on the real code:
    known-findings.txt, fixed). *)
Theorem accept_error_ended_the_socket_refuted :
  exists (st : lts_state fx_state), l_listener st = Listening /\ l_conns st = [] /\
    forall evs, l_listener (lrun_v0 fx_plugins_chk fx_blocked fx_env_step fx_ack
                              (lstep_v0 fx_plugins_chk fx_blocked fx_env_step fx_ack st EAcceptErr) evs) = Closed.
Proof.
  exists (lts_init fx_init). split; [reflexivity|]. split; [reflexivity|].
  intros evs. apply accept_error_v0_final. reflexivity.
Qed.

(** The task of a connection whose client has gone away (it closed the connection before the reply
    could be written) does what it does for a client that still reads: the plugin's effect, the
    [close] message, and the [post_send] callback. *)
Theorem post_send_runs_without_client : forall (S : Type) (ps : plugins_chk S) (blocked : bytes -> S -> bool)
    (env_step : N -> S -> S * bool) (ack : S -> S) (st : lts_state S) (k : N) (req : bytes)
    (hr : handler_response) (s' : S),
  conn_get k (l_conns st) = Some (PGone req false) ->
  blocked req (l_env st) = false ->
  handle_chk ps req (l_env st) = Ok (hr, s') ->
  let st1 := lstep ps blocked env_step ack st (EHandle k) in
  l_env st1 = (if response_ack ps req (l_env st) then ack s' else s') /\
  l_listener st1 = (if hr_close hr then Closed else l_listener st) /\
  conn_get k (l_conns st1) = Some (PGone req true) /\
  l_env st1 = l_env (run_task ps blocked ack true st k req true) /\
  l_listener st1 = l_listener (run_task ps blocked ack true st k req true).
Proof. exact task_without_client. Qed.

(** [kvarnctl shutdown] interrupted after it sent the request: the instance still finishes shutting
    down ([Manager::wait] resolves), in every state in which no acknowledgement was due before. *)
Theorem shutdown_without_client_finishes : forall (st : lts_state fx_state) (k : N),
  conn_get k (l_conns st) = Some (PGone (B "shutdown") false) ->
  fx_acks (l_env st) = 0 ->
  fx_finished (l_env (fx_lstep st (EHandle k))) = true /\ l_listener (fx_lstep st (EHandle k)) = Closed.
Proof. exact fx_shutdown_without_client. Qed.

(** Before the repair ([lstep_v0]: a failed write ended the task before [post_send]) that history left
    the instance shut down -- not listening, control socket closed -- but never finished, whatever
    happened afterwards: the process did not exit (reproduced on the real code, fixed). *)
Theorem post_send_skipped_refuted :
  exists evs, let st := lrun_v0 fx_plugins_chk fx_blocked fx_env_step fx_ack (lts_init fx_init) evs in
    fx_shutdown (l_env st) = true /\
    forall evs', fx_finished (l_env (lrun_v0 fx_plugins_chk fx_blocked fx_env_step fx_ack st evs')) = false.
Proof. exact fx_shutdown_hangs_v0. Qed.

(** The built-in [wait] before its repair ([fx_plugins_chk_v0]) was NOT total: a [wait] request accepted
    before a shutdown and handled after it made the plugin panic ([sender.send(()).unwrap()] on a closed
    channel), the connection was dropped with an empty reply -- neither [ok] nor [error] (reproduced on
    the real code, fixed); with the repaired plugin the same history ends with [ok]. *)
Theorem wait_after_shutdown_refuted :
  let evs := [EConnect 1; EConnect 2; ESend 2 (B "shutdown"); EFin 2; EHandle 2; ESend 1 (B "wait"); EFin 1; EHandle 1] in
  conn_get 1 (l_conns (lrun fx_plugins_chk_v0 fx_blocked fx_env_step fx_ack (lts_init fx_init) evs)) = Some (PReplied []) /\
  conn_get 1 (l_conns (lrun fx_plugins_chk fx_blocked fx_env_step fx_ack (lts_init fx_init) evs)) = Some (PReplied (B "ok")) /\
  ~ plugins_total fx_plugins_chk_v0.
Proof. exact fx_wait_after_shutdown_v0. Qed.

(** Non-vacuity of the second strengthening. *)
Definition ex_coll : collection :=
  {| c_hosts := [ {| h_name := B "my host"; h_files := Some [B "/a b"; B "x"]; h_pages := Some [RPath (B "/p"); RPathQuery (B "/q") (B "x=1")] |};
                  {| h_name := B "other"; h_files := Some [B "/a b"]; h_pages := Some [RPath (B "/p")] |} ];
     c_default := Some (B "other") |}.
Example ex_clear_file :
  lookup_plugin (B "clear") hx_plugins = Some (clear_hosts_plugin debug_str) /\
  all_scalar (B "my host") = true /\ all_scalar (B "/a b") = true /\
  handle hx_plugins (utf8_encode (client_message (B "clear") [B "file"; B "my host"; B "/a b"])) [ex_coll]
  = ({| hr_data := B "ok cleared ""/a b"" from ""my host"""; hr_close := false |},
     [snd (clear_file_coll (B "my host") (B "/a b") ex_coll)]) /\
  file_cached (snd (clear_file_coll (B "my host") (B "/a b") ex_coll)) (B "my host") (B "/a b") = false /\
  file_cached (snd (clear_file_coll (B "my host") (B "/a b") ex_coll)) (B "my host") (B "x") = true /\
  file_cached (snd (clear_file_coll (B "my host") (B "/a b") ex_coll)) (B "other") (B "/a b") = true /\
  file_target ex_coll (B "my host") = Some (B "my host") /\ file_target ex_coll [] = Some (B "other") /\
  file_target ex_coll (B "nobody") = None.
Proof. repeat split; vm_compute; reflexivity. Qed.
Example ex_clear_response :
  uri_parts (B "/q?x=1#frag") = Some (B "/q", Some (B "x=1")) /\ uri_parts (B "/a b") = None /\
  uri_parts (B "?x") = Some (B "/", Some (B "x")) /\ uri_parts [] = Some ([], None) /\
  fst (fst (clear_page_coll (B "default") (B "/p") [] ex_coll)) = true /\
  page_cached (snd (clear_page_coll (B "default") (B "/p") [] ex_coll)) (B "other") (RPath (B "/p")) = false /\
  page_cached (snd (clear_page_coll (B "default") (B "/p") [] ex_coll)) (B "my host") (RPath (B "/p")) = true /\
  page_cached (snd (clear_page_coll (B "my host") (B "/q") (B "x=1") ex_coll)) (B "my host") (RPathQuery (B "/q") (B "x=1")) = false.
Proof. repeat split; vm_compute; reflexivity. Qed.
Example ex_kvarnctl :
  client_outcome (Data (B "ok ""a b"" """" c")) = (0, B "a b  c" ++ [10]) /\ client_outcome (Data (B "error 'x'")) = (1, []) /\
  client_outcome (Data [111; 107; 32; 255]) = (6, []) /\ client_outcome (Data []) = (5, []) /\
  client_outcome (Data (B "okay")) = (4, []) /\ client_outcome NoAnswer = (3, []) /\
  run_binary (XL [XL [x_str (B "ping"); XL [x_str (B "a b"); x_str []]]; XL [x_str (B "nope"); XL []]])
  = XL [XL [XN 0; XB (B "a b " ++ [10])]; XL [XN 1; XB []]].
Proof. repeat split; vm_compute; reflexivity. Qed.
Example ex_unlink :
  let st := lrun fx_plugins_chk fx_blocked fx_env_step fx_ack (lts_init fx_init) [EConnect 1; ESend 1 (B "ping a"); EUnlink] in
  l_listener st = Unlinked /\
  conn_get 2 (l_conns (fx_lstep st (EConnect 2))) = Some PRefused /\
  conn_get 1 (l_conns (lrun fx_plugins_chk fx_blocked fx_env_step fx_ack st [ERelisten; EFin 1; EHandle 1; EConnect 3]))
  = Some (PReplied (B "ok ""a""")) /\
  conn_get 3 (l_conns (lrun fx_plugins_chk fx_blocked fx_env_step fx_ack st [ERelisten; EFin 1; EHandle 1; EConnect 3])) = Some (POpen []).
Proof. repeat split; vm_compute; reflexivity. Qed.
(** the socket file is removed, then -- nobody is bound to the path -- connection 1's [t-close] is
    completed and answered, connection 2's [ping] too; the re-listen that was under way finds the
    instance closed.  In the accept loop: remove, the watcher's [false], the loop pauses, the close
    arrives during the pause, the loop wakes up and stops; with the emptying loop's test negated
    ([loop_step_neg], NOT the code) the same history ends with the path bound again. *)
Example ex_close_while_unlinked :
  let st := lrun fx_plugins_chk fx_blocked fx_env_step fx_ack (lts_init fx_init)
              [EConnect 1; ESend 1 (B "t-close"); EConnect 2; ESend 2 (B "ping a"); EUnlink] in
  l_listener st = Unlinked /\
  conn_get 1 (l_conns (lrun fx_plugins_chk fx_blocked fx_env_step fx_ack st [EFin 1])) = Some (PComplete (B "t-close")) /\
  handle_chk fx_plugins_chk (B "t-close") (l_env st) = Ok ({| hr_data := B "ok closing"; hr_close := true |}, l_env st) /\
  l_listener (lrun fx_plugins_chk fx_blocked fx_env_step fx_ack st [EFin 1; EHandle 1; ERelisten]) = Closed /\
  run_conc (XL [XL [XN 0; XN 1]; XL [XN 1; XN 1; XB (B "t-close")]; XL [XN 0; XN 2]; XL [XN 1; XN 2; XB (B "ping a")];
                XL [XN 15; XN 0]; XL [XN 11; XN 150]; XL [XN 2; XN 2]; XL [XN 3; XN 2]; XL [XN 2; XN 1]; XL [XN 3; XN 1];
                XL [XN 16; XN 0]; XL [XN 7; XN 3; XB (B "ping")]])
  = XL [XL [XN 2; XL [XN 0; XB (B "ok ""a""")]]; XL [XN 1; XL [XN 0; XB (B "ok closing")]]; XL [XN 0; XL [XN 7]]; XL [XN 3; XL [XN 1]]] /\
  run_conc (XL [XL [XN 0; XN 2]; XL [XN 1; XN 2; XB (B "ping a")]; XL [XN 15; XN 0]; XL [XN 2; XN 2]; XL [XN 3; XN 2];
                XL [XN 16; XN 0]; XL [XN 7; XN 3; XB (B "ping")]])
  = XL [XL [XN 2; XL [XN 0; XB (B "ok ""a""")]]; XL [XN 0; XL [XN 6]]; XL [XN 3; XL [XN 0; XB (B "ok")]]].
Proof. repeat split; vm_compute; reflexivity. Qed.
Example ex_accept_loop :
  let evs := [FRemove; FWatch; FLoop; FClose; FLoop; FLoop] in
  close_pending (loop_run loop_init [FRemove; FWatch; FLoop; FClose]) = true /\
  lp_pc (loop_run loop_init [FRemove; FWatch; FLoop; FClose]) = LPause /\
  lp_pc (loop_run loop_init evs) = LStopped /\
  loop_run loop_init [FRemove; FWatch; FLoop; FLoop] = loop_init /\
  loop_listener (loop_run loop_init [FRemove; FWatch; FLoop]) = Unlinked /\
  coarse_events (loop_run loop_init [FRemove; FWatch; FLoop]) FLoop = [ERelisten] /\
  connectable (fold_left loop_step_neg evs loop_init) = true /\ lp_chan (fold_left loop_step_neg evs loop_init) = [].
Proof. repeat split. Qed.
Example ex_post_send :
  let st := lrun fx_plugins_chk fx_blocked fx_env_step fx_ack (lts_init fx_init) [EConnect 1; ESend 1 (B "shutdown"); EDrop 1] in
  conn_get 1 (l_conns st) = Some (PGone (B "shutdown") false) /\ fx_acks (l_env st) = 0 /\
  fx_blocked (B "shutdown") (l_env st) = false /\
  response_ack fx_plugins_chk (B "shutdown") (l_env st) = true /\
  response_ack fx_plugins_chk (B "shutdown no-wait") (l_env st) = false /\
  fx_finished (l_env (fx_lstep st (EHandle 1))) = true /\
  fx_finished (l_env (lstep_v0 fx_plugins_chk fx_blocked fx_env_step fx_ack st (EHandle 1))) = false /\
  run_conc (XL [XL [XN 0; XN 2]; XL [XN 1; XN 2; XB (B "shutdown")]; XL [XN 6; XN 2]; XL [XN 14; XN 0]; XL [XN 7; XN 3; XB (B "ping")]])
  = XL [XL [XN 0; XL [XN 8]]; XL [XN 3; XL [XN 1]]] /\
  run_reload (XL [XL [XN 7; XN 1; XB (B "reload x")]; XL [XN 7; XN 2; XB (B "reload")]])
  = XL [XL [XN 1; XL [XN 0; XB (B "error no arguments were expected")]];
        XL [XN 2; XL [XN 0; XB (B "ok successfully reloaded Kvarn")]]; XL [XN 99; XN 1]].
Proof. repeat split; vm_compute; reflexivity. Qed.
Example ex_typed_args :
  lookup_plugin (B "t-args") fx_plugins <> None /\ all_scalar (B "t-args") = true /\
  forallb all_scalar [[]; B "a ""b"" \c"; [8364]] = true.
Proof. split; [vm_compute; discriminate|split; vm_compute; reflexivity]. Qed.

(** Non-vacuity: concrete instances. *)
Example ex_slice_straddle :
  str_slice_chk 0 64 (repeat 97 63 ++ [195; 182; 122]) = Panic /\
  str_slice_chk 0 63 (repeat 97 63 ++ [195; 182; 122]) = Ok (repeat 97 63) /\
  str_slice_chk 0 65 (repeat 97 63 ++ [195; 182; 122]) = Ok (repeat 97 63 ++ [195; 182]) /\
  str_slice_chk 0 67 (repeat 97 63 ++ [195; 182; 122]) = Panic /\
  str_remove_chk 0 [] = Panic /\ str_remove_chk 1 [195; 182] = Panic /\ str_remove_chk 0 [195; 182; 122] = Ok [122].
Proof. repeat split; vm_compute; reflexivity. Qed.
Example ex_reply_total :
  handle_chk fx_plugins_chk (repeat 97 63 ++ [195; 182; 122]) fx_init
  = Ok ({| hr_data := msg_not_found; hr_close := false |}, fx_init).
Proof. vm_compute. reflexivity. Qed.
(** connection 1 waits for the shutdown, 2 is connected and silent, 3 has sent half a request:
    connection 4's [ping] is answered, and so is an unknown command; then 1 at the shutdown *)
Example ex_never_wedged :
  let st := lrun fx_plugins_chk fx_blocked fx_env_step fx_ack (lts_init fx_init)
              [EConnect 1; ESend 1 (B "wait"); EFin 1; EHandle 1; EConnect 2; EConnect 3; ESend 3 (B "pi");
               EConnect 4; ESend 4 (B "ping x"); EFin 4] in
  conn_get 1 (l_conns st) = Some (PComplete (B "wait")) /\ fx_blocked (B "wait") (l_env st) = true /\
  conn_get 4 (l_conns st) = Some (PComplete (B "ping x")) /\ fx_blocked (B "ping x") (l_env st) = false /\
  conn_get 4 (l_conns (fx_lstep st (EHandle 4))) = Some (PReplied (B "ok ""x""")) /\
  l_listener st = Listening /\
  conn_get 1 (l_conns (lrun fx_plugins_chk fx_blocked fx_env_step fx_ack st [EEnv 0; EHandle 1])) = Some (PReplied (B "ok")).
Proof. repeat split; vm_compute; reflexivity. Qed.
Example ex_conc :
  run_conc (XL [XL [XN 8; XN 1; XB (B "wait")]; XL [XN 7; XN 2; XB (B "ping a")]; XL [XN 7; XN 3; XB (B "nope")];
                XL [XN 9; XN 1]; XL [XN 4; XN 0]; XL [XN 3; XN 1]; XL [XN 7; XN 4; XB (B "ping")]])
  = XL [XL [XN 2; XL [XN 0; XB (B "ok ""a""")]]; XL [XN 3; XL [XN 0; XB msg_not_found]]; XL [XN 1; XL [XN 4]];
        XL [XN 1; XL [XN 0; XB (B "ok")]]; XL [XN 4; XL [XN 1]]].
Proof. vm_compute. reflexivity. Qed.

(** Non-vacuity of the first group. *)
Example ex_roundtrip_empty : quoted_str_split (join_sp (map encode_quoted_str [[]; B "a b"; []; B "\"])) = [[]; B "a b"; []; B "\"].
Proof. vm_compute. reflexivity. Qed.
Example ex_wire : join_sp (map encode_quoted_str [[]; B "a b"; [34; 92]]) = [34; 34; 32; 34; 97; 32; 98; 34; 32; 34; 92; 34; 92; 92; 34].
Proof. vm_compute. reflexivity. Qed.
Example ex_client : client_message (B "clear") [B "file"; B "my host"; B "/a b"] = [34;99;108;101;97;114;34;32;34;102;105;108;101;34;32;34;109;121;32;104;111;115;116;34;32;34;47;97;32;98;34].
Proof. vm_compute. reflexivity. Qed.
Example ex_plain : B "shutdown" <> [] /\ forallb plain_char (B "shutdown") = true.
Proof. split; [discriminate|vm_compute; reflexivity]. Qed.
Example ex_invents_nothing :
  quoted_str_split [112; 32; 34; 97; 32; 92; 98] = [[112]; [97; 32; 98]].
Proof. vm_compute. reflexivity. Qed.
Example ex_compose :
  let a := [112; 32; 39; 97; 32; 98; 39; 32; 92; 92] in
  quotes (run_state split_init a) = QNo /\ escaped (run_state split_init a) = 0 /\
  quoted_str_split a = [[112]; [97; 32; 98]; [92]].
Proof. repeat split; vm_compute; reflexivity. Qed.
Example ex_escaped : escaped (run_state split_init [92]) = 1.
Proof. vm_compute. reflexivity. Qed.
Example ex_utf8 : all_scalar [97; 233; 8364; 128512; 1114111] = true
  /\ utf8_encode [97; 233; 8364; 128512] = [97; 195; 169; 226; 130; 172; 240; 159; 152; 128].
Proof. split; vm_compute; reflexivity. Qed.
Example ex_frame : frame (B "error") (Some (B "x")) = B "error x" /\ frame (B "ok") None = B "ok" /\ frame (B "ok") (Some []) = B "ok".
Proof. repeat split; vm_compute; reflexivity. Qed.
Example ex_ping :
  lookup_plugin (B "ping") fx_plugins = Some ping_plugin /\ forallb all_scalar [[]; [8364; 32; 34]] = true /\
  fst (handle fx_plugins (utf8_encode (client_message (B "ping") [[]; [8364; 32; 34]])) fx_init)
  = {| hr_data := B "ok " ++ [34; 34; 32; 34; 226; 130; 172; 32; 92; 34; 34]; hr_close := false |}.
Proof. repeat split; vm_compute; reflexivity. Qed.
Example ex_classes :
  classify _ fx_plugins [255] fx_init = CBinary /\ classify _ fx_plugins (B "nope") fx_init = CUnknown /\
  classify _ fx_plugins (B "t-fail x") fx_init = CPluginError /\ classify _ fx_plugins (B "t-args x") fx_init = CPluginOk /\
  classify _ fx_plugins (B "shutdown now") fx_init = CPluginError.
Proof. repeat split; vm_compute; reflexivity. Qed.
Example ex_status : utf8_decode (frame (B "error") (Some (B "'a b'"))) = Some (B "error 'a b'").
Proof. vm_compute. reflexivity. Qed.
Example ex_persists :
  no_close _ fx_plugins fx_init [B "ping a"; [255]; B "nope"; B "t-fail"; B "t-count"] = true.
Proof. vm_compute. reflexivity. Qed.
Example ex_until_close :
  no_close _ fx_plugins fx_init [B "ping a"; B "t-count"] = true /\
  hr_close (fst (handle fx_plugins (B "shutdown no-wait") (snd (fst (run fx_plugins (Listening, fx_init) [B "ping a"; B "t-count"]))))) = true /\
  snd (run fx_plugins (Listening, fx_init) [B "t-count"; B "t-close"; B "ping x"])
  = [Data (B "ok 0"); Data (B "ok closing"); NoAnswer].
Proof. repeat split; vm_compute; reflexivity. Qed.
Example ex_clear : lookup_plugin (B "clear") fx_plugins = Some (clear_plugin fx_uri_ok) /\ all_scalar (B "my ""host""") = true.
Proof. split; vm_compute; reflexivity. Qed.
