(** C17 — access-guarding file directives. Statements only. *)
From KV Require Import Guards.
Open Scope N_scope.
