(** C17 — access-guarding file directives hold whatever the cache contains. Statements only. *)
From KV Require Import Guards GuardsProofs.
From KV Require PathSan PresentLine.
Open Scope N_scope.

(** For every file system [fs], error pages [errpage], template engine [tmpl] and byte string [secret] such
    that the secret occurs in [fs] only inside guarded files (named [*.private], or whose [!> ] line has [hide] or
    [allow-ips]), not in the error pages (which may carry a [!> ] line of their own), is not introduced by a
    template ([!> tmpl], also on an error page) and is not part of the CORS denial text:
    for EVERY history of requests, page clears, clear-all and waits from the empty cache — any raw
    (percent-encoded) paths, queries, methods, headers (Accept-Encoding, Range, If-Modified-Since, Origin, vary
    headers), client addresses (every IPv4 and IPv6 address), in any order — with the response cache on or off,
    any status filter of the host, any content negotiation outcome, any vary rules, any URI rewriting [prime] and
    any internal override URI [override] by Prime extensions (identity / none on a host without them; "Expand . and /"
    and the CORS denial on a default host; kvarn hands the client address to the pipeline beside
    the request, a Prime extension cannot change it), whether or not the later repairs of the cache layer are in
    ([fix_ovkey] ... [fix_ims]; the admission test of [handle_vary_missing] is), a reply whose body sent or identity
    body contains the secret answers a request whose (rewritten) decoded path is a file marked [allow-ips], neither
    hidden nor private, and whose client address is listed by every [allow-ips] directive of that file. *)
Theorem guarded_content_confined :
  forall (fix_errline cors : bool) (fs : bytes -> option bytes) (errpage : N -> bytes)
         (tmpl : list bytes -> bytes -> bytes) (secret : bytes),
    (forall t c, fs t = Some c -> contains_sub secret c = true -> guarded t c = true) ->
    (forall s, contains_sub secret (errpage s) = false) ->
    (forall args b, contains_sub secret (tmpl args b) = true -> contains_sub secret b = true) ->
    (cors = true -> contains_sub secret (ps_body cors_pst) = false) ->
  forall cache_on ims_on fix_ovkey fix_clear fix_svary fix_qmkey fix_ims sfilter parse_ims prime override refuses
         vary_tuple vary_header clear_alias now ops,
    Forall2 (reply_ok fs secret prime) ops
      (run_g true true fix_errline cors fs errpage tmpl cache_on ims_on fix_ovkey fix_clear fix_svary fix_qmkey fix_ims
             sfilter parse_ims prime override refuses vary_tuple vary_header clear_alias [] now ops).
Proof. exact guarded_content_confined_lemma. Qed.

(** [reply_ok] spelled out: never for [hide] / [*.private], only to listed addresses for [allow-ips] *)
Theorem reply_ok_meaning : forall fs secret prime r0 rp lg,
  reply_ok fs secret prime (XReq r0) (XbReply rp lg) -> let r := prime r0 in
  contains_sub secret (rx_body rp) = true \/ contains_sub secret (rx_identity rp) = true ->
  exists t c, served_file (rq_path r) = Ok (Some t) /\ fs t = Some c /\
              is_private t = false /\ has_name N_HIDE (entries_of c) = false /\
              has_name N_ALLOW (entries_of c) = true /\ listed (rq_addr r) (entries_of c) = true.
Proof. exact reply_ok_meaning_lemma. Qed.

(** a byte range of a body that does not contain the secret does not contain it (Range is applied
    to the reply of [handle_cache] afterwards) *)
Theorem range_of_clean_body_clean : forall secret lo hi body,
  contains_sub secret (slice lo hi body) = true -> contains_sub secret body = true.
Proof. exact contains_sub_slice. Qed.

(** ... in every history: whatever byte range of whatever reply is sent, it contains the secret only for a permitted request *)
Theorem ranged_reply_confined :
  forall (fix_errline cors : bool) (fs : bytes -> option bytes) (errpage : N -> bytes)
         (tmpl : list bytes -> bytes -> bytes) (secret : bytes),
    (forall t c, fs t = Some c -> contains_sub secret c = true -> guarded t c = true) ->
    (forall s, contains_sub secret (errpage s) = false) ->
    (forall args b, contains_sub secret (tmpl args b) = true -> contains_sub secret b = true) ->
    (cors = true -> contains_sub secret (ps_body cors_pst) = false) ->
  forall cache_on ims_on fix_ovkey fix_clear fix_svary fix_qmkey fix_ims sfilter parse_ims prime override refuses
         vary_tuple vary_header clear_alias now ops,
    Forall2 (ranged_ok fs secret prime) ops
      (run_g true true fix_errline cors fs errpage tmpl cache_on ims_on fix_ovkey fix_clear fix_svary fix_qmkey fix_ims
             sfilter parse_ims prime override refuses vary_tuple vary_header clear_alias [] now ops).
Proof. exact ranged_reply_confined_lemma. Qed.

(** every percent-encoded spelling: any subset of positions encoded, each hex digit in either case,
    denotes the same decoded path (a literal '%' has to be encoded itself) ... *)
Theorem spelling_decodes : forall mask d,
  Forall (fun c => c < 256) d -> mask_ok mask d = true ->
  PathSan.percent_decode (pct_encode mask d) = d.
Proof. exact pct_encode_decodes. Qed.

(** ... and the file that is read as well as the file extension used for the [present_file] lookup
    depend on the decoded path only *)
Theorem ext_lookup_spelling_independent : forall p p' t,
  PathSan.percent_decode p = PathSan.percent_decode p' -> served_file p = Ok (Some t) ->
  served_file p' = Ok (Some t) /\ private_hit true p = is_private t /\ private_hit true p' = is_private t.
Proof. exact ext_lookup_spelling_independent_lemma. Qed.

(** ... which is the request path decoded exactly ONCE ([%252E] is not a dot) *)
Theorem single_decode_only : forall p t,
  served_file p = Ok (Some t) -> PathSan.percent_decode p = 47 :: t.
Proof. exact single_decode_only_lemma. Qed.

(** an [allow-ips] argument lists exactly the address it parses to ([IpAddr::from_str]); the address compared is the one
    kvarn's accept loop hands to the pipeline ([rq_addr]: no request header is consulted), and an IPv4 client matches
    no IPv6 argument and vice versa (an IPv4-mapped client [::ffff:a.b.c.d] is not on an IPv4 list) *)
Theorem listed_is_exact : forall addr arg,
  arg_matches addr arg = true <-> parse_ip arg = Some (ip_of_addr addr).
Proof. exact listed_is_exact_lemma. Qed.
Theorem address_families_disjoint : forall addr arg,
  arg_matches addr arg = true ->
  match parse_ip arg with
  | Some (IPv4 _) => addr < V6_BASE
  | Some (IPv6 _) => V6_BASE <= addr
  | None => False
  end.
Proof. exact address_families_disjoint_lemma. Qed.

(** [allow-ips] forces the server cache preference None for every answer of the file, whatever
    [cache] directives stand on the line, so no answer of such a file is ever admitted to the cache *)
Theorem allow_ips_never_stored :
  forall (fix_errline cors : bool) (fs : bytes -> option bytes) (errpage : N -> bytes) (tmpl : list bytes -> bytes -> bytes)
         r ov t c cache_on sfilter,
    served_file (rq_path r) = Ok (Some t) -> fs t = Some c -> is_hidden t c = false -> is_allow_ips c = true ->
    get_or_head (rq_method r) = true -> (cors && is_cors_fail ov) = false ->
    f_spref (layer_b true true fix_errline cors fs errpage tmpl r ov true) = SP_NONE /\
    may_store_x cache_on sfilter (rq_method r) (plain (layer_b true true fix_errline cors fs errpage tmpl r ov true)) = false.
Proof. exact allow_ips_never_stored_lemma. Qed.

(** "the answer is the host's 404", below the cache: for a GET/HEAD of a readable file that is hidden / private, or
    marked [allow-ips] without listing the client address, the answer has status 404 and the body of the host's
    404 page as a client sees it for a path that does not exist ([errors/404.html] without its [!> ] line, else the
    hard-coded page), whatever the spelling of the path (the 404 page is not a template and the file's line has
    no [tmpl] directive) *)
Theorem guarded_answer_is_404 :
  forall (cors : bool) (fs : bytes -> option bytes) (errpage : N -> bytes) (tmpl : list bytes -> bytes -> bytes),
    first_tmpl (entries_of (errpage 404)) = None ->
  forall r ov t c,
    served_file (rq_path r) = Ok (Some t) -> fs t = Some c -> get_or_head (rq_method r) = true ->
    (cors && is_cors_fail ov) = false -> has_name N_TMPL (entries_of c) = false ->
    is_hidden t c = true \/ listed (rq_addr r) (entries_of c) = false ->
    f_status (layer_b true true true cors fs errpage tmpl r ov true) = 404 /\
    f_body (layer_b true true true cors fs errpage tmpl r ov true) = host_404_body errpage.
Proof. exact guarded_answer_is_404_lemma. Qed.

(** "the answer is the host's 404", above the cache, for EVERY history (requests of any clients, clears, waits, from
    the empty cache; cache on or off; any negotiation, vary rules, rewriting Prime extensions; overrides are internal
    URIs ["/./..."]; no error page is a [!> tmpl] template; the status filter keeps 400 and 416 out of the cache as
    the default one does): the reply to a request that has to be refused — it passes sanitize, is not overridden,
    its (rewritten) path names a readable file that is hidden / private, or marked [allow-ips] without listing the
    client's address — is the host's 404 (status 404; body sent and identity body are the 404 page as served for a path
    that does not exist), or 304 Not Modified for a conditional request when that 404 is in the cache, or 406 when the
    client accepts no representation.  In particular a cached answer of ANOTHER client is never used. *)
Theorem refused_reply_is_404 :
  forall (cors : bool) (fs : bytes -> option bytes) (errpage : N -> bytes) (tmpl : list bytes -> bytes -> bytes)
         (sfilter : N -> bool) (prime : request -> request) (override : request -> option (bytes * option bytes)),
    (forall s, has_name N_TMPL (entries_of (errpage s)) = false) ->
    sfilter 400 = true /\ sfilter 416 = true ->
    (forall r0 p q, override r0 = Some (p, q) -> starts_with INTERNAL p = true) ->
  forall cache_on ims_on fix_clear fix_svary fix_qmkey fix_ims parse_ims refuses vary_tuple vary_header clear_alias now ops,
    Forall2 (refused_ok fs errpage prime override) ops
      (run_g true true true cors fs errpage tmpl cache_on ims_on true fix_clear fix_svary fix_qmkey fix_ims
             sfilter parse_ims prime override refuses vary_tuple vary_header clear_alias [] now ops).
Proof. exact refused_reply_is_404_lemma. Qed.

(** ... and no history tells whether a hidden file exists: on a host whose error pages carry no [!> ] line, removing
    files that are hidden / private and whose line carries nothing but [hide] (and names that are not mounted)
    changes NO observation of any history from any cache content — status, headers, bodies, last-modified,
    cache hit or not — for every client, spelling, method, Range, Accept-Encoding outcome and configuration. *)
Theorem hidden_file_indistinguishable_from_absent :
  forall (cors : bool) (fs fs' : bytes -> option bytes) (errpage : N -> bytes) (tmpl : list bytes -> bytes -> bytes),
    (forall s, line_of (errpage s) = None) ->
    (forall x, fs' x = fs x \/ (fs' x = None /\ exists c, fs x = Some c /\ plain_hidden x c)) ->
  forall cache_on ims_on fix_ovkey fix_clear fix_svary fix_qmkey fix_ims sfilter parse_ims prime override refuses
         vary_tuple vary_header clear_alias c now ops,
    run_g true true true cors fs errpage tmpl cache_on ims_on fix_ovkey fix_clear fix_svary fix_qmkey fix_ims
          sfilter parse_ims prime override refuses vary_tuple vary_header clear_alias c now ops =
    run_g true true true cors fs' errpage tmpl cache_on ims_on fix_ovkey fix_clear fix_svary fix_qmkey fix_ims
          sfilter parse_ims prime override refuses vary_tuple vary_header clear_alias c now ops.
Proof. exact hidden_file_indistinguishable_lemma. Qed.

(** "whether or not ... file caches are enabled": the server with its file cache as state ([run_gf]: a map from the path
    text to the content or to "no such file"; [read::file] consults it, [read::file_cached] also fills it) — for every
    initial content of the file cache (also stale and negative entries), file cache on or off, and whatever reads fill
    it — is observed in every history exactly as the server without file cache whose files are what the server HOLDS
    for each path: the cache entry if there is one, else the disk. *)
Theorem file_cache_transparent :
  forall fix_ext fix_lock fix_errline cors on disk reads fc0
         cache_on ims_on fix_ovkey fix_clear fix_svary fix_qmkey fix_ims sfilter parse_ims prime override refuses
         vary_tuple vary_header clear_alias c now ops,
    let held := fc_view on disk fc0 in
    run_gf fix_ext fix_lock fix_errline cors on disk reads fc0 cache_on ims_on fix_ovkey fix_clear fix_svary fix_qmkey fix_ims
           sfilter parse_ims prime override refuses vary_tuple vary_header clear_alias c now ops =
    run_g fix_ext fix_lock fix_errline cors (fs_of held) (errpage_of held) (tmpl_of held) cache_on ims_on fix_ovkey fix_clear
          fix_svary fix_qmkey fix_ims sfilter parse_ims prime override refuses vary_tuple vary_header clear_alias c now ops.
Proof. exact file_cache_transparent_lemma. Qed.

(** ... hence the property with the file cache in the picture ("content of a file" = the content the server holds for it) *)
Theorem guarded_content_confined_with_file_cache :
  forall (fix_errline cors on : bool) (disk : bytes -> option bytes) reads (fc0 : fcache) (secret : bytes),
    let held := fc_view on disk fc0 in
    (forall t c, fs_of held t = Some c -> contains_sub secret c = true -> guarded t c = true) ->
    (forall s, contains_sub secret (errpage_of held s) = false) ->
    (forall args b, contains_sub secret (tmpl_of held args b) = true -> contains_sub secret b = true) ->
    (cors = true -> contains_sub secret (ps_body cors_pst) = false) ->
  forall cache_on ims_on fix_ovkey fix_clear fix_svary fix_qmkey fix_ims sfilter parse_ims prime override refuses
         vary_tuple vary_header clear_alias now ops,
    Forall2 (reply_ok (fs_of held) secret prime) ops
      (run_gf true true fix_errline cors on disk reads fc0 cache_on ims_on fix_ovkey fix_clear fix_svary fix_qmkey fix_ims
              sfilter parse_ims prime override refuses vary_tuple vary_header clear_alias [] now ops).
Proof. exact guarded_content_confined_fcache_lemma. Qed.

(** FILES THAT CHANGE during a history (a page is deployed after its 404 was cached; a public page gets an [!> allow-ips]
    line; a list is edited; a file is deleted ...): a history is a list of (world, operation) — the [world] is what the
    server reads at that moment (public files, error pages, template engine), ANY sequence of worlds, while the response
    cache lives through the whole history and may hold answers computed in earlier worlds.  If in every world of the
    history the secret occurs only inside guarded files (and in no error page, and no template introduces it), then a reply
    that contains the secret answers a request that the world OF ITS OWN MOMENT permits: a file marked [allow-ips], neither
    hidden nor private, whose every [allow-ips] directive lists the client's address.  In particular the answer computed
    for a listed client is never added as a new VARIANT to an item cached in an earlier world ([handle_vary_missing] applies
    the admission test of a new item: the server cache preference None that [allow-ips] sets counts). *)
Theorem guarded_content_confined_changing_files :
  forall (fix_errline cors : bool) (secret : bytes),
    (cors = true -> contains_sub secret (ps_body cors_pst) = false) ->
  forall cache_on ims_on fix_ovkey fix_clear fix_svary fix_qmkey fix_ims sfilter parse_ims prime override refuses
         vary_tuple vary_header clear_alias now (wops : list (world * opx)),
    Forall (fun wo => world_ok secret (fst wo)) wops ->
    Forall2 (reply_ok_w secret prime) wops
      (run_gw true true fix_errline cors cache_on ims_on true fix_ovkey fix_clear fix_svary fix_qmkey fix_ims
              sfilter parse_ims prime override refuses vary_tuple vary_header clear_alias ([], tt) now wops).
Proof. exact guarded_content_confined_changing_lemma. Qed.

(** the step of [handle_vary_missing] itself, for an [allow-ips] file: whatever item (of whatever earlier world) the lookup found
    under whatever key, the answer computed now — for a listed or an unlisted client — is not pushed into it *)
Theorem allow_ips_variant_never_pushed :
  forall (fix_errline cors : bool) (fs : bytes -> option bytes) (errpage : N -> bytes) (tmpl : list bytes -> bytes -> bytes)
         cache_on ims_on fix_svary fix_qmkey sfilter refuses vary_tuple vary_header c1 now r ov k e t c,
    served_file (rq_path r) = Ok (Some t) -> fs t = Some c -> is_hidden t c = false -> is_allow_ips c = true ->
    get_or_head (rq_method r) = true -> (cors && is_cors_fail ov) = false ->
    fst (fst (vary_missingX unit (compute_g true true fix_errline cors fs errpage tmpl) cache_on ims_on true fix_svary fix_qmkey sfilter
                            (negotiate_g errpage refuses) vary_tuple vary_header c1 tt now r ov true k e)) = (c1, tt).
Proof. exact allow_ips_variant_never_pushed_lemma. Qed.

(** ... which extends the histories with fixed files: a history whose world never changes is a history of [run_g] *)
Theorem changing_files_extends_fixed_files :
  forall fix_ext fix_lock fix_errline cors fs errpage tmpl cache_on ims_on fix_ovkey fix_clear fix_svary fix_qmkey fix_ims
         sfilter parse_ims prime override refuses vary_tuple vary_header clear_alias c now ops,
    run_gw fix_ext fix_lock fix_errline cors cache_on ims_on true fix_ovkey fix_clear fix_svary fix_qmkey fix_ims
           sfilter parse_ims prime override refuses vary_tuple vary_header clear_alias (c, tt) now
           (map (fun o => (mkW fs errpage tmpl, o)) ops) =
    run_g fix_ext fix_lock fix_errline cors fs errpage tmpl cache_on ims_on fix_ovkey fix_clear fix_svary fix_qmkey fix_ims
          sfilter parse_ims prime override refuses vary_tuple vary_header clear_alias c now ops.
Proof. exact changing_files_extends_fixed_files_lemma. Qed.

(** ... and the scenario runner of the differential run (component [guards.run], with the write operation of the fixture)
    is [run_gw] over the worlds the writes produce; without writes it is the runner of the fixed-files theorems *)
Theorem scenario_without_writes_unchanged : forall fix_ext fix_lock fix_errline g ops,
  run_gcfg_w fix_ext fix_lock fix_errline true g (map GOp ops) = run_gcfg fix_ext fix_lock fix_errline g ops.
Proof. exact run_gcfg_w_no_writes_lemma. Qed.

(** THE [!> ] LINE HAS NO LENGTH LIMIT.  For every line of the grammar of Properties/C16.v [present_line_spec] — [!> ], words
    separated by single spaces (an empty word = one more space), ended by LF or CRLF; ANY number of words of ANY length —
    the directives the guards see are exactly those written on the line, and the body is what follows the line ... *)
Theorem guard_line_any_length : forall (ws : list bytes) (crlf : bool) (rest : bytes),
  PresentLine.line_words_ok ws ->
  line_of (PresentLine.render_line ws crlf ++ rest) =
    Some {| PresentLine.p_entries := PresentLine.group_words None (PresentLine.nonempty_words ws);
            PresentLine.p_data_start := length (PresentLine.render_line ws crlf);
            PresentLine.p_body := rest |} /\
  entries_of (PresentLine.render_line ws crlf ++ rest) = PresentLine.group_words None (PresentLine.nonempty_words ws).
Proof. exact guard_line_any_length_lemma. Qed.

(** ... so [!> allow-ips a1 a2 ... an] with a list of ANY length (words without space, CR, LF that are not [&>]) decides as
    written: an address that no argument lists gets the host's 404, a listed one the body after the line, never stored *)
Theorem long_allow_list_decides :
  forall (cors : bool) (fs : bytes -> option bytes) (errpage : N -> bytes) (tmpl : list bytes -> bytes -> bytes),
    first_tmpl (entries_of (errpage 404)) = None ->
  forall r ov t (addrs : list bytes) (crlf : bool) (rest : bytes),
    Forall addr_word addrs ->
    served_file (rq_path r) = Ok (Some t) -> fs t = Some (PresentLine.render_line (N_ALLOW :: addrs) crlf ++ rest) ->
    get_or_head (rq_method r) = true -> (cors && is_cors_fail ov) = false ->
    (existsb (arg_matches (rq_addr r)) addrs = false ->
       f_status (layer_b true true true cors fs errpage tmpl r ov true) = 404 /\
       f_body (layer_b true true true cors fs errpage tmpl r ov true) = host_404_body errpage) /\
    (existsb (arg_matches (rq_addr r)) addrs = true -> is_private t = false ->
       f_status (layer_b true true true cors fs errpage tmpl r ov true) = 200 /\
       f_body (layer_b true true true cors fs errpage tmpl r ov true) = rest /\
       f_spref (layer_b true true true cors fs errpage tmpl r ov true) = SP_NONE).
Proof. exact long_allow_list_decides_lemma. Qed.

(** The statement is false of the code before the repairs (models selected by the switches):
    (a) extension lookup on the raw path: [GET /secret%2Eprivate], cache on or off; *)
Theorem private_spelling_v0_refuted :
  forall cache_on, violates w_fs W_SECRET [w_get (B "/secret%2Eprivate") 2]
                            (w_run false true cache_on [w_get (B "/secret%2Eprivate") 2]).
Proof. exact private_spelling_v0_refuted_lemma. Qed.
(** (b) [!> allow-ips 10.0.0.1 &> cache server:full]: 10.0.0.1 first, then 10.0.0.2 is served from the cache *)
Theorem cache_directive_v0_refuted :
  violates w_fs W_SECRET [w_get (B "/ac.txt") 1; w_get (B "/ac.txt") 2]
                         (w_run true false true [w_get (B "/ac.txt") 1; w_get (B "/ac.txt") 2]).
Proof. exact cache_directive_v0_refuted_lemma. Qed.
(** (c) the 404 that replaced a guarded file kept the [!> ] line of [errors/404.html]: the answers for a private file
    and for an [allow-ips] file (other address) differ from the answer for a path that does not exist; repaired: equal *)
Theorem error_page_line_v0_refuted :
  exists b1 b2 b3, w_bodies (w_run_err w_err_line true true false true w_twins) = [(404, b1); (404, b2); (404, b3)] /\
                   b1 <> b2 /\ b3 <> b2.
Proof. exact error_page_line_v0_refuted_lemma. Qed.
(** KNOWN classes (not repaired; the check reports them as known findings):
    (d) tmpl-names-guarded-file: the argument of [!> tmpl] is joined to [<host>/templates/] unchecked; a PUBLIC page
        that names [../public/s.private] is served with a block of the private file — on the concrete template engine
        (Model/Templates.v over the fixture tree) the main statement fails; [guarded_content_confined] therefore
        assumes that templates introduce no guarded content; *)
Theorem tmpl_names_guarded_file_refuted :
  violates (fs_of_tree (tree_of w_tmpl_files)) W_SECRET [w_get (B "/t.html") 2]
           (run_gcfg true true true w_tmpl_cfg [w_get (B "/t.html") 2]).
Proof. exact tmpl_names_guarded_file_refuted_lemma. Qed.
(** (e) allow-ips-404-template-unrendered: when [errors/404.html] is a [!> tmpl] template, [hide] renders it, [allow-ips]
        does not: a file with [!> hide &> allow-ips ...] answers an unlisted client with the unrendered page, which is
        not the answer for a path that does not exist ([refused_reply_is_404] assumes no error page is a template) *)
Theorem allow_404_template_refuted :
  exists b1 b2, w_bodies (w_run_gen w_err_tmpl w_render true true true true w_both_twins) = [(404, b1); (404, b2); (404, b2)] /\ b1 <> b2.
Proof. exact allow_404_template_refuted_lemma. Qed.
(** (f) [handle_vary_missing] before kvarn 8fe98d4 ([fix_vary = false]: every computed variant is pushed into an item that is
        already cached): [/page.html] has a vary rule; a stranger fetches variant "a" while the page is public; the file gets
        [!> allow-ips 10.0.0.1]; 10.0.0.1 fetches variant "b"; 10.0.0.2 is then served variant "b" from the cache *)
Theorem vary_admission_v0_refuted :
  Forall (fun wo => world_ok W_SECRET (fst wo)) w_deploy /\ violates_w W_SECRET w_deploy (w_run_w false w_deploy).
Proof. exact vary_admission_v0_refuted_lemma. Qed.
Theorem violates_w_contradicts_confined : forall secret wops obs,
  violates_w secret wops obs -> ~ Forall2 (reply_ok_w secret (fun r => r)) wops obs.
Proof. exact violates_w_not_ok. Qed.
Theorem violates_contradicts_confined : forall fs secret ops obs,
  violates fs secret ops obs -> ~ Forall2 (reply_ok fs secret (fun r => r)) ops obs.
Proof. exact violates_not_ok. Qed.

(** non-vacuity: a host with one file of each kind meets the hypotheses; on it the listed address
    receives the content (status, leaks, permitted) and nobody else does, for several spellings and for
    IPv4, IPv6 and IPv4-mapped IPv6 clients *)
Example hypotheses_satisfiable :
  (forall t c, w_fs t = Some c -> contains_sub W_SECRET c = true -> guarded t c = true) /\
  (forall s, contains_sub W_SECRET (w_err s) = false) /\
  (forall args b, contains_sub W_SECRET (w_tmpl args b) = true -> contains_sub W_SECRET b = true).
Proof. exact w_hypotheses. Qed.
Example listed_address_is_served :
  w_summary w_history (w_run true true true w_history) =
    [ (200, true, true); (404, false, false); (200, true, true); (404, false, false);
      (404, false, false); (404, false, false); (404, false, false);
      (404, false, false); (404, false, false); (200, false, false);
      (404, false, false); (200, true, true); (404, false, false); (200, true, true);
      (200, true, true) ].
Proof. exact w_history_repaired. Qed.
(** files that change: the same history on the repaired model — the stranger gets the 404 — and on the model before 8fe98d4
    (status, reply carries the secret?, permitted in the world of its moment?) *)
Example deploy_history_repaired :
  w_summary_w w_deploy (w_run_w true w_deploy) = [ (200, false, false); (0, false, false); (200, true, true); (404, false, false) ] /\
  w_summary_w w_deploy (w_run_w false w_deploy) = [ (200, false, false); (0, false, false); (200, true, true); (200, true, false) ].
Proof. exact w_deploy_repaired_lemma. Qed.
(** a line of 60 addresses (more than 512 bytes) is a line *)
Example long_line_example :
  let addrs := map (fun k => B "10.20.30." ++ dec (N.of_nat k)) (seq 1 60) in
  Nat.ltb 512 (length (PresentLine.render_line (N_ALLOW :: addrs) false)) = true /\
  entries_of (PresentLine.render_line (N_ALLOW :: addrs) false ++ B "SECRET") = [(N_ALLOW, addrs)] /\
  listed (V4_BASE + 169090600) (entries_of (PresentLine.render_line (N_ALLOW :: addrs) false ++ B "SECRET")) = true /\
  listed (V4_BASE + 169090661) (entries_of (PresentLine.render_line (N_ALLOW :: addrs) false ++ B "SECRET")) = false.
Proof. vm_compute. repeat split; reflexivity. Qed.
Example spelling_example :
  pct_encode [None; None; Some (true, true)] (B "/s.private") = B "/s%2Eprivate" /\
  pct_encode [None; Some (false, false); Some (false, false)] (B "/s.private") = B "/%73%2eprivate" /\
  mask_ok [None; None; Some (true, true)] (B "/s.private") = true.
Proof. exact spelling_example_lemma. Qed.
Example error_page_line_repaired :
  w_bodies (w_run_err w_err_line true true true true w_twins) =
    [(404, host_404_body w_err_line); (404, host_404_body w_err_line); (404, host_404_body w_err_line)].
Proof. exact error_page_line_repaired_lemma. Qed.
(** the file cache: a stale entry (the file was guarded when it was cached, the disk now holds a public text) and a
    negative entry are what the server holds *)
Example file_cache_view_example :
  fc_view true (fun p => if beq p (B "public/a.txt") then Some (B "now public") else None)
          [(B "public/a.txt", Some (B "!> hide")); (B "public/b.txt", None)] (B "public/a.txt") = Some (B "!> hide") /\
  fc_view true (fun p => Some (B "on disk")) [(B "public/b.txt", None)] (B "public/b.txt") = None /\
  fc_view false (fun p => Some (B "on disk")) [(B "public/b.txt", None)] (B "public/b.txt") = Some (B "on disk").
Proof. vm_compute. repeat split; reflexivity. Qed.
Example address_examples :
  parse_ip (B "::ffff:10.0.0.1") = Some (IPv6 [0; 0; 0; 0; 0; 65535; 2560; 1]) /\
  parse_ip (B "2001:DB8::0001") = Some (IPv6 [8193; 3512; 0; 0; 0; 0; 0; 1]) /\
  parse_ip (B "10.0.0.01") = None /\ parse_ip (B "10.0.0.1/32") = None /\ parse_ip (B "1::2::3") = None /\
  arg_matches W_MAPPED (B "::ffff:10.0.0.1") = true /\ arg_matches W_MAPPED (B "10.0.0.1") = false /\
  arg_matches 1 (B "10.0.0.1") = true /\ arg_matches 1 (B "::ffff:10.0.0.1") = false /\
  arg_matches (V4_BASE + 167772161) (B "10.0.0.1") = true.
Proof. vm_compute. repeat split; reflexivity. Qed.
