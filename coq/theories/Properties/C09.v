(** C09 — Range requests return exactly the requested slice.
    Only statements here; proofs are in Proofs/RangeProofs.v. *)
From KV Require Import Bytes RustInt Range RangeProofs RangeConn RangeConnProofs.
Open Scope N_scope.

(** 206 slice + content-range equation, 416 cases, everything else 200: the code's
    behaviour on a 200 representation is the specification, for every body that fits
    in memory, every header value (or none) and both arithmetic modes. *)
Theorem range_correct : forall (checked : bool) (hdr : option bytes) (body : bytes),
  N.of_nat (length body) <= u64_max ->
  serve_range checked hdr 200 body = Ok (range_spec (denoted hdr) body).
Proof. exact serve_range_spec. Qed.

(** The header values that denote a range are exactly bytes=<u64>-<u64> in Rust's
    integer syntax (optional '+', digits, value < 2^64); everything else is "no range". *)
Theorem range_header_syntax : forall (v : bytes) (a c : N),
  parse_range v = Some (a, c) <-> range_syntax v a c.
Proof. exact parse_range_syntax. Qed.

(** Consecutive ranges that tile 0..len reconstruct the representation. *)
Theorem range_tiling : forall (body : bytes) (ws : list N),
  Forall (fun w => 0 < w) ws -> sumN ws = N.of_nat (length body) ->
  concat (map (fun r => reply_body (range_spec (Some r) body)) (tile_ranges 0 ws)) = body.
Proof. exact tiling. Qed.

Theorem range_never_panics : forall (checked : bool) (hdr : option bytes) (body : bytes),
  N.of_nat (length body) <= u64_max -> serve_range checked hdr 200 body <> Panic.
Proof. exact serve_range_no_panic. Qed.

(** Non-vacuity: concrete instances meeting the hypotheses, on each branch of the spec. *)
Example range_ex_206 :
  serve_range true (Some (B "bytes=2-5")) 200 (B "0123456789")
  = Ok (RResp {| r_status := 206; r_content_range := Some (B "bytes 2-5/10");
                 r_accept_ranges := false; r_body := B "2345" |}).
Proof. vm_compute. reflexivity. Qed.
Example range_ex_single_byte :
  serve_range true (Some (B "bytes=5-5")) 200 (B "0123456789")
  = Ok (RResp {| r_status := 206; r_content_range := Some (B "bytes 5-5/10");
                 r_accept_ranges := false; r_body := B "5" |}).
Proof. vm_compute. reflexivity. Qed.
Example range_ex_max :
  serve_range true (Some (B "bytes=8-18446744073709551615")) 200 (B "0123456789")
  = Ok (RResp {| r_status := 206; r_content_range := Some (B "bytes 8-9/10");
                 r_accept_ranges := false; r_body := B "89" |}).
Proof. vm_compute. reflexivity. Qed.
Example range_ex_416 : serve_range true (Some (B "bytes=10-12")) 200 (B "0123456789") = Ok R416.
Proof. vm_compute. reflexivity. Qed.
Example range_ex_beyond_u64 :
  serve_range true (Some (B "bytes=0-18446744073709551616")) 200 (B "01")
  = Ok (RResp {| r_status := 200; r_content_range := None; r_accept_ranges := true; r_body := B "01" |}).
Proof. vm_compute. reflexivity. Qed.
Example range_ex_syntax : range_syntax (B "bytes=+2-05") 2 5.
Proof. apply parse_range_syntax. vm_compute. reflexivity. Qed.
Example range_ex_tiling :
  concat (map (fun r => reply_body (range_spec (Some r) (B "0123456789"))) (tile_ranges 0 [3; 1; 6])) = B "0123456789".
Proof. vm_compute. reflexivity. Qed.

(** ---- Connection level: the request path around the range arithmetic (Model/RangeConn.v) ----
    [serve_history] models [handle_cache] ([sanitize_request] once, before the cache lookup; the
    cache-hit guard; handler / error page; storing) followed by [SendKind::send] (the range is
    applied to the content-encoded representation, 416 short-circuit, content-length of the slice,
    no body for HEAD).  For every page (= its representations per Accept-Encoding class), every
    state of the response cache that is absent or holds this page, both arithmetic modes and every
    history of GET/HEAD requests with arbitrary Range header values: each reply is [range_spec]
    of the representation that a request WITHOUT Range receives under the same Accept-Encoding. *)
Theorem range_conn_correct : forall (checked caching : bool) (pg : page) (cache : option page) (reqs : list creq),
  page_fits pg -> cache_ok pg cache ->
  serve_history checked caching pg cache reqs = Ok (history_spec pg reqs).
Proof. exact serve_history_spec. Qed.

(** The reply to a request is the same after every history prefix (cold, warmed by GET, by HEAD, by a
    ranged or an unsatisfiable request, ...), with and without a response cache. *)
Theorem range_history_independent : forall (checked caching : bool) (pg : page) (pre : list creq) (q : creq),
  page_fits pg -> reply_after checked caching pg pre q = Ok (reply_spec pg q).
Proof. exact reply_after_spec. Qed.

(** HEAD has the GET reply's status and headers (content-range, content-length, content-encoding,
    accept-ranges) and no body, in every cache state. *)
Theorem range_head_as_get : forall (checked caching : bool) (pg : page) (cache : option page) (ae : N) (hdr : option bytes),
  page_fits pg -> cache_ok pg cache ->
  fst (conn_step checked caching pg cache {| q_method := HEAD; q_ae := ae; q_range := hdr |})
  = omap strip_body (fst (conn_step checked caching pg cache {| q_method := GET; q_ae := ae; q_range := hdr |})).
Proof. exact head_as_get. Qed.

(** The 206 body is the slice of the body of the un-ranged 200 reply of the same Accept-Encoding
    class (the encoded bytes), with the same content-encoding. *)
Theorem range_slice_of_unranged : forall (pg : page) (ae : N) (v : bytes) (a c : N),
  parse_range v = Some (a, c) -> a <= c -> a < N.of_nat (length (rp_body (choose pg ae))) ->
  exists full part,
    reply_spec pg {| q_method := GET; q_ae := ae; q_range := None |} = WResp full /\
    reply_spec pg {| q_method := GET; q_ae := ae; q_range := Some v |} = WResp part /\
    w_status full = 200 /\ w_status part = 206 /\
    w_content_encoding part = w_content_encoding full /\
    w_body part = firstn (N.to_nat (N.min c (w_content_length full - 1) - a + 1)) (skipn (N.to_nat a) (w_body full)) /\
    w_content_length part = N.of_nat (length (w_body part)).
Proof. exact ranged_is_slice_of_unranged. Qed.

(** Non-vacuity.  A page with an identity and a "gzip" representation (class 0 / class 1). *)
Definition ex_page : page :=
  [ {| rp_encoding := Some (B "identity"); rp_body := B "0123456789" |};
    {| rp_encoding := Some (B "gzip"); rp_body := B "GZIPPEDBYTES" |} ].
Example range_conn_ex_fits : page_fits ex_page.
Proof. repeat constructor; vm_compute; discriminate. Qed.
(** warm-up GET, then start > end on the warm cache: 416, not the cached body
    (the history of the cache-hit guard [sanitize_data.is_ok()]). *)
Example range_conn_ex_warm_416 :
  serve_history true true ex_page None
    [ {| q_method := GET; q_ae := 0; q_range := None |};
      {| q_method := GET; q_ae := 0; q_range := Some (B "bytes=7-2") |};
      {| q_method := HEAD; q_ae := 1; q_range := Some (B "bytes=3-100") |} ]
  = Ok [ WResp {| w_status := 200; w_content_range := None; w_content_length := 10;
                  w_content_encoding := Some (B "identity"); w_accept_ranges := true; w_body := B "0123456789" |};
         W416;
         WResp {| w_status := 206; w_content_range := Some (B "bytes 3-11/12"); w_content_length := 9;
                  w_content_encoding := Some (B "gzip"); w_accept_ranges := false; w_body := [] |} ].
Proof. vm_compute. reflexivity. Qed.
Example range_conn_ex_cached_state :
  fst (conn_step false true ex_page (Some ex_page) {| q_method := GET; q_ae := 1; q_range := Some (B "bytes=0-3") |})
  = Ok (WResp {| w_status := 206; w_content_range := Some (B "bytes 0-3/12"); w_content_length := 4;
                 w_content_encoding := Some (B "gzip"); w_accept_ranges := false; w_body := B "GZIP" |}).
Proof. vm_compute. reflexivity. Qed.
