(** C09 — Range requests return exactly the requested slice.
    Only statements here; proofs are in Proofs/RangeProofs.v. *)
From KV Require Import Bytes RustInt Range RangeProofs RangeConn RangeConnProofs.
Open Scope N_scope.

(** 206 slice + content-range equation, 416 cases, everything else 200: the code's
    behaviour on a 200 representation is the specification, for every body that fits
    in memory, every header value (or none) and both arithmetic modes. *)
Theorem range_correct : forall (checked : bool) (hdr : option bytes) (body : bytes),
  N.of_nat (length body) <= u64_max ->
  serve_range checked hdr 200 body = Ok (range_spec (denoted hdr) body).
Proof. exact serve_range_spec. Qed.

(** The header values that denote a range are exactly bytes=<u64>-<u64> in Rust's
    integer syntax (optional '+', digits, value < 2^64); everything else is "no range". *)
Theorem range_header_syntax : forall (v : bytes) (a c : N),
  parse_range v = Some (a, c) <-> range_syntax v a c.
Proof. exact parse_range_syntax. Qed.

(** Consecutive ranges that tile 0..len reconstruct the representation. *)
Theorem range_tiling : forall (body : bytes) (ws : list N),
  Forall (fun w => 0 < w) ws -> sumN ws = N.of_nat (length body) ->
  concat (map (fun r => reply_body (range_spec (Some r) body)) (tile_ranges 0 ws)) = body.
Proof. exact tiling. Qed.

(** Any other status of the response (an error page, a handler's 404 ...): the property speaks about the
    representation of a 200 response; the code slices every body in the same way and keeps the status. *)
Theorem range_any_status : forall (checked : bool) (hdr : option bytes) (status : N) (body : bytes),
  N.of_nat (length body) <= u64_max ->
  serve_range checked hdr status body = Ok (range_spec_st status (denoted hdr) body).
Proof. exact serve_range_spec_st. Qed.

Theorem range_never_panics : forall (checked : bool) (hdr : option bytes) (body : bytes),
  N.of_nat (length body) <= u64_max -> serve_range checked hdr 200 body <> Panic.
Proof. exact serve_range_no_panic. Qed.

(** Non-vacuity: concrete instances meeting the hypotheses, on each branch of the spec. *)
Example range_ex_206 :
  serve_range true (Some (B "bytes=2-5")) 200 (B "0123456789")
  = Ok (RResp {| r_status := 206; r_content_range := Some (B "bytes 2-5/10");
                 r_accept_ranges := false; r_body := B "2345" |}).
Proof. vm_compute. reflexivity. Qed.
Example range_ex_single_byte :
  serve_range true (Some (B "bytes=5-5")) 200 (B "0123456789")
  = Ok (RResp {| r_status := 206; r_content_range := Some (B "bytes 5-5/10");
                 r_accept_ranges := false; r_body := B "5" |}).
Proof. vm_compute. reflexivity. Qed.
Example range_ex_max :
  serve_range true (Some (B "bytes=8-18446744073709551615")) 200 (B "0123456789")
  = Ok (RResp {| r_status := 206; r_content_range := Some (B "bytes 8-9/10");
                 r_accept_ranges := false; r_body := B "89" |}).
Proof. vm_compute. reflexivity. Qed.
Example range_ex_416 : serve_range true (Some (B "bytes=10-12")) 200 (B "0123456789") = Ok R416.
Proof. vm_compute. reflexivity. Qed.
Example range_ex_beyond_u64 :
  serve_range true (Some (B "bytes=0-18446744073709551616")) 200 (B "01")
  = Ok (RResp {| r_status := 200; r_content_range := None; r_accept_ranges := true; r_body := B "01" |}).
Proof. vm_compute. reflexivity. Qed.
Example range_ex_syntax : range_syntax (B "bytes=+2-05") 2 5.
Proof. apply parse_range_syntax. vm_compute. reflexivity. Qed.
Example range_ex_tiling :
  concat (map (fun r => reply_body (range_spec (Some r) (B "0123456789"))) (tile_ranges 0 [3; 1; 6])) = B "0123456789".
Proof. vm_compute. reflexivity. Qed.

(** ---- Connection level: the request path around the range arithmetic (Model/RangeConn.v) ----
    [serve_history] models [handle_cache] ([sanitize_request] once, before the cache lookup; the
    cache-hit guard; the If-Modified-Since test on a hit, which vouches only for a variant the cached item holds;
    a request for another variant of a page with vary rules runs the handler and adds the variant; handler /
    error page; storing for GET/HEAD) followed by [SendKind::send] (no body under a 1xx / 204 / 304 head; the
    range is applied to the content-encoded representation — not to a 304 —, 416 short-circuit, content-length
    of the slice, no body for HEAD).  For every page (= its representations per Accept-Encoding class), every
    handler status but 304, every state of the response cache that is absent or holds variants of this page, both
    arithmetic modes and every history of GET/HEAD/other-method requests of any variant class with any number of
    Range header lines of arbitrary value, with or without If-Modified-Since: each reply is 416 when the (last)
    Range line has start > end; else the 304 that the same request without Range receives; else [range_spec] of
    the representation that a request WITHOUT Range receives under the same Accept-Encoding. *)
Theorem range_conn_correct : forall (checked caching : bool) (status : N) (pg : page) (cache : option item) (reqs : list rreq),
  page_fits pg -> vcache_ok pg cache -> status <> 304 ->
  serve_history checked caching status pg cache reqs = Ok (history_spec caching status pg (held_by cache) reqs).
Proof. exact serve_history_spec. Qed.

(** The reply to a request that is not conditional is the same after every history prefix (cold, warmed by GET,
    by HEAD, by a ranged or an unsatisfiable request, by a request for another variant, ...), with and without a
    response cache; the reply to a conditional one depends on the prefix only through "the server holds the
    response this request selects". *)
Theorem range_history_independent : forall (checked caching : bool) (status : N) (pg : page) (pre : list rreq) (q : rreq),
  page_fits pg -> status <> 304 -> fresh q = false ->
  reply_after checked caching status pg pre q = Ok (reply_spec status pg [] q).
Proof. exact reply_after_independent. Qed.
Theorem range_after_history : forall (checked caching : bool) (status : N) (pg : page) (pre : list rreq) (q : rreq),
  page_fits pg -> status <> 304 ->
  reply_after checked caching status pg pre q = Ok (reply_spec status pg (stored_by caching pre) q).
Proof. exact reply_after_spec. Qed.

(** HEAD has the GET reply's status and headers (content-range, content-length, content-encoding,
    accept-ranges) and no body, in every cache state. *)
Theorem range_head_as_get : forall (checked caching : bool) (status : N) (pg : page) (cache : option item) (ae : N)
    (hdrs : list bytes) (ims lang : N),
  page_fits pg -> vcache_ok pg cache -> status <> 304 ->
  fst (rstep checked caching status pg cache {| rq_method := HEAD; rq_ae := ae; rq_ranges := hdrs; rq_ims := ims; rq_lang := lang |})
  = omap strip_body (fst (rstep checked caching status pg cache {| rq_method := GET; rq_ae := ae; rq_ranges := hdrs; rq_ims := ims; rq_lang := lang |})).
Proof. exact head_as_get. Qed.

(** The 206 body is the slice of the body of the un-ranged 200 reply of the same Accept-Encoding
    class (the encoded bytes), with the same content-encoding. *)
Theorem range_slice_of_unranged : forall (pg : page) (ae lang : N) (v : bytes) (more : list bytes) (a c : N),
  parse_range v = Some (a, c) -> a <= c -> a < N.of_nat (length (rp_body (choose pg ae))) ->
  exists full part,
    reply_spec 200 pg [] {| rq_method := GET; rq_ae := ae; rq_ranges := []; rq_ims := 0; rq_lang := lang |} = WResp full /\
    reply_spec 200 pg [] {| rq_method := GET; rq_ae := ae; rq_ranges := more ++ [v]; rq_ims := 0; rq_lang := lang |} = WResp part /\
    w_status full = 200 /\ w_status part = 206 /\
    w_content_encoding part = w_content_encoding full /\
    w_body part = firstn (N.to_nat (N.min c (w_content_length full - 1) - a + 1)) (skipn (N.to_nat a) (w_body full)) /\
    w_content_length part = N.of_nat (length (w_body part)).
Proof. exact ranged_is_slice_of_unranged. Qed.

(** Tiling on the connection: consecutive ranged GETs that tile the (encoded) representation of an Accept-Encoding
    class are all answered and the concatenation of their bodies is that representation — in every cache state,
    for every variant class. *)
Theorem range_conn_tiling : forall (checked caching : bool) (pg : page) (cache : option item) (ae lang : N) (ws : list N),
  page_fits pg -> vcache_ok pg cache ->
  Forall (fun w => 0 < w) ws -> sumN ws = N.of_nat (length (rp_body (choose pg ae))) ->
  exists replies,
    serve_history checked caching 200 pg cache (map (get_range ae lang) (tile_ranges 0 ws)) = Ok replies /\
    concat (map wbody replies) = rp_body (choose pg ae).
Proof. exact conn_tiling. Qed.

(** "...of the representation that a request without Range would receive": in every state of the server the
    reply to a request is the property's function [ranged_of] of the reply that the same request without any
    Range line receives in that state (416 for start > end; a 304 stays that 304; otherwise range_spec of the
    body of that reply, same content-encoding). *)
Theorem range_of_unranged : forall (checked caching : bool) (status : N) (pg : page) (cache : option item) (q : rreq),
  page_fits pg -> vcache_ok pg cache -> status <> 304 -> rq_method q <> HEAD ->
  fst (rstep checked caching status pg cache q)
  = omap (ranged_of (rq_range q)) (fst (rstep checked caching status pg cache (unranged q))).
Proof. exact ranged_of_unranged. Qed.

(** Conditional requests: the server holds the response the request selects (the cached item has the variant of
    the request's class), the client's copy is fresh, GET/HEAD, Range not refused: 304, exactly as without the
    Range header. *)
Theorem range_conditional : forall (checked caching : bool) (status : N) (pg : page) (it : item) (q : rreq),
  page_fits pg -> vcache_ok pg (Some it) -> holds (map fst it) (rq_lang q) = true ->
  status <> 304 -> get_or_head (rq_method q) = true -> fresh q = true ->
  rejected (rq_range q) = false ->
  fst (rstep checked caching status pg (Some it) q) = Ok not_modified /\
  fst (rstep checked caching status pg (Some it) (unranged q)) = Ok not_modified.
Proof. exact conditional_304. Qed.

(** ... and a cached item that holds other variants of the page, not the one the request selects, gives no 304:
    the request is answered with the (ranged) representation, conditional or not. *)
Theorem range_conditional_other_variant : forall (checked caching : bool) (status : N) (pg : page) (it : item) (q : rreq),
  page_fits pg -> vcache_ok pg (Some it) -> holds (map fst it) (rq_lang q) = false ->
  status <> 304 -> rejected (rq_range q) = false ->
  fst (rstep checked caching status pg (Some it) q)
  = Ok (wire_spec status (rq_method q) (choose pg (rq_ae q)) (rq_range q)).
Proof. exact conditional_other_variant. Qed.

(** kvarn 0.6.3 (before the repair in SendKind::send) answered 416 where the request without Range got 304. *)
Theorem range_conditional_063_refuted :
  exists pg q, page_fits pg /\ get_or_head (rq_method q) = true /\ fresh q = true /\ rejected (rq_range q) = false /\
    fst (rstep_063 true true 200 pg (Some [(rq_lang q, pg)]) (unranged q)) = Ok not_modified /\
    fst (rstep_063 true true 200 pg (Some [(rq_lang q, pg)]) q) = Ok W416.
Proof. exact conditional_063_refuted. Qed.

(** Several Range header lines (HTTP/1.1): only the last one is looked at. *)
Theorem range_last_line : forall (checked caching : bool) (status : N) (pg : page) (cache : option item) (m : meth) (ae : N)
    (v : bytes) (more : list bytes) (ims lang : N),
  rstep checked caching status pg cache {| rq_method := m; rq_ae := ae; rq_ranges := more ++ [v]; rq_ims := ims; rq_lang := lang |}
  = rstep checked caching status pg cache {| rq_method := m; rq_ae := ae; rq_ranges := [v]; rq_ims := ims; rq_lang := lang |}.
Proof. exact last_range_line. Qed.

(** Files streamed by [extensions::stream_body] (repaired): every request — GET, HEAD (the head alone), any
    other method — is answered by the property's [range_spec] of the file's bytes: 206 + content-range + the
    slice, 416, or the whole file. *)
Theorem range_stream_correct : forall (checked : bool) (file : bytes) (reqs : list rreq),
  N.of_nat (length file) <= u64_max ->
  stream_history true checked file reqs = Ok (map (stream_spec file) reqs).
Proof. exact stream_history_spec. Qed.

(** kvarn 0.6.3: 200 without content-range for a satisfiable range; more bytes announced than sent for a
    range that ends after the file; no 416. *)
Theorem range_stream_063_refuted :
  N.of_nat (length ex_file) <= u64_max /\
  stream_step false true ex_file (ex_get (B "bytes=2-5"))
    = Ok (SResp {| w_status := 200; w_content_range := None; w_content_length := 4; w_content_encoding := None;
                   w_accept_ranges := false; w_body := B "2345" |}) /\
  stream_spec ex_file (ex_get (B "bytes=2-5"))
    = SResp {| w_status := 206; w_content_range := Some (B "bytes 2-5/10"); w_content_length := 4;
               w_content_encoding := None; w_accept_ranges := false; w_body := B "2345" |} /\
  (exists w, stream_step false true ex_file (ex_get (B "bytes=8-20")) = Ok (SShort w (B "89")) /\
             w_status w = 200 /\ w_content_length w = 13) /\
  (exists w, stream_step false true ex_file (ex_get (B "bytes=10-12")) = Ok (SShort w []) /\ w_status w = 200) /\
  stream_spec ex_file (ex_get (B "bytes=10-12")) = S416.
Proof. exact stream_063_refuted. Qed.

(** Non-vacuity.  A page with an identity and a "gzip" representation (class 0 / class 1). *)
Example range_conn_ex_fits : page_fits ex_page.
Proof. exact ex_page_fits. Qed.
(** warm-up GET, then start > end on the warm cache: 416, not the cached body
    (the history of the cache-hit guard [sanitize_data.is_ok()]); a conditional ranged GET: 304;
    a POST with a Range header; a HEAD with two Range lines. *)
Example range_conn_ex_history :
  serve_history true true 200 ex_page None
    [ {| rq_method := GET; rq_ae := 0; rq_ranges := []; rq_ims := 0; rq_lang := 0 |};
      {| rq_method := GET; rq_ae := 0; rq_ranges := [B "bytes=7-2"]; rq_ims := 1; rq_lang := 0 |};
      {| rq_method := GET; rq_ae := 0; rq_ranges := [B "bytes=2-4"]; rq_ims := 1; rq_lang := 0 |};
      {| rq_method := POST; rq_ae := 0; rq_ranges := [B "bytes=2-4"]; rq_ims := 1; rq_lang := 0 |};
      {| rq_method := HEAD; rq_ae := 1; rq_ranges := [B "bytes=0-0"; B "bytes=3-100"]; rq_ims := 2; rq_lang := 0 |} ]
  = Ok [ WResp {| w_status := 200; w_content_range := None; w_content_length := 10;
                  w_content_encoding := Some (B "identity"); w_accept_ranges := true; w_body := B "0123456789" |};
         W416;
         not_modified;
         WResp {| w_status := 206; w_content_range := Some (B "bytes 2-4/10"); w_content_length := 3;
                  w_content_encoding := Some (B "identity"); w_accept_ranges := false; w_body := B "234" |};
         WResp {| w_status := 206; w_content_range := Some (B "bytes 3-11/12"); w_content_length := 9;
                  w_content_encoding := Some (B "gzip"); w_accept_ranges := false; w_body := [] |} ].
Proof. vm_compute. reflexivity. Qed.
(** a page with a vary rule: the conditional ranged GET of class 2 on a cache that holds class 0 only is answered
    206 (the handler runs, class 2 joins the item); the same request again: 304; class 0 is still held: 304 *)
Example range_conn_ex_variants :
  serve_history true true 200 ex_page None [ unranged ex_conditional; ex_conditional_other; ex_conditional_other; ex_conditional ]
  = Ok [ WResp {| w_status := 200; w_content_range := None; w_content_length := 10;
                  w_content_encoding := Some (B "identity"); w_accept_ranges := true; w_body := B "0123456789" |};
         WResp {| w_status := 206; w_content_range := Some (B "bytes 0-3/10"); w_content_length := 4;
                  w_content_encoding := Some (B "identity"); w_accept_ranges := false; w_body := B "0123" |};
         not_modified;
         not_modified ].
Proof. vm_compute. reflexivity. Qed.
Example range_conn_ex_other_variant :
  vcache_ok ex_page (Some [(0, ex_page)]) /\ holds (map fst [(0, ex_page)]) (rq_lang ex_conditional_other) = false /\
  holds (map fst [(0, ex_page)]) (rq_lang ex_conditional) = true /\ rejected (rq_range ex_conditional_other) = false.
Proof. split; [repeat constructor|vm_compute; repeat split; reflexivity]. Qed.
(** a handler's 204 with a body: the un-ranged reply is the head alone (the headers stay), so every range that is
    not refused starts after the end of what a request without Range receives: 416 *)
Example range_conn_ex_204 :
  serve_history true true 204 ex_page None
    [ {| rq_method := GET; rq_ae := 0; rq_ranges := []; rq_ims := 0; rq_lang := 0 |};
      {| rq_method := GET; rq_ae := 0; rq_ranges := [B "bytes=0-3"]; rq_ims := 0; rq_lang := 0 |};
      {| rq_method := GET; rq_ae := 0; rq_ranges := [B "bytes=-3"]; rq_ims := 0; rq_lang := 0 |} ]
  = Ok [ WResp {| w_status := 204; w_content_range := None; w_content_length := 0;
                  w_content_encoding := Some (B "identity"); w_accept_ranges := false; w_body := [] |};
         W416;
         WResp {| w_status := 204; w_content_range := None; w_content_length := 0;
                  w_content_encoding := Some (B "identity"); w_accept_ranges := false; w_body := [] |} ].
Proof. vm_compute. reflexivity. Qed.
Example range_conn_ex_cached_state :
  fst (rstep false true 404 ex_page (Some [(0, ex_page)]) {| rq_method := GET; rq_ae := 1; rq_ranges := [B "bytes=0-3"]; rq_ims := 0; rq_lang := 0 |})
  = Ok (WResp {| w_status := 404; w_content_range := Some (B "bytes 0-3/12"); w_content_length := 4;
                 w_content_encoding := Some (B "gzip"); w_accept_ranges := false; w_body := B "GZIP" |}).
Proof. vm_compute. reflexivity. Qed.
Example range_conn_ex_tiling :
  serve_history true true 200 ex_page None (map (get_range 1 0) (tile_ranges 0 [5; 1; 6]))
  = Ok [ WResp {| w_status := 206; w_content_range := Some (B "bytes 0-4/12"); w_content_length := 5;
                  w_content_encoding := Some (B "gzip"); w_accept_ranges := false; w_body := B "GZIPP" |};
         WResp {| w_status := 206; w_content_range := Some (B "bytes 5-5/12"); w_content_length := 1;
                  w_content_encoding := Some (B "gzip"); w_accept_ranges := false; w_body := B "E" |};
         WResp {| w_status := 206; w_content_range := Some (B "bytes 6-11/12"); w_content_length := 6;
                  w_content_encoding := Some (B "gzip"); w_accept_ranges := false; w_body := B "DBYTES" |} ].
Proof. vm_compute. reflexivity. Qed.
Example range_conn_ex_conditional :
  get_or_head (rq_method ex_conditional) = true /\ fresh ex_conditional = true /\ rejected (rq_range ex_conditional) = false.
Proof. vm_compute. repeat split; reflexivity. Qed.
Example range_stream_ex :
  stream_history true true ex_file [ex_get (B "bytes=8-20"); ex_get (B "bytes=10-12"); ex_get (B "bytes=-3"); ex_head (B "bytes=2-5")]
  = Ok [ SResp {| w_status := 206; w_content_range := Some (B "bytes 8-9/10"); w_content_length := 2;
                  w_content_encoding := None; w_accept_ranges := false; w_body := B "89" |};
         S416;
         SResp {| w_status := 200; w_content_range := None; w_content_length := 10;
                  w_content_encoding := None; w_accept_ranges := false; w_body := B "0123456789" |};
         SResp {| w_status := 206; w_content_range := Some (B "bytes 2-5/10"); w_content_length := 4;
                  w_content_encoding := None; w_accept_ranges := false; w_body := [] |} ].
Proof. vm_compute. reflexivity. Qed.
