(** C09 — Range requests return exactly the requested slice.
    Only statements here; proofs are in Proofs/RangeProofs.v. *)
From KV Require Import Bytes RustInt Range RangeProofs.
Open Scope N_scope.

(** 206 slice + content-range equation, 416 cases, everything else 200: the code's
    behaviour on a 200 representation is the specification, for every body that fits
    in memory, every header value (or none) and both arithmetic modes. *)
Theorem range_correct : forall (checked : bool) (hdr : option bytes) (body : bytes),
  N.of_nat (length body) <= u64_max ->
  serve_range checked hdr 200 body = Ok (range_spec (denoted hdr) body).
Proof. exact serve_range_spec. Qed.

(** The header values that denote a range are exactly bytes=<u64>-<u64> in Rust's
    integer syntax (optional '+', digits, value < 2^64); everything else is "no range". *)
Theorem range_header_syntax : forall (v : bytes) (a c : N),
  parse_range v = Some (a, c) <-> range_syntax v a c.
Proof. exact parse_range_syntax. Qed.

(** Consecutive ranges that tile 0..len reconstruct the representation. *)
Theorem range_tiling : forall (body : bytes) (ws : list N),
  Forall (fun w => 0 < w) ws -> sumN ws = N.of_nat (length body) ->
  concat (map (fun r => reply_body (range_spec (Some r) body)) (tile_ranges 0 ws)) = body.
Proof. exact tiling. Qed.

Theorem range_never_panics : forall (checked : bool) (hdr : option bytes) (body : bytes),
  N.of_nat (length body) <= u64_max -> serve_range checked hdr 200 body <> Panic.
Proof. exact serve_range_no_panic. Qed.

(** Non-vacuity: concrete instances meeting the hypotheses, on each branch of the spec. *)
Example range_ex_206 :
  serve_range true (Some (B "bytes=2-5")) 200 (B "0123456789")
  = Ok (RResp {| r_status := 206; r_content_range := Some (B "bytes 2-5/10");
                 r_accept_ranges := false; r_body := B "2345" |}).
Proof. vm_compute. reflexivity. Qed.
Example range_ex_single_byte :
  serve_range true (Some (B "bytes=5-5")) 200 (B "0123456789")
  = Ok (RResp {| r_status := 206; r_content_range := Some (B "bytes 5-5/10");
                 r_accept_ranges := false; r_body := B "5" |}).
Proof. vm_compute. reflexivity. Qed.
Example range_ex_max :
  serve_range true (Some (B "bytes=8-18446744073709551615")) 200 (B "0123456789")
  = Ok (RResp {| r_status := 206; r_content_range := Some (B "bytes 8-9/10");
                 r_accept_ranges := false; r_body := B "89" |}).
Proof. vm_compute. reflexivity. Qed.
Example range_ex_416 : serve_range true (Some (B "bytes=10-12")) 200 (B "0123456789") = Ok R416.
Proof. vm_compute. reflexivity. Qed.
Example range_ex_beyond_u64 :
  serve_range true (Some (B "bytes=0-18446744073709551616")) 200 (B "01")
  = Ok (RResp {| r_status := 200; r_content_range := None; r_accept_ranges := true; r_body := B "01" |}).
Proof. vm_compute. reflexivity. Qed.
Example range_ex_syntax : range_syntax (B "bytes=+2-05") 2 5.
Proof. apply parse_range_syntax. vm_compute. reflexivity. Qed.
Example range_ex_tiling :
  concat (map (fun r => reply_body (range_spec (Some r) (B "0123456789"))) (tile_ranges 0 [3; 1; 6])) = B "0123456789".
Proof. vm_compute. reflexivity. Qed.
