(** C05 — Vary: a stored variant is only served to requests that select it. Statements only. *)
From KV Require Import Bytes RustInt Range CacheControl Cache CacheProofs Fixture RustStd Vary VaryProofs.
Open Scope N_scope.
