(** C05 — Vary: a stored variant is only served to requests that select it. Statements only. *)
From Coq Require Import Sorting.Sorted Lia ZifyBool ZifyNat ZifyN.
From KV Require Import Bytes RustInt Range CacheControl Cache CacheProofs Fixture CacheX CacheXProofs RustStd Vary VaryProofs VaryWire VaryWireProofs.
From KV Require Import RuleSet CacheRulesProofs VaryRules VaryRulesProofs.
Open Scope N_scope.

Section C05.
  Variable hstate : Type.
  (** the layer below the cache (handlers), with its own state and log — arbitrary *)
  Variable compute : hstate -> routed -> bool -> fat * hstate * list bytes.
  Variable cache_on : bool.
  Variable ims_on : bool.
  Variable parse_ims : bytes -> option Z.
  Variable sanitize_ok : request -> bool.
  (** [Extensions::resolve_prime]: what the Prime extensions make of a request — the request with the URI the rewriting
      Primes gave it, and the internal override URI ("/./...") if a Prime answered with one — arbitrary.  The page is
      handled, looked up and cached under [lreq q] (the override URI if there is one, else the request's), and the vary
      rules are those of its path [cpath q], in the arm of [handle_cache] that creates a cache item and in
      [handle_vary_missing] alike *)
  Variable prime : request -> routed.
  Variable negotiate : request -> fat -> option (N * bytes).
  (** the vary settings of every path: any number of rules, any header names, any transformations, any defaults *)
  Variable rules_of : bytes -> list rule.
  Variable dbg : bool.

  (** (1) + (2) + no panic, for every history (requests with any method and headers, page clears, clear-all,
      waits/expiry) from any cache state that satisfies the invariant [InvV] (every stored vector strictly
      sorted for the comparator of [get], non-empty, built with the rules of its page, every stored response
      computed for a request of that page with exactly the stored transformed header list):
      the run completes without panic, the invariant holds afterwards, and every reply is
      - a stored response that was computed for a request *cached under the same path with an equal transformed header
        list* — the list that the rules of the path the response is cached under (the internal path of a route, else
        the request's own) make of the request's headers —, or the bare 304 that vouches for such a stored response (no
        handler invocation; since the repair 832d735 a 304 is sent only when the entry holds the request's own variant), or
      - the response computed now for this very request, labelled with its own transformed header list
        (exactly one handler invocation).
      [variant_of_the_cached_path] below spells [obs_ok] out. *)
  Theorem vary_served_for_equal_tuple : forall ops c hs now,
    InvV hstate compute rules_of c ->
    exists l st' now',
      runV hstate compute cache_on ims_on parse_ims sanitize_ok prime negotiate rules_of dbg (c, hs) now ops = Ok l /\
      runV_state hstate compute cache_on ims_on parse_ims sanitize_ok prime negotiate rules_of dbg (c, hs) now ops = Ok (st', now') /\
      InvV hstate compute rules_of (fst st') /\
      Forall2 (obs_ok hstate compute ims_on prime negotiate rules_of) ops l.
  Proof. exact (runV_ok hstate compute cache_on ims_on parse_ims sanitize_ok prime negotiate rules_of dbg). Qed.

  (** what [obs_ok] says of the reply to a request [q] (request + override URI), in terms of the request's own headers and
      the rules of the path it is cached under: served from the cache = a response computed for a request [q1] cached under
      the same path whose headers the rules OF THAT PATH transform to the same list as [q]'s (or the 304 vouching for it);
      computed = the response computed for [q] itself; in both cases the reply is labelled with — its [vary] header is
      built from — that list *)
  Theorem variant_of_the_cached_path : forall q rp calls,
    served_ok hstate compute ims_on negotiate rules_of q rp calls ->
    let rules := rules_of (cpath q) in
    let mine := headers_for_request rules (fst q) in
    (calls = [] /\ exists f q1 hs1 ok1,
        fst (fst (compute hs1 q1 ok1)) = f /\ cpath q1 = cpath q /\ headers_for_request rules (fst q1) = mine /\
        ((rp_status rp = 304 /\ rp_body rp = [] /\ rp_headers rp = []) \/ rp = finishV negotiate (fst q) f mine ims_on true))
    \/ (calls = [q] /\ exists f hs1 ok1 lm cached,
        fst (fst (compute hs1 q ok1)) = f /\ rp = finishV negotiate (fst q) f mine lm cached).
  Proof. exact (served_ok_spelled hstate compute ims_on negotiate rules_of). Qed.

  (** the URI that is looked up differs from the request in path and query only: every header value (and the method) the
      cache layer reads off it is the real request's *)
  Theorem route_keeps_method_and_headers : forall q,
    rq_method (lreq q) = rq_method (fst q) /\ rq_headers (lreq q) = rq_headers (fst q) /\
    (snd q = None -> lreq q = fst q) /\
    (forall p qu, snd q = Some (p, qu) -> rq_path (lreq q) = p /\ rq_query (lreq q) = qu).
  Proof. exact lreq_same. Qed.

  (** (1) the invariant in plain words, from the empty cache: after every history every variant vector is
      strictly increasing for [Ord for [Header]], hence holds no two entries with equal transformed lists *)
  Theorem variants_sorted : forall ops hs now,
    exists l st' now',
      runV hstate compute cache_on ims_on parse_ims sanitize_ok prime negotiate rules_of dbg ([], hs) now ops = Ok l /\
      runV_state hstate compute cache_on ims_on parse_ims sanitize_ok prime negotiate rules_of dbg ([], hs) now ops = Ok (st', now') /\
      forall k e, pc_find k (fst st') = Some e ->
        StronglySorted (fun p q => cmp_hcoll (snd p) (snd q) = Lt) (vr_resps (ve_var e)) /\
        NoDup (map snd (vr_resps (ve_var e))) /\ vr_resps (ve_var e) <> [].
  Proof. exact (variants_sorted_from_empty hstate compute cache_on ims_on parse_ims sanitize_ok prime negotiate rules_of dbg). Qed.

  (** (1') ... and every cache item is built with the rules of the path it is stored under — for a page served through an
      internal route: the internal path, whichever of the two sites ([handle_cache]'s miss arm, [handle_vary_missing])
      created the item —, and every stored list is what those rules make of the headers of a request cached under that path *)
  Theorem items_built_with_rules_of_their_path : forall ops hs now,
    exists l st' now',
      runV hstate compute cache_on ims_on parse_ims sanitize_ok prime negotiate rules_of dbg ([], hs) now ops = Ok l /\
      runV_state hstate compute cache_on ims_on parse_ims sanitize_ok prime negotiate rules_of dbg ([], hs) now ops = Ok (st', now') /\
      forall k e, pc_find k (fst st') = Some e ->
        vr_refs (ve_var e) = rules_of (kpath k) /\
        forall f hc, In (f, hc) (vr_resps (ve_var e)) ->
          map fst hc = map ru_name (rules_of (kpath k)) /\
          exists q1 hs1 ok1, fst (fst (compute hs1 q1 ok1)) = f /\ cpath q1 = kpath k /\
                             hc = headers_for_request (rules_of (kpath k)) (fst q1).
  Proof. exact (entries_of_their_path hstate compute cache_on ims_on parse_ims sanitize_ok prime negotiate rules_of dbg). Qed.

  (** (2) the vector is a finite map *transformed header list -> response*: on a sorted vector
      [get_by_request] returns the stored response whose list equals the request's, or — when there is
      none — the insertion position that keeps the vector sorted *)
  Theorem lookup_refines_map : forall (v : varied fat) r,
    vsorted (vr_resps v) ->
    let t := headers_for_request (vr_refs v) r in
    (exists f, vfind t (vr_resps v) = Some f /\ In (f, t) (vr_resps v) /\ vr_get_by_request v r = Ok (Hit (f, t)))
    \/ (vfind t (vr_resps v) = None /\
        exists L G, vr_resps v = L ++ G /\ vr_get_by_request v r = Ok (Miss (length L) t) /\
                    Forall (fun q => hlt (snd q) t) L /\ Forall (fun q => hlt t (snd q)) G).
  Proof. exact (@get_by_request_sorted fat). Qed.

  (** ... and inserting there keeps it sorted and updates exactly that key *)
  Theorem insert_refines_map : forall (L G : list (fat * hcoll)) f t t',
    vsorted (L ++ G) -> Forall (fun q => hlt (snd q) t) L -> Forall (fun q => hlt t (snd q)) G ->
    vsorted (L ++ (f, t) :: G) /\
    vfind t' (L ++ (f, t) :: G) = if hc_eqb t t' then Some f else vfind t' (L ++ G).
  Proof. exact insert_refines_map_lemma. Qed.

  (** on *any* vector, sorted or not, a lookup never returns a variant stored for a different list *)
  Theorem lookup_never_wrong_variant : forall (v : varied fat) r p,
    vr_get_by_request v r = Ok (Hit p) -> In p (vr_resps v) /\ snd p = headers_for_request (vr_refs v) r.
  Proof. exact (@get_by_request_exact fat). Qed.

  (** (2) + (3) at the level of histories.  Host with response cache whose GET/HEAD responses are all
      cacheable under the path key and never expire; requests pass sanitize and carry no If-Modified-Since.
      For every history of requests (any method, any headers), page clears, clear-all and waits, the
      observations *and* the handler invocations of the server are those of the specification [spec_run],
      a server that keeps a finite map (page, transformed header list) -> response. *)
  Theorem vary_refines_map : forall ops hs now,
    always_stored hstate compute ->
    Forall (op_ok ims_on sanitize_ok prime) ops ->
    runV hstate compute true ims_on parse_ims sanitize_ok prime negotiate rules_of dbg ([], hs) now ops
    = Ok (spec_run hstate compute true ims_on prime negotiate rules_of [] hs ops).
  Proof. exact (vary_refines_map_from_empty hstate compute ims_on parse_ims sanitize_ok prime negotiate rules_of dbg). Qed.

  (** (3) without clears: the handler is invoked exactly once per distinct (page, transformed header list) —
      no class twice, and every requested class once *)
  Theorem computed_once_per_tuple : forall ops hs now,
    always_stored hstate compute ->
    Forall (op_ok ims_on sanitize_ok prime) ops -> Forall (gh_req prime) ops ->
    exists l,
      runV hstate compute true ims_on parse_ims sanitize_ok prime negotiate rules_of dbg ([], hs) now ops = Ok l /\
      NoDup (map (cls rules_of) (calls_of l)) /\
      (forall r0, In (OReq r0) ops -> In (cls rules_of (prime r0)) (map (cls rules_of) (calls_of l))).
  Proof. exact (computed_once_from_empty hstate compute ims_on parse_ims sanitize_ok prime negotiate rules_of dbg). Qed.

  (** (4) the component of a rule in the transformed list: the transformation of the header's value when the
      header is present and text (visible ASCII / TAB), the rule's default — untransformed — when it is
      absent or not text *)
  Theorem default_applied : forall ref r,
    (header_get (ru_name ref) r = None -> header_for ref r = (ru_name ref, ru_default ref)) /\
    (forall v, header_get (ru_name ref) r = Some v -> to_str_ok v = false -> header_for ref r = (ru_name ref, ru_default ref)) /\
    (forall v, header_get (ru_name ref) r = Some v -> to_str_ok v = true -> header_for ref r = (ru_name ref, ru_xf ref v)).
  Proof. exact default_applied_lemma. Qed.

  (** (5) every reply the theorems above speak of has the form [finishV r f (own_tuple lr) ..] ([r]: the request, [lr]:
      the URI it is cached under); if its body is not empty its [vary] header is exactly "accept-encoding, range" followed
      by ", <name>" for each rule of the path of [lr] in rule order — each rule header, whatever its name: also one that
      is equal to, a piece of or an extension of "accept-encoding" / "range" (a rule on [range] itself is listed again:
      the code does not merge, the property asks for the fixed part plus each rule header) —; an empty body gets no [vary]
      header from the cache layer *)
  Theorem vary_header_eq : forall r lr f lm cached,
    let rp := finishV negotiate r f (own_tuple rules_of lr) lm cached in
    (rp_body rp <> [] ->
     assoc (B "vary") (rp_headers rp)
     = Some (B "accept-encoding, range" ++ concat (map (fun ru => B ", " ++ ru_name ru) (rules_of (rq_path lr)))))
    /\ (rp_body rp = [] -> assoc (B "vary") (rp_headers rp)
                           = match negotiate r f with Some _ => None | None => assoc (B "vary") (f_headers f) end).
  Proof. exact (finishV_vary negotiate rules_of). Qed.

  (** ... in the words of the property ("advertises vary: accept-encoding, range plus each rule header"): the value starts
      with the fixed part, and every rule of the page is a whole element of the comma-separated list that follows: its
      name stands between ", " and the end of the value or the next ", " *)
  Theorem vary_lists_every_rule_header : forall r lr f lm cached ru,
    let rp := finishV negotiate r f (own_tuple rules_of lr) lm cached in
    rp_body rp <> [] -> In ru (rules_of (rq_path lr)) ->
    exists before after,
      assoc (B "vary") (rp_headers rp) = Some (B "accept-encoding, range" ++ before ++ B ", " ++ ru_name ru ++ after) /\
      (after = [] \/ exists rest, after = B ", " ++ rest).
  Proof. exact (finishV_lists_rule negotiate rules_of). Qed.

  (** (6) the position of a missing variant is searched before the await on the layer below.  After the
      repair of [handle_vary_missing] the second half of a request may run against *any* cache that
      satisfies the invariant (other requests to the page, clears, expiry in between): no panic, the
      invariant (sortedness) is kept, the answer is the response computed for this very request *)
  Theorem stale_position_safe : forall c hs now p,
    InvV hstate compute rules_of c -> parked_ok rules_of p ->
    exists st' rp lg,
      serveV_phase2 hstate compute cache_on ims_on negotiate rules_of dbg c hs now p = Ok (st', rp, lg, [parked_req p]) /\
      InvV hstate compute rules_of (fst st') /\ own_reply hstate compute negotiate rules_of (parked_req p) rp /\
      snd st' = snd (fst (compute hs (parked_req p) (parked_flag p))) /\
      lg = snd (compute hs (parked_req p) (parked_flag p)).
  Proof. exact (phase2_ok hstate compute cache_on ims_on negotiate rules_of dbg). Qed.
End C05.

(** ---- connection with C03 / C04 ---- *)
Section C05_C03.
  Variable hstate : Type.
  Variable compute : hstate -> routed -> bool -> fat * hstate * list bytes.
  Variable cache_on : bool.
  Variable ims_on : bool.
  Variable parse_ims : bytes -> option Z.
  Variable sanitize_ok : request -> bool.
  Variable prime : request -> routed.
  Variable negotiate : request -> fat -> option (N * bytes).
  Variable rules_of : bytes -> list rule.
  Variable dbg : bool.
  (** handlers set no [vary] header of their own (Model/CacheX.v appends the cache's header, the code replaces) *)
  Hypothesis Hnovary : forall hs q ok, assoc (B "vary") (f_headers (fst (fst (compute hs q ok)))) = None.

  (** the server with sorted variant vectors and binary search (Model/Vary.v) and the server of Model/CacheX.v
      (C03/C04's model of the merged code — all repairs on —: variants as an association list, first match),
      instantiated with the two halves of [prime] as its rewriting Primes and its override URI, [vary_tuple := transformed
      values of the rules of the URI that is looked up], [vary_header := the header [get_header] builds], plain responses
      (no stream, no filler bytes), the default status filter and the default redirect in [clear_page], produce the same
      observations for every history from related states — internal routes included —; so every theorem of C03/C04
      about Model/CacheX.v holds of the vector server *)
  Theorem vector_refines_assoc_list : forall ops cV c hs now,
    InvV hstate compute rules_of cV -> cache_rel rules_of cV c ->
    exists l,
      runV hstate compute cache_on ims_on parse_ims sanitize_ok prime negotiate rules_of dbg (cV, hs) now ops = Ok l /\
      map (fun oc => obx_of (fst oc)) l
      = runX hstate (computeX hstate compute) cache_on ims_on true true true true true true status_filter_drop parse_ims
             sanitize_ok (primeX prime) (overrideX prime) (negotiateX negotiate) (vary_tupleX rules_of) (vary_headerX rules_of)
             redirect_target (c, hs) now (map opx_of ops).
  Proof. exact (run_rel hstate compute cache_on ims_on parse_ims sanitize_ok prime negotiate rules_of dbg Hnovary). Qed.

  (** C03's handler contract with the vary tuple made concrete: the response depends on the request only through the
      method class, the URI it is cached under (path; query if the response says the query matters) and the list the
      rules of that path make of its headers — for an internal route: not on the page it is served for *)
  Variable cf : routed -> bool -> fat.
  Hypothesis Hpure : forall hs q ok, fst (fst (compute hs q ok)) = cf q ok.
  Hypothesis contract : forall q q',
    get_or_head (rq_method (fst q)) = true -> get_or_head (rq_method (fst q')) = true ->
    vary_tuple_of rules_of (lreq q) = vary_tuple_of rules_of (lreq q') -> cpath q = cpath q' ->
    (qm (cf q true) = true -> path_query (lreq q) = path_query (lreq q')) ->
    cf q true = cf q' true.
  Hypothesis Herr : forall q, f_spref (cf q false) = SP_NONE.

  (** ... in particular C03's transparency: a handler whose response depends on the request only through
      method class, path, (query) and the *transformed* header values gets, from the caching server with
      vectors, exactly the replies the cache-less server gives — each client receives the response for its own
      transformed values, for every history.  (Since the repair 92a9cd2 — a query-dependent variant does not join an
      entry keyed by the path alone — without the earlier premise that query-dependence is uniform per path.) *)
  Theorem vary_cache_transparent : forall ops hs hsU now,
    Forall (op_no_ims ims_on (primeX prime)) ops ->
    exists l lU,
      runV hstate compute true ims_on parse_ims sanitize_ok prime negotiate rules_of dbg ([], hs) now ops = Ok l /\
      runV hstate compute false ims_on parse_ims sanitize_ok prime negotiate rules_of dbg ([], hsU) now ops = Ok lU /\
      Forall2 obs_equiv (map fst l) (map fst lU).
  Proof.
    exact (vary_transparent hstate compute ims_on parse_ims sanitize_ok prime negotiate rules_of dbg Hnovary
             cf Hpure contract Herr).
  Qed.
End C05_C03.

(** ---- (5) on the wire: what [SendKind::send] leaves of the [vary] header ---- *)
Section C05_wire.
  Variable hstate : Type.
  Variable compute : hstate -> routed -> bool -> fat * hstate * list bytes.
  Variable cache_on : bool.
  Variable ims_on : bool.
  Variable parse_ims : bytes -> option Z.
  Variable sanitize_ok : request -> bool.
  Variable prime : request -> routed.
  Variable negotiate : request -> fat -> option (N * bytes).
  Variable rules_of : bytes -> list rule.
  Variable dbg : bool.
  (** the operator's Package extensions, the body of the host's 416 page — arbitrary *)
  Variable package : request -> list (bytes * bytes) -> list (bytes * bytes).
  Variable err416_body : bytes.

  (** for every history from every cache state that satisfies the invariant, whatever the sanitize verdict and
      the requested range of each request: every response [send] (as repaired) passes to the connection with a
      non-empty body — the reply of [handle_cache], a range cut out of it, or the 416 page that replaces it —
      carries [vary: accept-encoding, range, <the rule headers, in rule order, of the path the page is cached under>]
      (for an internal route: of the internal path — since kvarn 31ad067 also on the 416 page), provided the Package
      extensions leave [vary] alone.  A HEAD request gets the same head (the body is withheld after it). *)
  Theorem wire_vary_advertised : forall ops c hs now,
    InvV hstate compute rules_of c ->
    (forall r hs0, assoc (B "vary") (package r hs0) = assoc (B "vary") hs0) ->
    exists l,
      runV hstate compute cache_on ims_on parse_ims sanitize_ok prime negotiate rules_of dbg (c, hs) now ops = Ok l /\
      Forall2 (fun o (oc : obs * list routed) =>
                 match o, fst oc with
                 | OReq r0, ObReply rp _ =>
                     forall san w, send_v rules_of package err416_body true true (prime r0) san rp = Ok w -> w_body w <> [] ->
                       assoc (B "vary") (w_headers w)
                       = Some (B "accept-encoding, range" ++ concat (map (fun ru => B ", " ++ ru_name ru) (rules_of (cpath (prime r0)))))
                 | _, _ => True
                 end) ops l.
  Proof. exact (wire_vary_run hstate compute cache_on ims_on parse_ims sanitize_ok prime negotiate rules_of dbg package err416_body). Qed.

  (** when [send] does not replace the response by the 416 page (a 304 never is: repair 9ae9b1a; the range is
      applied to the body [send] keeps: none after a 1xx / 204 / 304 head), the [vary] header on the wire is the one
      [handle_cache] set (repaired or not), and a non-empty body on the wire comes from a non-empty body *)
  Theorem send_keeps_vary : forall fixed fix_ov q san rp w,
    (forall r' hs0, assoc (B "vary") (package r' hs0) = assoc (B "vary") hs0) ->
    send_v rules_of package err416_body fixed fix_ov q san rp = Ok w ->
    ~ (exists rg e, san = Some rg /\ (rp_status rp =? 304) = false /\
                    apply_range true rg (rp_status rp) (send_body rp) = Err e) ->
    assoc (B "vary") (w_headers w) = assoc (B "vary") (rp_headers rp) /\ (w_body w <> [] -> rp_body rp <> []).
  Proof. exact (send_keeps_vary_lemma rules_of package err416_body). Qed.

  (** a 304 Not Modified goes out as it is — head only, its headers passed to the Package extensions — whatever the
      [range] header of the request says (repair 9ae9b1a: before, the range was cut out of its empty body and the
      client got the 416 page) *)
  Theorem wire_not_modified_as_is : forall fixed fix_ov q san rp,
    rp_status rp = 304 ->
    send_v rules_of package err416_body fixed fix_ov q san rp
    = Ok (mkW 304 (package (fst q) (rp_headers rp)) [] (rp_last_modified rp)).
  Proof. exact (send_not_modified rules_of package err416_body). Qed.

  (** ---- (7) If-Modified-Since.  Since the repair 832d735 the 304 needs both a fresh date for the cache entry — an
      entry for the request's key, a request that passed sanitize, GET or HEAD, and a date not older than the
      *entry's* creation minus one second — AND the variant the request selects in that entry: then it is sent
      (nothing computed, the cache as the lookup left it); a request whose own transformed tuple is not in the
      entry runs the handler exactly once and gets the response computed for itself ... ---- *)
  Theorem not_modified_only_for_stored_variant : forall c hs now r0 k e c1,
    InvV hstate compute rules_of c ->
    cache_on = true /\ ims_on = true /\ vlookup (lreq (prime r0)) c now = ((k, Some e), c1) /\
    sanitize_ok r0 = true /\ get_or_head (rq_method (lreq (prime r0))) = true /\
    (exists v t, header (B "if-modified-since") (lreq (prime r0)) = Some v /\ parse_ims v = Some t /\ ims_fresh t (ve_created e) = true) ->
    (forall p, vr_get_by_request (ve_var e) (lreq (prime r0)) = Ok (Hit p) ->
       serveV hstate compute cache_on ims_on parse_ims sanitize_ok prime negotiate rules_of dbg (c, hs) now r0
       = Ok ((c1, hs), {| rp_status := 304; rp_headers := []; rp_body := []; rp_identity := []; rp_last_modified := ims_on;
                          rp_from_cache := true |}, [], [])) /\
    (forall pos hc, vr_get_by_request (ve_var e) (lreq (prime r0)) = Ok (Miss pos hc) ->
       exists st' rp lg,
         serveV hstate compute cache_on ims_on parse_ims sanitize_ok prime negotiate rules_of dbg (c, hs) now r0
         = Ok (st', rp, lg, [prime r0]) /\
         own_reply hstate compute negotiate rules_of (prime r0) rp).
  Proof. exact (not_modified_needs_variant hstate compute cache_on ims_on parse_ims sanitize_ok prime negotiate rules_of dbg). Qed.

  (** ... it is truthful towards every client whose copy came out of the entry it is decided on: a request
      with the same path and an equal transformed list selects, in that entry, the very variant the earlier
      request was served ... *)
  Theorem not_modified_same_entry_sound : forall c k e r r1 p,
    InvV hstate compute rules_of c -> pc_find k c = Some e -> kpath k = rq_path r ->
    rq_path r1 = rq_path r -> own_tuple rules_of r1 = own_tuple rules_of r ->
    vr_get_by_request (ve_var e) r1 = Ok (Hit p) ->
    vr_get_by_request (ve_var e) r = Ok (Hit p) /\ snd p = own_tuple rules_of r.
  Proof. exact (not_modified_same_entry hstate compute rules_of). Qed.

  (** ... and the value stored under a key never changes under its date: after every step each key holds
      what it held, nothing, or an entry dated with the time of the step.  (So a date that is fresh for an
      entry stems from that very entry value, up to the one-second resolution of HTTP dates — C04.) *)
  Theorem entry_changes_are_dated : forall st now o st' now' ob calls,
    stepV hstate compute cache_on ims_on parse_ims sanitize_ok prime negotiate rules_of dbg st now o = Ok (st', now', ob, calls) ->
    forall k, pc_find k (fst st') = pc_find k (fst st) \/ pc_find k (fst st') = None \/
              exists e', pc_find k (fst st') = Some e' /\ ve_created e' = now.
  Proof. exact (entry_changes_are_dated_lemma hstate compute cache_on ims_on parse_ims sanitize_ok prime negotiate rules_of dbg). Qed.
  (** ... over histories.  A client holds the response [f] for the transformed tuple of its request [r], dated
      [L]: the cache [c2] holds, under one of the two keys of the URL, an entry with that variant which is not
      older than [L] — or no entry (the response was not stored).  After any history all of whose requests
      happen later than [L], a request [r'] for the same URL with an equal transformed list finds an entry [e]
      that is not younger than [L] (this is what the freshness test of the 304 establishes, up to the one-second
      resolution of HTTP dates: C04) only if that entry still holds [f] for it: "not modified" is the truth.
      [one_key]: the URL is cached under one of its two keys only (pages that do not switch between the server
      cache preferences QueryMatters and Full). *)
  Theorem honest_not_modified_sound : forall L c2 hs2 t1 ops2 c3 hs3 t3 r r' f k e c3',
    InvV hstate compute rules_of c2 ->
    (pc_find (key_pq r) c2 = None \/ pc_find (key_p r) c2 = None) ->
    ((exists k0 e0, (k0 = key_pq r \/ k0 = key_p r) /\ pc_find k0 c2 = Some e0 /\
                    vr_get_by_request (ve_var e0) r = Ok (Hit (f, own_tuple rules_of r)) /\ L <= ve_created e0)
     \/ (pc_find (key_pq r) c2 = None /\ pc_find (key_p r) c2 = None)) ->
    later L t1 ops2 ->
    runV_state hstate compute cache_on ims_on parse_ims sanitize_ok prime negotiate rules_of dbg (c2, hs2) t1 ops2 = Ok ((c3, hs3), t3) ->
    path_query r' = path_query r -> own_tuple rules_of r' = own_tuple rules_of r ->
    vlookup r' c3 t3 = ((k, Some e), c3') -> ve_created e <= L ->
    vr_get_by_request (ve_var e) r' = Ok (Hit (f, own_tuple rules_of r')).
  Proof. exact (honest_not_modified hstate compute cache_on ims_on parse_ims sanitize_ok prime negotiate rules_of dbg). Qed.

  (** ... and this is how a client comes to hold a copy in that sense: it was served from the cache (dated with
      the entry's date), its response was computed and stored (dated with the time of the step = the new
      entry's date), or computed and pushed into the entry it missed in (dated with the old entry's date; the
      entry that now holds the variant is dated with the time of the step) when the variant is admitted to the cache
      like a new item (repairs 8fe98d4, 92a9cd2: handler preference, method, status filter, kvarn-cache-control,
      size limit; a query-dependent response only into an entry keyed with the query); a variant that is not admitted
      is served and the cache left as it was — the entry does not hold the client's tuple, so a later conditional
      request for it is recomputed ([not_modified_only_for_stored_variant]) *)
  Theorem served_copy_is_held :
    (forall r c now k e c1 f,
       vlookup r c now = ((k, Some e), c1) -> vr_get_by_request (ve_var e) r = Ok (Hit (f, own_tuple rules_of r)) ->
       holds_copy rules_of c1 r f (ve_created e)) /\
    (forall c1 hs' now q f lg lm_of cached st' rp lg' calls,
       may_store cache_on (rq_method (lreq q)) f = true ->
       new_and_cache hstate cache_on negotiate rules_of dbg c1 hs' now q f lg lm_of cached = Ok (st', rp, lg', calls) ->
       holds_copy rules_of (fst st') (lreq q) f now /\ rp = finishV negotiate (fst q) f (own_tuple rules_of (lreq q)) (lm_of f) cached) /\
    (forall c hs now q ok k e position headers st' rp lg calls,
       InvV hstate compute rules_of c -> (k = key_pq (lreq q) \/ k = key_p (lreq q)) ->
       pc_find k c = Some e -> vfresh e now = true -> ve_created e <= now ->
       vr_get_by_request (ve_var e) (lreq q) = Ok (Miss position headers) ->
       vary_missing hstate compute cache_on ims_on negotiate rules_of dbg c hs now q ok k position headers = Ok (st', rp, lg, calls) ->
       rp = finishV negotiate (fst q) (fst (fst (compute hs q ok))) (own_tuple rules_of (lreq q)) ims_on true /\
       (if variant_accepted cache_on k (lreq q) (fst (fst (compute hs q ok)))
        then holds_copy rules_of (fst st') (lreq q) (fst (fst (compute hs q ok))) (ve_created e)
        else fst st' = c)).
  Proof.
    exact (conj (hit_gives_copy hstate compute sanitize_ok prime negotiate rules_of dbg)
            (conj (stored_gives_copy hstate compute cache_on sanitize_ok prime negotiate rules_of dbg)
                  (pushed_gives_copy hstate compute cache_on ims_on negotiate rules_of dbg))).
  Qed.
End C05_wire.

(** (5) before the repair of [send] (model component vary.wire_v0; reproduced on the real code): the 416 page
    that replaces a response is not empty and carries no [vary] — on the fixture history and for every page *)
Theorem wire_416_without_vary_v0_refuted :
  (run_vary_wire_v0 wire416_history = wire416_out_v0 /\ run_vary_wire wire416_history = wire416_out) /\
  (forall rules_of err416_body fix_ov q, err416_body <> [] ->
     exists rp w, rp_body rp <> [] /\
       send_v rules_of (fun _ hs => hs) err416_body false fix_ov q (Some (Some (100, 201)))
              (finishV (fun _ _ => None) (fst q) (mkFat 200 [] (B "page") SP_FULL true) (own_tuple rules_of (lreq q)) true true) = Ok w /\
       rp = finishV (fun _ _ => None) (fst q) (mkFat 200 [] (B "page") SP_FULL true) (own_tuple rules_of (lreq q)) true true /\
       w_body w <> [] /\ assoc (B "vary") (w_headers w) = None).
Proof. exact (conj wire416_v0 send_v0_drops_vary). Qed.

(** (5) after 21f0154 and before the repair 31ad067 (model component vary.wire_ov_v0; reproduced on the real code): the 416
    page that replaces a response of an INTERNAL ROUTE listed the rule headers of the request's own path, not those of the
    internal path the replaced response was cached, selected and advertised under — on the fixture history (public /hi with
    a rule on x-pub, routed to /./lang with a rule on accept-language: the 416 said "x-pub"), and for every page: the reply
    of [handle_cache] advertises the rules of [cpath q], the page that replaces it those of [rq_path (fst q)] *)
Theorem wire_416_internal_route_v0_refuted :
  (run_vary_wire_ov_v0 wire416_route_history = wire416_route_out_v0 /\ run_vary_wire wire416_route_history = wire416_route_out) /\
  (forall rules_of err416_body q, err416_body <> [] ->
     let rp := finishV (fun _ _ => None) (fst q) (mkFat 200 [] (B "page") SP_FULL true) (own_tuple rules_of (lreq q)) true true in
     exists w,
       send_v rules_of (fun _ hs => hs) err416_body true false q (Some (Some (100, 201))) rp = Ok w /\ w_body w <> [] /\
       assoc (B "vary") (rp_headers rp) = Some (vary_text (rules_of (cpath q))) /\
       assoc (B "vary") (w_headers w) = Some (vary_text (rules_of (rq_path (fst q))))).
Proof. exact (conj wire416_route_v0 send_ov_v0_wrong_rules). Qed.

(** (7) before the repair 832d735 (model component vary.run_ims_v0; observed on the real code then) "a 304 is only
    sent to a request whose own transformed tuple is stored" was false: the second request's tuple was never computed —
    the dump shows the only stored variant —, and in general the old first half of [handle_cache] answered 304 on the
    entry's date alone, before the variant vector was looked at.  The repaired code computes that variant. *)
Theorem not_modified_only_for_stored_variant_v0_refuted :
  (run_vary_ims_v0 ims_history = ims_history_out_v0 /\ run_vary ims_history = ims_history_out) /\
  (forall hstate cache_on ims_on parse_ims sanitize_ok prime negotiate c (hs : hstate) now r0 k e c1,
     cache_on = true /\ ims_on = true /\ vlookup (lreq (prime r0)) c now = ((k, Some e), c1) /\
     sanitize_ok r0 = true /\ get_or_head (rq_method (lreq (prime r0))) = true /\
     (exists v t, header (B "if-modified-since") (lreq (prime r0)) = Some v /\ parse_ims v = Some t /\ ims_fresh t (ve_created e) = true) ->
     serveV_phase1_v0 hstate cache_on ims_on parse_ims sanitize_ok prime negotiate (c, hs) now r0
     = Ok (inl ((c1, hs), {| rp_status := 304; rp_headers := []; rp_body := []; rp_identity := []; rp_last_modified := ims_on;
                             rp_from_cache := true |}, [], []))).
Proof. exact (conj ims_unselected_variant_v0 not_modified_before_lookup_v0). Qed.

(** (6) before the repair (model component vary.run_v0): the stale position makes [Vec::insert] panic
    when the entry was replaced by a shorter one, and breaks the order otherwise — after which a cached
    variant is missed, recomputed and stored twice.  Both observed on the real code before the fix. *)
Theorem stale_position_v0_refuted :
  (run_vary_v0 stale_panic_history = XL [XN 2] /\ run_vary stale_panic_history = stale_panic_history_out) /\
  (run_vary_v0 stale_unsorted_history = stale_unsorted_history_out_v0 /\
   run_vary stale_unsorted_history = stale_unsorted_history_out).
Proof. exact (conj stale_position_panics_v0 stale_position_unsorts_v0). Qed.

(** ---- non-vacuity ---- *)
Definition ex_rules : list rule :=
  [mkRule (B "x-a") (xform 1) (B "lo"); mkRule (B "X-Up") (xform 0) (B "d"); mkRule (B "x bad") (xform 0) (B "never")].
Definition ex_req (hs : list (bytes * bytes)) : request := mkReq M_GET (B "/v") None hs 1.

(** defaults: absent, not text, non-token rule name; transformation otherwise (mixed-case rule name) *)
Example ex_headers_for :
  headers_for_request ex_rules (ex_req [(B "x-a", [233; 116]); (B "x-up", B "EN")])
  = [(B "x-a", B "lo"); (B "X-Up", B "en"); (B "x bad", B "never")]
  /\ headers_for_request ex_rules (ex_req [(B "x-a", B "zebra")])
  = [(B "x-a", B "hi"); (B "X-Up", B "d"); (B "x bad", B "never")].
Proof. split; vm_compute; reflexivity. Qed.

(** a sorted three-variant vector: a hit, and a miss with its insertion position *)
Definition ex_vec : varied fat :=
  mkVaried [mkRule (B "x-a") (xform 0) (B "d")]
    [ (mkFat 200 [] (B "A") SP_FULL true, [(B "x-a", B "a")]);
      (mkFat 200 [] (B "C") SP_FULL true, [(B "x-a", B "c")]);
      (mkFat 200 [] (B "E") SP_FULL true, [(B "x-a", B "e")]) ].
Example ex_vec_sorted : vsorted (vr_resps ex_vec).
Proof. repeat constructor. Qed.
Example ex_vec_lookups :
  vr_get_by_request ex_vec (ex_req [(B "x-a", B "C")]) = Ok (Hit (mkFat 200 [] (B "C") SP_FULL true, [(B "x-a", B "c")]))
  /\ vr_get_by_request ex_vec (ex_req [(B "x-a", B "b")]) = Ok (Miss 1 [(B "x-a", B "b")])
  /\ vr_get_by_request ex_vec (ex_req []) = Ok (Miss 2 [(B "x-a", B "d")]).
Proof. repeat split; vm_compute; reflexivity. Qed.

(** tuples whose components run together to the same text are different keys: the order compares component by
    component (a comparison of the concatenated values — seeded change C05-1 — would call them equal) *)
Example ex_ambiguous_tuples_differ :
  let t1 := [(B "x-a", B "ab"); (B "x-b", B "c")] in
  let t2 := [(B "x-a", B "a"); (B "x-b", B "bc")] in
  let t3 := [(B "x-a", B "abc"); (B "x-b", [])] in
  concat (map snd t1) = concat (map snd t2) /\ concat (map snd t2) = concat (map snd t3) /\
  cmp_hcoll t1 t2 = Gt /\ cmp_hcoll t2 t3 = Lt /\ cmp_hcoll t1 t3 = Lt /\ hc_eqb t1 t2 = false.
Proof. repeat split; vm_compute; reflexivity. Qed.

(** the hypotheses of [vary_refines_map] / [computed_once_per_tuple] are satisfiable *)
Definition ex_compute (hs : N) (r : routed) (ok : bool) : fat * N * list bytes :=
  (mkFat 200 [] (B "page") SP_FULL true, hs + 1, [B "h"]).
Example ex_always_stored : always_stored N ex_compute.
Proof.
  intros hs r GH. cbn [ex_compute fst]. unfold may_store, wants_cache. rewrite GH. vm_compute. repeat split.
Qed.
Example ex_ops_ok :
  Forall (op_ok false (fun _ => true) no_route) [OReq (ex_req [(B "x-a", B "b")]); OReq (ex_req [])]
  /\ Forall (gh_req no_route) [OReq (ex_req [(B "x-a", B "b")]); OReq (ex_req [])].
Proof. split; repeat constructor. Qed.

(** the vary header equation on a concrete reply *)
Example ex_vary_header :
  assoc (B "vary") (rp_headers (finishV (fun _ _ => None) (ex_req []) (mkFat 200 [] (B "page") SP_FULL true)
                                        (own_tuple (fun _ => ex_rules) (ex_req [])) true true))
  = Some (B "accept-encoding, range, x-a, X-Up, x bad").
Proof. vm_compute. reflexivity. Qed.

(** the hypotheses of [vector_refines_assoc_list] / [vary_cache_transparent] are satisfiable
    (a handler that ignores everything but the sanitize verdict) *)
Definition ex_cf (r : routed) (ok : bool) : fat :=
  if ok then mkFat 200 [] (B "page") SP_FULL true else mkFat 400 [] (B "bad") SP_NONE true.
Definition ex_compute2 (hs : N) (r : routed) (ok : bool) : fat * N * list bytes := (ex_cf r ok, hs + 1, []).
Example ex_contract :
  (forall hs r ok, assoc (B "vary") (f_headers (fst (fst (ex_compute2 hs r ok)))) = None) /\
  (forall hs r ok, fst (fst (ex_compute2 hs r ok)) = ex_cf r ok) /\
  (forall r r', ex_cf r true = ex_cf r' true) /\
  (forall r, f_spref (ex_cf r false) = SP_NONE) /\
  cache_rel (fun _ => ex_rules) [] [].
Proof.
  split; [intros hs r [|]; reflexivity|]. split; [reflexivity|]. split; [reflexivity|]. split; [reflexivity|].
  apply cache_rel_nil.
Qed.

(** ---- non-vacuity of the wire / If-Modified-Since theorems ---- *)
Example ex_package_keeps_vary : package_keeps_vary (fun _ hs => hs).
Proof. intros r hs. reflexivity. Qed.

(** a reply that [send] replaces by the 416 page, and one it leaves alone (range served) *)
Definition ex_reply : reply :=
  finishV (fun _ _ => None) (ex_req []) (mkFat 200 [] (B "page") SP_FULL true) (own_tuple (fun _ => ex_rules) (ex_req [])) true true.
Example ex_replaced :
  replaced (Some (Some (100, 201))) ex_reply /\ ~ replaced (Some (Some (1, 3))) ex_reply /\
  (exists w, send_v (fun _ => ex_rules) (fun _ hs => hs) (B "ERR") true true (no_route (ex_req [])) (Some (Some (100, 201))) ex_reply = Ok w /\
             w_status w = 416 /\ assoc (B "vary") (w_headers w) = Some (B "accept-encoding, range, x-a, X-Up, x bad")) /\
  (exists w, send_v (fun _ => ex_rules) (fun _ hs => hs) (B "ERR") true true (no_route (ex_req [])) (Some (Some (1, 3))) ex_reply = Ok w /\
             w_status w = 206 /\ w_body w = B "ag" /\
             assoc (B "vary") (w_headers w) = Some (B "accept-encoding, range, x-a, X-Up, x bad")).
Proof.
  split; [exists (Some (100, 201)), E_RANGE; split; [reflexivity | split; reflexivity]|].
  split; [intros (rg & e & Heq & _ & A); inversion Heq; subst; vm_compute in A; discriminate|].
  split; eexists; (split; [vm_compute; reflexivity|]); repeat split; vm_compute; reflexivity.
Qed.

(** a 304 with a range that would start after its (empty) body: sent as it is *)
Example ex_not_modified_range :
  send_v (fun _ => ex_rules) (fun _ hs => hs) (B "ERR") true true (no_route (ex_req [])) (Some (Some (0, 2)))
         {| rp_status := 304; rp_headers := []; rp_body := []; rp_identity := []; rp_last_modified := true; rp_from_cache := true |}
  = Ok (mkW 304 [] [] true).
Proof. reflexivity. Qed.

(** a cache with one entry holding one variant of /v, computed by [ex_compute] for the request without headers *)
Definition ex_cache : vcache :=
  [ (KPath (B "/v"),
     mkVE (mkVaried ex_rules [ (mkFat 200 [] (B "page") SP_FULL true, headers_for_request ex_rules (ex_req [])) ]) 500 None) ].
Example ex_cache_inv : InvV N ex_compute (fun _ => ex_rules) ex_cache.
Proof.
  intros k e H. cbn [ex_cache pc_find] in H. destruct (key_eqb k (KPath (B "/v"))) eqn:E; [|discriminate].
  inversion H; subst e; clear H. apply key_eqb_eq in E. subst k.
  split; [repeat constructor|]. split; [discriminate|]. split; [reflexivity|].
  intros f hc [Eq | []]. inversion Eq; subst. exists (no_route (ex_req [])). split; [exists 0, true; reflexivity|]. split; reflexivity.
Qed.
(** a request whose own tuple (x-a class "hi") is not stored meets the date condition of the 304 (before the repair
    it was answered 304; now it is computed: second clause of [not_modified_only_for_stored_variant]) ... *)
Example ex_ims_hit :
  let r0 := ex_req [(B "if-modified-since", B "@T+100"); (B "x-a", B "zebra")] in
  ims_hit true true parse_ims_fix (fun _ => true) no_route ex_cache 500 r0 (KPath (B "/v"))
          (mkVE (mkVaried ex_rules [ (mkFat 200 [] (B "page") SP_FULL true, headers_for_request ex_rules (ex_req [])) ]) 500 None) ex_cache
  /\ exists pos hc, vr_get_by_request (mkVaried ex_rules [ (mkFat 200 [] (B "page") SP_FULL true, headers_for_request ex_rules (ex_req [])) ]) r0
                    = Ok (Miss pos hc).
Proof.
  split.
  - repeat split; try reflexivity. exists (B "@T+100"), 100%Z. repeat split; vm_compute; reflexivity.
  - eexists; eexists. vm_compute. reflexivity.
Qed.
(** ... and one that selects the stored variant (x-a absent or not text: default "lo") is told the truth
    (first clause) *)
Example ex_same_entry :
  vr_get_by_request (mkVaried ex_rules [ (mkFat 200 [] (B "page") SP_FULL true, headers_for_request ex_rules (ex_req [])) ]) (ex_req [])
  = Ok (Hit (mkFat 200 [] (B "page") SP_FULL true, headers_for_request ex_rules (ex_req [])))
  /\ own_tuple (fun _ => ex_rules) (ex_req []) = own_tuple (fun _ => ex_rules) (ex_req [(B "x-a", [233])]).
Proof. split; vm_compute; reflexivity. Qed.

(** the hypotheses of [honest_not_modified_sound] are met by [ex_cache] (one entry under the path key), the client
    of [ex_same_entry], a history of one wait and one request of another client, and a date of 500 ms *)
Example ex_honest :
  InvV N ex_compute (fun _ => ex_rules) ex_cache /\
  (pc_find (key_pq (ex_req [])) ex_cache = None \/ pc_find (key_p (ex_req [])) ex_cache = None) /\
  holds_copy (fun _ => ex_rules) ex_cache (ex_req []) (mkFat 200 [] (B "page") SP_FULL true) 500 /\
  later 500 500 [OWait 2000; OReq (ex_req [(B "x-a", B "zebra")])] /\
  ~ later 500 500 [OReq (ex_req [(B "x-a", B "zebra")])].
Proof.
  split; [exact ex_cache_inv|]. split; [left; reflexivity|]. split.
  - left. exists (KPath (B "/v")), (mkVE (mkVaried ex_rules [ (mkFat 200 [] (B "page") SP_FULL true, headers_for_request ex_rules (ex_req [])) ]) 500 None).
    split; [right; reflexivity|]. split; [reflexivity|]. split; [vm_compute; reflexivity|]. cbn [ve_created]. lia.
  - split; [cbn; lia | cbn; lia].
Qed.

(** ---- an internal route: a Prime answers the public /hi with /./lang; the page is looked up and cached under /./lang, its
    transformed list is the one the rules of /./lang (not those of /hi) make of the request's headers, and that is what the
    [vary] header lists — also on the 416 page that replaces the reply ---- *)
Definition ex_routed : routed :=
  (mkReq M_GET (B "/hi") (Some (B "q=1")) [(B "accept-language", B "DE"); (B "x-pub", B "Y")] 1, Some (B "/./lang", None)).
Definition ex_route_rules (p : bytes) : list rule :=
  if beq p (B "/./lang") then [mkRule (B "accept-language") (xform 0) (B "en")]
  else if beq p (B "/hi") then [mkRule (B "x-pub") (xform 0) (B "p")] else [].
Example ex_route :
  cpath ex_routed = B "/./lang" /\ key_p (lreq ex_routed) = KPath (B "/./lang") /\
  own_tuple ex_route_rules (lreq ex_routed) = [(B "accept-language", B "de")] /\
  own_tuple ex_route_rules (fst ex_routed) = [(B "x-pub", B "y")] /\
  (let rp := finishV (fun _ _ => None) (fst ex_routed) (mkFat 200 [] (B "page") SP_FULL true)
                     (own_tuple ex_route_rules (lreq ex_routed)) true true in
   assoc (B "vary") (rp_headers rp) = Some (B "accept-encoding, range, accept-language") /\
   exists w, send_v ex_route_rules (fun _ hs => hs) (B "ERR") true true ex_routed (Some (Some (100, 201))) rp = Ok w /\
             w_status w = 416 /\ assoc (B "vary") (w_headers w) = Some (B "accept-encoding, range, accept-language")).
Proof.
  repeat split; try (vm_compute; reflexivity).
  eexists. split; [vm_compute; reflexivity|]. split; vm_compute; reflexivity.
Qed.

(** a rule header that is a piece of the fixed part is listed like any other *)
Example ex_overlapping_name :
  assoc (B "vary") (rp_headers (finishV (fun _ _ => None) (ex_req []) (mkFat 200 [] (B "page") SP_FULL true)
          (own_tuple (fun _ => [mkRule (B "accept") (xform 0) (B "d"); mkRule (B "range") (xform 0) (B "d")]) (ex_req [])) true true))
  = Some (B "accept-encoding, range, accept, range").
Proof. vm_compute. reflexivity. Qed.

(** ---- which rules a page gets ([Vary::rules_from_path] = [extensions::RuleSet::get] on the rule set [add_mut] keeps) ----
    [rules_fix] — the [rules_of] with which the theorems above are instantiated for the model the code is compared with
    (vary.run / vary.spec / vary.wire) — gives a path the rules of the MOST SPECIFIC rule set added for a pattern that covers
    it (C14's independent resolver [resolve]: exact before wildcard, then the longer pattern; the rules added last for it),
    for every rule set and every order of addition. *)
Theorem vary_rules_of_most_specific : forall (vr : list (bytes * list vrule)) (p : bytes),
  rules_fix vr p = map conv_rule (rules_or_none (resolve vr p)).
Proof. exact rules_fix_resolve. Qed.

(** an exact rule for the path wins against every wildcard that covers the path too — "<path>*", which is LONGER than
    the path, and "<path minus its last byte>*", which is as long, included — whatever the order of addition ... *)
Theorem vary_exact_rule_wins_c05 : forall (vr : list (bytes * list vrule)) (p : bytes) (rs : list vrule),
  is_wild p = false -> last_added vr p = Some rs -> rules_fix vr p = map conv_rule rs.
Proof. exact rules_fix_exact_wins. Qed.

(** ... without one the longest wildcard that covers it; and a path no rule covers has no rules *)
Theorem vary_longest_pattern_wins_c05 : forall (vr : list (bytes * list vrule)) (p q : bytes) (rs : list vrule),
  (forall x, In x (map fst vr) -> covers x p = true -> is_wild x = true /\ (length x <= length q)%nat) ->
  is_wild q = true -> covers q p = true -> last_added vr q = Some rs -> rules_fix vr p = map conv_rule rs.
Proof. exact rules_fix_longest_pattern_wins. Qed.

Theorem vary_uncovered_path_has_no_rules : forall (vr : list (bytes * list vrule)) (p : bytes),
  (forall x, In x (map fst vr) -> covers x p = false) -> rules_fix vr p = [].
Proof. exact rules_fix_uncovered. Qed.

(** the seeded change C05-9 (rules ordered by the length of the pattern text alone, stable): "/docs*" and — added first —
    "/doc*" shadow the exact rule "/docs"; the page's accept-language variants sv / en then share one key *)
Theorem length_only_shadows_exact_refuted :
  map ru_name (rules_fix w9_star (B "/docs")) = [B "accept-language"] /\
  map ru_name (rules_fix (rev w9_star) (B "/docs")) = [B "accept-language"] /\
  map ru_name (rules_fix w9_tie (B "/docs")) = [B "accept-language"] /\
  map ru_name (rules_fix_len_only w9_star (B "/docs")) = [B "x-b"] /\
  map ru_name (rules_fix_len_only (rev w9_star) (B "/docs")) = [B "x-b"] /\
  map ru_name (rules_fix_len_only w9_tie (B "/docs")) = [B "x-b"] /\
  headers_for_request (rules_fix w9_tie (B "/docs")) (w9_req (B "sv")) <> headers_for_request (rules_fix w9_tie (B "/docs")) (w9_req (B "en")) /\
  headers_for_request (rules_fix_len_only w9_tie (B "/docs")) (w9_req (B "sv")) =
  headers_for_request (rules_fix_len_only w9_tie (B "/docs")) (w9_req (B "en")) /\
  headers_for_request (rules_fix_len_only w9_star (B "/docs")) (w9_req (B "sv")) =
  headers_for_request (rules_fix_len_only w9_star (B "/docs")) (w9_req (B "en")).
Proof. exact length_only_shadows_exact_refuted_w. Qed.

(** ---- a rule header present with an EMPTY value (seeded change C03-11) ----
    it is a text value like any other ([default_applied], third clause, at v = ""): its component is the transformation
    of the empty string; a request carrying it and one without the header select different variants whenever
    transformation("") is not the rule's default *)
Theorem empty_value_is_transformed : forall (ref : rule) (r r' : request),
  header_get (ru_name ref) r = Some [] ->
  header_for ref r = (ru_name ref, ru_xf ref []) /\
  (header_get (ru_name ref) r' = None -> ru_xf ref [] <> ru_default ref -> header_for ref r <> header_for ref r').
Proof.
  intros ref r r' H. split; [exact (empty_value_transformed ref r H)|]. intros H' D. exact (empty_and_absent_differ ref r r' H H' D).
Qed.

(** with empty values skipped (the seeded change), `accept-language:` (empty) and no header get one key although the
    transformed header the handler answers by differs ("none" / default "lo") *)
Theorem empty_as_default_refuted :
  header_for w10_rule w10_empty = (B "accept-language", B "none") /\
  header_for w10_rule w10_absent = (B "accept-language", B "lo") /\
  header_for_skip_empty w10_rule w10_empty = header_for_skip_empty w10_rule w10_absent.
Proof. exact empty_as_default_refuted_w. Qed.

Example ex_specificity :
  map ru_name (rules_fix [(B "/doc*", [(B "x-b", 0, B "k")]); (B "/docs*", [(B "x-c", 1, B "lo")]); (B "/docs", [(B "accept-language", 0, B "sv")])] (B "/docs")) = [B "accept-language"] /\
  map ru_name (rules_fix [(B "/doc*", [(B "x-b", 0, B "k")]); (B "/docs*", [(B "x-c", 1, B "lo")]); (B "/docs", [(B "accept-language", 0, B "sv")])] (B "/docs/a")) = [B "x-c"] /\
  map ru_name (rules_fix [(B "/doc*", [(B "x-b", 0, B "k")]); (B "/docs*", [(B "x-c", 1, B "lo")]); (B "/docs", [(B "accept-language", 0, B "sv")])] (B "/doc")) = [B "x-b"] /\
  rules_fix [(B "/doc*", [(B "x-b", 0, B "k")])] (B "/other") = [].
Proof. vm_compute. repeat split; reflexivity. Qed.
Example ex_empty_value :
  header_get (ru_name w10_rule) w10_empty = Some [] /\ header_get (ru_name w10_rule) w10_absent = None /\ ru_xf w10_rule [] <> ru_default w10_rule.
Proof. vm_compute. repeat split; try reflexivity. intros H. discriminate H. Qed.
