(** C04 — only cacheable responses are stored, and never served past their lifetime. Statements only. *)
From KV Require Import Bytes RustInt Range CacheControl Cache CacheProofs Cache04Proofs.
Open Scope N_scope.

(** the status filter is the property's list: 1xx, 304 and 4xx other than 404/410 are never stored *)
Theorem status_filter_exact : forall s,
  status_filter_drop s = true <-> (100 <= s <= 199) \/ s = 304 \/ (400 <= s <= 499 /\ s <> 404 /\ s <> 410).
Proof. exact status_filter_spec. Qed.

(** admission (on a host with a response cache; streams are outside the model): a computed response is
    stored iff the handler declared server caching, the method is GET/HEAD, the status passes the filter,
    the body is smaller than 4 MiB and it does not carry kvarn-cache-control: none *)
Theorem admission_exact : forall m f,
  may_store true m f = true <->
  f_spref f <> SP_NONE /\ get_or_head m = true /\ status_filter_drop (f_status f) = false /\
  N.of_nat (length (f_body f)) < size_limit /\ kvarn_none f = false.
Proof. exact may_store_iff. Qed.

Theorem kvarn_cache_control_none_refused : forall f v,
  assoc (B "kvarn-cache-control") (f_headers f) = Some v -> to_str_ok v = true -> trim v = B "none" ->
  kvarn_none f = true.
Proof. exact kvarn_none_refused. Qed.

Section C04.
  Variable hstate : Type.
  Variable compute : hstate -> request -> bool -> fat * hstate * list bytes.
  Variable ims_on : bool.
  Variable parse_ims : bytes -> option Z.
  Variable sanitize_ok : request -> bool.
  Variable prime : request -> request.
  Variable negotiate : request -> fat -> option (N * bytes).
  Variable vary_tuple : request -> tuple.
  Variable vary_header : request -> fat -> list (bytes * bytes).
  Notation serveC := (serve hstate compute true ims_on parse_ims sanitize_ok prime negotiate vary_tuple vary_header).
  Notation missC := (miss hstate compute true ims_on negotiate vary_tuple vary_header).

  (** the miss arm stores exactly when admission says so, and nothing else changes in the cache *)
  Theorem miss_stores_iff_admitted : forall c1 hs now r ok,
    let f := fst (fst (compute hs r ok)) in
    fst (fst (fst (missC c1 hs now r ok))) =
      if may_store true (rq_method r) f
      then c_insert (insert_key r f) {| e_vars := [(vary_tuple r, f)]; e_created := now; e_life := lifetime_ms f |} c1
      else c1.
  Proof. exact (miss_store hstate compute ims_on negotiate vary_tuple vary_header). Qed.

  (** whatever is looked up and found at time [now] is within its lifetime *)
  Theorem never_stale : forall r c now k e c',
    lookup r c now = ((k, Some e), c') ->
    match e_life e with Some l => now - e_created e <= l | None => True end.
  Proof. intros. apply fresh_spec. eapply lookup_fresh. eassumption. Qed.

  (** adding a variant to an entry does not extend the entry's absolute expiry time *)
  Theorem variant_push_keeps_expiry : forall e now l,
    e_life e = Some l -> e_created e <= now -> fresh e now = true ->
    now + (l - (now - e_created e)) = e_created e + l.
  Proof. exact push_keeps_expiry. Qed.

  (** after an explicit clear of a page (or of the host) the page is not found, hence recomputed *)
  Theorem cleared_is_miss : forall r r' c now,
    path_query r = path_query r' -> snd (fst (lookup r (clear_page r' c) now)) = None.
  Proof. exact Cache04Proofs.cleared_is_miss. Qed.
  Theorem cleared_all_is_miss : forall r now, snd (fst (lookup r [] now)) = None.
  Proof. exact clear_all_is_miss. Qed.
  Theorem not_found_is_recomputed : forall c hs now r0,
    snd (fst (lookup (prime r0) c now)) = None ->
    snd (serveC (c, hs) now r0) = snd (compute hs (prime r0) (sanitize_ok r0)).
  Proof. exact (not_found_recomputes hstate compute ims_on parse_ims sanitize_ok prime negotiate vary_tuple vary_header). Qed.
  Theorem unsafe_or_non_get_is_recomputed : forall c hs now r0,
    sanitize_ok r0 && get_or_head (rq_method (prime r0)) = false ->
    snd (serveC (c, hs) now r0) = snd (compute hs (prime r0) (sanitize_ok r0)).
  Proof. exact (guard_recomputes hstate compute ims_on parse_ims sanitize_ok prime negotiate vary_tuple vary_header). Qed.

  (** one computation per key while fresh: a response that was stored is served from the cache (no
      invocation of the layer below, handler state untouched) by the next equal request within its lifetime *)
  Theorem computed_once_while_fresh : forall c hs now now' r0 f,
    let r := prime r0 in
    fst (fst (compute hs r (sanitize_ok r0))) = f ->
    snd (fst (lookup r c now)) = None ->
    may_store true (rq_method r) f = true ->
    sanitize_ok r0 = true ->
    (ims_on = false \/ header (B "if-modified-since") r = None) ->
    (c_find (key_pq r) (snd (lookup r c now)) = None \/ insert_key r f = key_pq r) ->
    now <= now' -> match lifetime_ms f with Some l => now' - now <= l | None => True end ->
    let st1 := fst (fst (serveC (c, hs) now r0)) in
    snd (serveC st1 now' r0) = [] /\ snd (fst (fst (serveC st1 now' r0))) = snd st1 /\
    rp_from_cache (snd (fst (serveC st1 now' r0))) = true /\
    rp_body (snd (fst (serveC st1 now' r0))) = rp_body (finish negotiate vary_header r f true true).
  Proof. exact (store_then_hit hstate compute ims_on parse_ims sanitize_ok prime negotiate vary_tuple vary_header). Qed.

  (** 304 is sent exactly when a usable entry is found and the client's date passes the test *)
  Theorem not_modified_rule : forall c hs now r0 k e c1,
    let r := prime r0 in
    lookup r c now = ((k, Some e), c1) -> sanitize_ok r0 = true -> get_or_head (rq_method r) = true ->
    (rp_status (snd (fst (serveC (c, hs) now r0))) = 304 /\ rp_from_cache (snd (fst (serveC (c, hs) now r0))) = true /\
     snd (serveC (c, hs) now r0) = [] /\ rp_body (snd (fst (serveC (c, hs) now r0))) = [])
    \/
    (match (if ims_on then match header (B "if-modified-since") r with Some v => parse_ims v | None => None end else None) with
     | Some t => ims_fresh t (e_created e) | None => false end = false).
  Proof. exact (ims_rule hstate compute ims_on parse_ims sanitize_ok prime negotiate vary_tuple vary_header). Qed.
End C04.

(** the date test: accepted iff not older than the entry's second (the exact-second corner spelled out) *)
Theorem not_modified_arithmetic : forall t created,
  ims_fresh t created = true <->
  (Z.of_N (created / 1000) <= t)%Z \/ (t = Z.of_N (created / 1000) - 1)%Z /\ created mod 1000 = 0.
Proof. exact ims_fresh_spec. Qed.

(** max-age=N gives a lifetime of N seconds *)
Theorem lifetime_equation : forall n hs,
  n <= u32_max -> assoc (B "kvarn-cache-control") hs = None ->
  assoc (B "cache-control") hs = Some (B "max-age=" ++ dec n) ->
  forall st body sp cmp, lifetime_ms (mkFat st hs body sp cmp) = Some (n * 1000).
Proof. exact max_age_lifetime. Qed.

(** non-vacuity *)
Example c04_ex_admit : may_store true M_GET (mkFat 200 [(B "cache-control", B "max-age=1")] (B "x") SP_FULL true) = true.
Proof. vm_compute. reflexivity. Qed.
Example c04_ex_refuse_405 : may_store true M_GET (mkFat 405 [] (B "x") SP_FULL true) = false.
Proof. vm_compute. reflexivity. Qed.
Example c04_ex_none : kvarn_none (mkFat 200 [(B "kvarn-cache-control", B " none ")] (B "x") SP_FULL true) = true.
Proof. vm_compute. reflexivity. Qed.
Example c04_ex_lifetime : lifetime_ms (mkFat 200 [(B "cache-control", B "no-store, max-age=30")] (B "x") SP_FULL true) = Some 30000.
Proof. vm_compute. reflexivity. Qed.
Example c04_ex_kvarn_unit : lifetime_ms (mkFat 200 [(B "kvarn-cache-control", B "2m")] (B "x") SP_FULL true) = Some 120000.
Proof. vm_compute. reflexivity. Qed.
