(** C04 — only cacheable responses are stored, and never served past their lifetime. Statements only.
    The model is Model/CacheX.v ([serveX]/[runX]: kvarn::handle_cache with streams, symbolic body sizes, the host's
    status filter, override URIs, the repaired handle_vary_missing / clear_page); [fix_* = true] is the code in the
    repo worktree, the [_refuted] theorems are witnesses on the model of the code before each repair. *)
From KV Require Import Bytes RustInt Range CacheControl Cache CacheProofs Cache04Proofs Fixture CacheX CacheXProofs
     CacheControlProofs CacheXWitness Hosts CacheClear CacheClearProofs.
Open Scope N_scope.

(** ---------------- admission ---------------- *)
(** the default status filter is the property's list: 1xx, 304 and 4xx other than 404/410 are never stored *)
Theorem status_filter_exact : forall s,
  status_filter_drop s = true <-> (100 <= s <= 199) \/ s = 304 \/ (400 <= s <= 499 /\ s <> 404 /\ s <> 410).
Proof. exact status_filter_spec. Qed.

(** a computed response is stored iff it does not stream its body, the handler declared server caching, the status
    passes the host's filter, the method is GET/HEAD, the body is smaller than 4 MiB and it does not carry
    kvarn-cache-control: none *)
Theorem admission_exact : forall sfilter m x,
  may_store_x true sfilter m x = true <->
  is_stream x = false /\ f_spref (fx_fat x) <> SP_NONE /\ sfilter (f_status (fx_fat x)) = false /\
  get_or_head m = true /\ fx_len x < size_limit /\ kvarn_none (fx_fat x) = false.
Proof. exact may_store_x_iff. Qed.

Theorem stream_never_stored : forall cache_on sfilter m x, is_stream x = true -> may_store_x cache_on sfilter m x = false.
Proof. exact stream_not_stored. Qed.

Theorem kvarn_cache_control_none_refused : forall f v,
  assoc (B "kvarn-cache-control") (f_headers f) = Some v -> to_str_ok v = true -> trim v = B "none" ->
  kvarn_none f = true.
Proof. exact kvarn_none_refused. Qed.

Section C04.
  Variable hstate : Type.
  Variable compute : hstate -> request -> option (bytes * option bytes) -> bool -> fatx * hstate * list bytes.
  Variable ims_on : bool.
  Variable fix_ovkey fix_clear fix_svary : bool.
  Variable sfilter : N -> bool.
  Variable parse_ims : bytes -> option Z.
  Variable sanitize_ok : request -> bool.
  Variable prime : request -> request.
  Variable override : request -> option (bytes * option bytes).
  Variable negotiate : request -> fatx -> option (N * bytes).
  Variable vary_tuple : request -> option (bytes * option bytes) -> tuple.
  Variable vary_header : request -> option (bytes * option bytes) -> fatx -> list (bytes * bytes).
  Variable clear_alias : request -> option request.
  Notation missR := (missX hstate compute true ims_on fix_ovkey fix_svary sfilter negotiate vary_tuple vary_header).
  Notation serveR := (serveX hstate compute true ims_on true fix_ovkey fix_svary true true sfilter parse_ims sanitize_ok prime override
                             negotiate vary_tuple vary_header).
  Notation runR_state := (runX_state hstate compute true ims_on true fix_ovkey fix_clear fix_svary true true sfilter parse_ims sanitize_ok
                                     prime override negotiate vary_tuple vary_header clear_alias).

  (** the miss arm stores exactly when admission says so, and nothing else changes in the cache *)
  Theorem miss_stores_iff_admitted : forall c1 hs now r ov ok,
    let x := fst (fst (compute hs r ov ok)) in
    fst (fst (fst (missR c1 hs now r ov ok))) =
      if may_store_x true sfilter (rq_method r) x
      then xc_insert (insert_key (if fix_ovkey then lookup_req r ov else r) (fx_fat x))
                     {| ex_vars := [mkVar (vary_tuple r ov) x now]; ex_created := now; ex_life := lifetime_x x |} c1
      else c1.
  Proof. exact (miss_store_x hstate compute ims_on fix_ovkey fix_svary sfilter negotiate vary_tuple vary_header). Qed.

  (** for EVERY history (requests, page clears, clear-all, waits) from the empty cache: every variant the cache holds —
      stored by the miss arm or pushed by handle_vary_missing — passed the admission test *)
  Theorem stored_variants_admitted : forall ops hs now k e v,
    xc_find k (fst (fst (runR_state ([], hs) now ops))) = Some e -> In v (ex_vars e) ->
    is_stream (v_resp v) = false /\ f_spref (fx_fat (v_resp v)) <> SP_NONE /\ sfilter (f_status (fx_fat (v_resp v))) = false /\
    fx_len (v_resp v) < size_limit /\ kvarn_none (fx_fat (v_resp v)) = false.
  Proof.
    intros ops hs now. exact (stored_admitted_history hstate compute ims_on fix_ovkey fix_clear fix_svary sfilter parse_ims
      sanitize_ok prime override negotiate vary_tuple vary_header clear_alias ops [] hs now (AdmInv_nil sfilter)).
  Qed.

  (** whatever is looked up and found at time [now] is within the entry's lifetime *)
  Theorem never_stale : forall lr c now k e c',
    xlookup lr c now = ((k, Some e), c') ->
    match ex_life e with Some l => now - ex_created e <= l | None => True end.
  Proof. exact never_stale_x. Qed.

  (** for EVERY history from the empty cache: a variant that a lookup finds (the only way a stored response is
      served) was stored at most its OWN lifetime (max-age=N / kvarn-cache-control: N<unit>) ago — also when it is
      one of several variants of a page whose other variants live longer *)
  Theorem never_served_past_own_lifetime : forall ops hs now lr k e c1 tu v L,
    let st := runR_state ([], hs) now ops in
    xlookup lr (fst (fst st)) (snd st) = ((k, Some e), c1) -> xv_find tu (ex_vars e) = Some v ->
    lifetime_x (v_resp v) = Some L -> v_stored v <= snd st /\ snd st - v_stored v <= L.
  Proof.
    intros ops hs now lr k e c1 tu v L. exact (served_within_own_lifetime_history hstate compute ims_on fix_ovkey fix_clear
      fix_svary sfilter parse_ims sanitize_ok prime override negotiate vary_tuple vary_header clear_alias ops [] hs now lr k e
      c1 tu v L (LifeInv_nil now)).
  Qed.

  (** after an explicit clear of a page — the URI as given or, after the repair, what the default redirect makes of
      it ("/" is stored under "/index.html") — or of the host, the page is not found, hence recomputed *)
  Theorem cleared_is_miss : forall lr r' c now,
    (path_query lr = path_query r' \/
     exists a, fix_clear = true /\ clear_alias r' = Some a /\ path_query lr = path_query a) ->
    snd (fst (xlookup lr (xclear_page fix_clear clear_alias r' c) now)) = None.
  Proof. exact (cleared_page_is_miss fix_clear clear_alias). Qed.
  Theorem cleared_page_is_recomputed : forall c hs now r0 r',
    override r0 = None ->
    (path_query (prime r0) = path_query r' \/
     exists a, fix_clear = true /\ clear_alias r' = Some a /\ path_query (prime r0) = path_query a) ->
    snd (serveR (xclear_page fix_clear clear_alias r' c, hs) now r0) = snd (compute hs (prime r0) None (sanitize_ok r0)).
  Proof.
    exact (clear_then_request_recomputes hstate compute ims_on fix_ovkey fix_clear fix_svary sfilter parse_ims sanitize_ok prime
             override negotiate vary_tuple vary_header clear_alias).
  Qed.
  Theorem cleared_all_is_miss : forall lr now, snd (fst (xlookup lr [] now)) = None.
  Proof. exact clear_all_is_miss_x. Qed.

  Theorem not_found_is_recomputed : forall c hs now r0,
    snd (fst (xlookup (lookup_req (prime r0) (override r0)) c now)) = None ->
    snd (serveR (c, hs) now r0) = snd (compute hs (prime r0) (override r0) (sanitize_ok r0)) /\
    snd (fst (fst (serveR (c, hs) now r0))) = snd (fst (compute hs (prime r0) (override r0) (sanitize_ok r0))).
  Proof.
    exact (not_found_recomputes_x hstate compute ims_on fix_ovkey fix_svary sfilter parse_ims sanitize_ok prime override
             negotiate vary_tuple vary_header).
  Qed.
  Theorem unsafe_or_non_get_is_recomputed : forall c hs now r0,
    sanitize_ok r0 && get_or_head (rq_method (prime r0)) = false ->
    snd (serveR (c, hs) now r0) = snd (compute hs (prime r0) (override r0) (sanitize_ok r0)) /\
    snd (fst (fst (serveR (c, hs) now r0))) = snd (fst (compute hs (prime r0) (override r0) (sanitize_ok r0))).
  Proof.
    exact (guard_recomputes_x hstate compute ims_on fix_ovkey fix_svary sfilter parse_ims sanitize_ok prime override
             negotiate vary_tuple vary_header).
  Qed.

  (** 304 is sent by the cache exactly when a usable entry is found, it holds the variant the request selects and the
      client's date passes the test; otherwise the request is answered from that variant or by computing it *)
  Theorem not_modified_rule : forall c hs now r0 k e c1,
    let r := prime r0 in
    xlookup (lookup_req r (override r0)) c now = ((k, Some e), c1) -> sanitize_ok r0 = true -> get_or_head (rq_method r) = true ->
    (ims_hit ims_on parse_ims r e = true /\ xv_find (vary_tuple r (override r0)) (ex_vars e) <> None /\
     rx_status (snd (fst (serveR (c, hs) now r0))) = 304 /\ rx_from_cache (snd (fst (serveR (c, hs) now r0))) = true /\
     snd (serveR (c, hs) now r0) = [] /\ rx_body (snd (fst (serveR (c, hs) now r0))) = [] /\ fst (fst (serveR (c, hs) now r0)) = (c1, hs))
    \/
    ((ims_hit ims_on parse_ims r e = false \/ xv_find (vary_tuple r (override r0)) (ex_vars e) = None) /\
     serveR (c, hs) now r0 =
       match xv_find (vary_tuple r (override r0)) (ex_vars e) with
       | Some v => ((c1, hs), finishX fix_svary negotiate vary_header r (override r0) (v_resp v) ims_on true false, [])
       | None => vary_missingX hstate compute true ims_on true fix_svary true sfilter negotiate vary_tuple vary_header c1 hs now r
                               (override r0) true k e
       end).
  Proof.
    exact (ims_rule_x hstate compute ims_on fix_ovkey fix_svary sfilter parse_ims sanitize_ok prime override negotiate
             vary_tuple vary_header).
  Qed.
End C04.

(** one computation per key while fresh, over whole histories: after a response was computed and stored, in every
    history of further requests (any paths, methods, headers), waits and clears of OTHER keys the same request is
    answered without invoking the layer below — handler log empty, handler state untouched — until the deadline [D],
    the shortest lifetime the handler gives responses of this path.  Hypotheses on the layer below: error responses
    (sanitize failed) are not admissible; responses for this path agree on query-matters-ness and live until [D]. *)
Theorem computed_once_history :
  forall (hstate : Type) (compute : hstate -> request -> option (bytes * option bytes) -> bool -> fatx * hstate * list bytes)
         (ims_on fix_clear fix_svary : bool) (sfilter : N -> bool) (parse_ims : bytes -> option Z) (sanitize_ok : request -> bool)
         (prime : request -> request) (override : request -> option (bytes * option bytes))
         (negotiate : request -> fatx -> option (N * bytes)) (vary_tuple : request -> option (bytes * option bytes) -> tuple)
         (vary_header : request -> option (bytes * option bytes) -> fatx -> list (bytes * bytes)) (clear_alias : request -> option request)
         (r0 : request) (x : fatx) (now0 D : N),
  (forall hs r' ov', may_store_x true sfilter (rq_method r') (fst (fst (compute hs r' ov' false))) = false) ->
  (forall hs r' ov' ok, rq_path (lookup_req r' ov') = rq_path (lookup_req (prime r0) (override r0)) ->
     qmx (fst (fst (compute hs r' ov' ok))) = qmx x /\
     match lifetime_x (fst (fst (compute hs r' ov' ok))) with Some L => D <= now0 + L | None => True end) ->
  forall c hs hs1 lg1 ops,
  sanitize_ok r0 = true -> get_or_head (rq_method (prime r0)) = true ->
  (ims_on = false \/ header (B "if-modified-since") (prime r0) = None) ->
  snd (fst (xlookup (lookup_req (prime r0) (override r0)) c now0)) = None ->
  compute hs (prime r0) (override r0) true = (x, hs1, lg1) -> may_store_x true sfilter (rq_method (prime r0)) x = true ->
  Forall (benign fix_clear prime override clear_alias r0 x) ops ->
  let serveR := serveX hstate compute true ims_on true true fix_svary true true sfilter parse_ims sanitize_ok prime override
                       negotiate vary_tuple vary_header in
  let st1 := fst (fst (serveR (c, hs) now0 r0)) in
  let run := runX_state hstate compute true ims_on true true fix_clear fix_svary true true sfilter parse_ims sanitize_ok prime override
                        negotiate vary_tuple vary_header clear_alias st1 now0 ops in
  snd run <= D ->
  snd (serveR (fst run) (snd run) r0) = [] /\ snd (fst (fst (serveR (fst run) (snd run) r0))) = snd (fst run) /\
  rx_from_cache (snd (fst (serveR (fst run) (snd run) r0))) = true /\
  exists v, v_tuple v = vary_tuple (prime r0) (override r0) /\
            snd (fst (serveR (fst run) (snd run) r0)) = finishX fix_svary negotiate vary_header (prime r0) (override r0) (v_resp v) ims_on true false.
Proof.
  intros hstate compute ims_on fix_clear fix_svary sfilter parse_ims sanitize_ok prime override negotiate vary_tuple
         vary_header clear_alias r0 x now0 D Herr Hsame c hs hs1 lg1 ops.
  exact (CacheXProofs.computed_once_history hstate compute ims_on fix_clear fix_svary sfilter parse_ims sanitize_ok prime override
           negotiate vary_tuple vary_header clear_alias r0 x now0 D Herr Hsame c hs hs1 lg1 ops).
Qed.

(** the first clause over histories, under the handler contract of C03 ([cf]: the response is a function of the request):
    a response that is not admissible is recomputed by EVERY request (with or without If-Modified-Since) of EVERY history,
    whatever earlier requests stored *)
Theorem uncacheable_always_recomputed :
  forall (hstate : Type) (compute : hstate -> request -> option (bytes * option bytes) -> bool -> fatx * hstate * list bytes)
         (ims_on fix_clear : bool) (sfilter : N -> bool) (parse_ims : bytes -> option Z) (sanitize_ok : request -> bool)
         (prime : request -> request) (override : request -> option (bytes * option bytes))
         (negotiate : request -> fatx -> option (N * bytes)) (vary_tuple : request -> option (bytes * option bytes) -> tuple)
         (vary_header : request -> option (bytes * option bytes) -> fatx -> list (bytes * bytes)) (clear_alias : request -> option request)
         (cf : request -> option (bytes * option bytes) -> bool -> fatx),
  (forall hs r ov ok, fst (fst (compute hs r ov ok)) = cf r ov ok) ->
  (forall r ov r' ov', get_or_head (rq_method r) = true -> get_or_head (rq_method r') = true ->
     vary_tuple r ov = vary_tuple r' ov' -> rq_path (lookup_req r ov) = rq_path (lookup_req r' ov') ->
     (qmx (cf r ov true) = true -> path_query (lookup_req r ov) = path_query (lookup_req r' ov')) ->
     cf r ov true = cf r' ov' true) ->
  (forall r ov, f_spref (fx_fat (cf r ov false)) = SP_NONE) ->
  forall ops hs now r0,
  Forall (op_no_imsx ims_on prime) ops ->
  may_store_x true sfilter (rq_method (prime r0)) (cf (prime r0) (override r0) (sanitize_ok r0)) = false ->
  let serveC := serveX hstate compute true ims_on true true true true true sfilter parse_ims sanitize_ok prime override
                       negotiate vary_tuple vary_header in
  let st := runX_state hstate compute true ims_on true true fix_clear true true true sfilter parse_ims sanitize_ok prime override
                       negotiate vary_tuple vary_header clear_alias ([], hs) now ops in
  snd (serveC (fst st) (snd st) r0) = snd (compute (snd (fst st)) (prime r0) (override r0) (sanitize_ok r0)) /\
  snd (fst (fst (serveC (fst st) (snd st) r0))) = snd (fst (compute (snd (fst st)) (prime r0) (override r0) (sanitize_ok r0))).
Proof.
  intros hstate compute ims_on fix_clear sfilter parse_ims sanitize_ok prime override negotiate vary_tuple vary_header
         clear_alias cf Hpure contract Herr ops hs now r0 Hno Hnot.
  exact (uncacheable_recomputed_history hstate compute ims_on fix_clear sfilter parse_ims sanitize_ok prime override negotiate
           vary_tuple vary_header clear_alias cf Hpure contract Herr ops [] hs now r0
           (TInv_nil vary_tuple cf) (AdmInv_nil sfilter) Hno Hnot).
Qed.

(** the date test: accepted iff not older than the entry's second (the exact-second corner spelled out) *)
Theorem not_modified_arithmetic : forall t created,
  ims_fresh t created = true <->
  (Z.of_N (created / 1000) <= t)%Z \/ (t = Z.of_N (created / 1000) - 1)%Z /\ created mod 1000 = 0.
Proof. exact ims_fresh_spec. Qed.

(** ---------------- lifetimes read from the headers ---------------- *)
(** max-age=N gives a lifetime of N seconds *)
Theorem lifetime_equation : forall n hs,
  n <= u32_max -> assoc (B "kvarn-cache-control") hs = None ->
  assoc (B "cache-control") hs = Some (B "max-age=" ++ dec n) ->
  forall st body sp cmp, lifetime_ms (mkFat st hs body sp cmp) = Some (n * 1000).
Proof. exact max_age_lifetime. Qed.
(** … also among other comma-separated directives, padded with blanks *)
Theorem lifetime_max_age_among : forall l1 seg l2 n hs,
  n <= u32_max ->
  forallb (fun s => negb (mem_byte 44 s)) (l1 ++ seg :: l2) = true ->
  forallb other_directive l1 = true -> forallb other_directive l2 = true ->
  trim seg = B "max-age=" ++ dec n ->
  assoc (B "kvarn-cache-control") hs = None ->
  assoc (B "cache-control") hs = Some (join_commas (l1 ++ seg :: l2)) ->
  to_str_ok (join_commas (l1 ++ seg :: l2)) = true ->
  forall st body sp cmp, lifetime_ms (mkFat st hs body sp cmp) = Some (n * 1000).
Proof. exact max_age_among_lifetime. Qed.
(** kvarn-cache-control: N<unit> gives N·unit seconds, for every N and unit s/m/h/d with N·unit within u32 *)
Theorem lifetime_kvarn_unit : forall n u m hs,
  unit_seconds u = Some m -> n * m <= u32_max ->
  assoc (B "kvarn-cache-control") hs = Some (dec n ++ [u]) ->
  forall st body sp cmp, lifetime_ms (mkFat st hs body sp cmp) = Some (n * m * 1000).
Proof. exact kvarn_unit_lifetime. Qed.

(** ---------------- the clears as their caller names the host ---------------- *)
(** [Collection::clear_page(name, uri)] and [Collection::clear_response_caches(filter)] over the collection the fixture builds
    (Model/CacheClear.v: one host [own], added with [.default] iff [dflt]; builder and lookups are those of Model/Hosts.v, C15).
    The collection is what the builder model returns … *)
Theorem fixture_collection_is_built : forall own dflt, build (fixture_ops own dflt) = Ok (fixture_collection own dflt).
Proof. exact fixture_collection_built. Qed.
(** … [clear_page]'s lookup reaches the host exactly when the designation is "" / "default" and the host is the default
    host, or the designation is any other text and equals the host's name … *)
Theorem clear_page_designation_exact : forall own dflt name,
  clear_target V1 (fixture_collection own dflt) name =
  Ok (if spec_designates own dflt name then Some (fixture_host own) else None).
Proof.
  intros own dflt name. rewrite fixture_clear_target. unfold spec_designates, is_default_name. rewrite s_default_text.
  destruct (beq name [] || beq name (B "default")); [destruct dflt | destruct (beq name own)]; reflexivity.
Qed.
(** … and [clear_response_caches] reaches it exactly when there is no filter or the filter is its name *)
Theorem clear_all_filter_exact : forall own dflt flt,
  clear_all_targets (fixture_collection own dflt) flt = if spec_filter_reaches own flt then [fixture_host own] else [].
Proof. exact fixture_clear_all_targets. Qed.

Section C04Clear.
  Variable hstate : Type.
  Variable compute : hstate -> request -> option (bytes * option bytes) -> bool -> fatx * hstate * list bytes.
  Variable ims_on : bool.
  Variable fix_ovkey fix_clear fix_svary : bool.
  Variable sfilter : N -> bool.
  Variable parse_ims : bytes -> option Z.
  Variable sanitize_ok : request -> bool.
  Variable prime : request -> request.
  Variable override : request -> option (bytes * option bytes).
  Variable negotiate : request -> fatx -> option (N * bytes).
  Variable vary_tuple : request -> option (bytes * option bytes) -> tuple.
  Variable vary_header : request -> option (bytes * option bytes) -> fatx -> list (bytes * bytes).
  Variable clear_alias : request -> option request.
  Variable own : bytes.
  Variable dflt : bool.
  Notation stepR := (stepX hstate compute true ims_on true fix_ovkey fix_clear fix_svary true true sfilter parse_ims
                           sanitize_ok prime override negotiate vary_tuple vary_header clear_alias).
  Notation serveR := (serveX hstate compute true ims_on true fix_ovkey fix_svary true true sfilter parse_ims sanitize_ok prime override
                             negotiate vary_tuple vary_header).
  Notation stepDR := (stepD hstate stepR true (fixture_collection own dflt)).

  (** "not at all after an explicit clear of that page": a clear_page whose designation reaches the host — its own name, or
      "" / "default" when it is the default host — reports (found, cleared-if-anything-was-there), removes the page (as given
      and as the default redirect rewrites it), and the next request for the page is recomputed, in EVERY state *)
  Theorem cleared_page_by_designation_is_recomputed : forall c hs now name r0 r',
    spec_designates own dflt name = true ->
    override r0 = None ->
    (path_query (prime r0) = path_query r' \/
     exists a, fix_clear = true /\ clear_alias r' = Some a /\ path_query (prime r0) = path_query a) ->
    stepDR (c, hs) now (DClearPage name r') =
      ((xclear_page fix_clear clear_alias r' c, hs), now, XbCleared true (xcleared fix_clear clear_alias r' c)) /\
    snd (serveR (xclear_page fix_clear clear_alias r' c, hs) now r0) = snd (compute hs (prime r0) None (sanitize_ok r0)).
  Proof.
    exact (clear_page_designated_recomputes hstate compute ims_on fix_ovkey fix_clear fix_svary sfilter parse_ims sanitize_ok prime
             override negotiate vary_tuple vary_header clear_alias own dflt).
  Qed.
  (** the second component of the answer is true whenever one of the page's two keys was occupied *)
  Theorem clear_reports_what_it_cleared : forall r' c,
    (xc_find (key_pq r') c <> None \/ xc_find (key_p r') c <> None) -> xcleared fix_clear clear_alias r' c = true.
  Proof. exact (clear_reports_cleared fix_clear clear_alias). Qed.
  (** "… or host": clear_response_caches without a filter or with the host's name empties its cache; every lookup then
      misses and the next request — any request — is recomputed *)
  Theorem cleared_host_by_filter_is_recomputed : forall c hs now flt r0,
    spec_filter_reaches own flt = true ->
    stepDR (c, hs) now (DClearAll flt) = (([], hs), now, XbNone) /\
    (forall lr, snd (fst (xlookup lr [] now)) = None) /\
    snd (serveR ([], hs) now r0) = snd (compute hs (prime r0) (override r0) (sanitize_ok r0)) /\
    snd (fst (fst (serveR ([], hs) now r0))) = snd (fst (compute hs (prime r0) (override r0) (sanitize_ok r0))).
  Proof.
    exact (clear_all_filter_recomputes hstate compute ims_on fix_ovkey fix_clear fix_svary sfilter parse_ims sanitize_ok prime
             override negotiate vary_tuple vary_header clear_alias own dflt).
  Qed.
  (** conversely a clear that names another host (an unknown name; "" / "default" when the host is not the default host;
      a filter that is not the host's name) changes nothing at all and reports (not found, not cleared) *)
  Theorem clear_by_other_name_is_noop : forall st now name r',
    spec_designates own dflt name = false -> stepDR st now (DClearPage name r') = (st, now, XbCleared false false).
  Proof.
    exact (clear_page_other_name_noop hstate compute ims_on fix_ovkey fix_clear fix_svary sfilter parse_ims sanitize_ok prime
             override negotiate vary_tuple vary_header clear_alias own dflt).
  Qed.
  Theorem clear_all_by_other_filter_is_noop : forall st now flt,
    spec_filter_reaches own flt = false -> stepDR st now (DClearAll flt) = (st, now, XbNone).
  Proof.
    exact (clear_all_other_filter_noop hstate compute ims_on fix_ovkey fix_clear fix_svary sfilter parse_ims sanitize_ok prime
             override negotiate vary_tuple vary_header clear_alias own dflt).
  Qed.
End C04Clear.

(** every designated history leaves the cache, the handler state and the clock that the plain history leaves in which each
    clear is replaced by what it amounts to ([erase]: the plain clear when it reaches the host, nothing otherwise) — so every
    theorem above about ALL plain histories ([stored_variants_admitted], [never_served_past_own_lifetime],
    [uncacheable_always_recomputed], …) holds for all designated histories *)
Theorem designated_history_erases :
  forall (hstate : Type) (compute : hstate -> request -> option (bytes * option bytes) -> bool -> fatx * hstate * list bytes)
         (cache_on ims_on fix_vary fix_ovkey fix_clear fix_svary fix_qmkey fix_ims : bool) (sfilter : N -> bool)
         (parse_ims : bytes -> option Z) (sanitize_ok : request -> bool)
         (prime : request -> request) (override : request -> option (bytes * option bytes))
         (negotiate : request -> fatx -> option (N * bytes)) (vary_tuple : request -> option (bytes * option bytes) -> tuple)
         (vary_header : request -> option (bytes * option bytes) -> fatx -> list (bytes * bytes)) (clear_alias : request -> option request)
         (col : collection) (ops : list opd) (st : statex hstate) (now : N),
  runD_state hstate (stepX hstate compute cache_on ims_on fix_vary fix_ovkey fix_clear fix_svary fix_qmkey fix_ims sfilter parse_ims
                           sanitize_ok prime override negotiate vary_tuple vary_header clear_alias) cache_on col st now ops =
  runX_state hstate compute cache_on ims_on fix_vary fix_ovkey fix_clear fix_svary fix_qmkey fix_ims sfilter parse_ims
             sanitize_ok prime override negotiate vary_tuple vary_header clear_alias st now (map (erase cache_on col) ops).
Proof.
  intros hstate compute cache_on ims_on fix_vary fix_ovkey fix_clear fix_svary fix_qmkey fix_ims sfilter parse_ims sanitize_ok prime
         override negotiate vary_tuple vary_header clear_alias col ops st now.
  exact (designated_history_erases_x hstate compute cache_on ims_on fix_vary fix_ovkey fix_clear fix_svary fix_qmkey fix_ims sfilter
           parse_ims sanitize_ok prime override negotiate vary_tuple vary_header clear_alias col ops st now).
Qed.

(** [computed_once_history] over designated histories: requests, waits, clears of other pages of the host, and ANY clear —
    of this very page too — that names another host or carries another host's name as filter *)
Theorem computed_once_designated_history :
  forall (hstate : Type) (compute : hstate -> request -> option (bytes * option bytes) -> bool -> fatx * hstate * list bytes)
         (ims_on fix_clear fix_svary : bool) (sfilter : N -> bool) (parse_ims : bytes -> option Z) (sanitize_ok : request -> bool)
         (prime : request -> request) (override : request -> option (bytes * option bytes))
         (negotiate : request -> fatx -> option (N * bytes)) (vary_tuple : request -> option (bytes * option bytes) -> tuple)
         (vary_header : request -> option (bytes * option bytes) -> fatx -> list (bytes * bytes)) (clear_alias : request -> option request)
         (own : bytes) (dflt : bool) (r0 : request) (x : fatx) (now0 D : N),
  (forall hs r' ov', may_store_x true sfilter (rq_method r') (fst (fst (compute hs r' ov' false))) = false) ->
  (forall hs r' ov' ok, rq_path (lookup_req r' ov') = rq_path (lookup_req (prime r0) (override r0)) ->
     qmx (fst (fst (compute hs r' ov' ok))) = qmx x /\
     match lifetime_x (fst (fst (compute hs r' ov' ok))) with Some L => D <= now0 + L | None => True end) ->
  forall c hs hs1 lg1 ops,
  sanitize_ok r0 = true -> get_or_head (rq_method (prime r0)) = true ->
  (ims_on = false \/ header (B "if-modified-since") (prime r0) = None) ->
  snd (fst (xlookup (lookup_req (prime r0) (override r0)) c now0)) = None ->
  compute hs (prime r0) (override r0) true = (x, hs1, lg1) -> may_store_x true sfilter (rq_method (prime r0)) x = true ->
  Forall (benignD fix_clear prime override clear_alias own dflt r0 x) ops ->
  let serveR := serveX hstate compute true ims_on true true fix_svary true true sfilter parse_ims sanitize_ok prime override
                       negotiate vary_tuple vary_header in
  let stepR := stepX hstate compute true ims_on true true fix_clear fix_svary true true sfilter parse_ims sanitize_ok prime override
                     negotiate vary_tuple vary_header clear_alias in
  let st1 := fst (fst (serveR (c, hs) now0 r0)) in
  let run := runD_state hstate stepR true (fixture_collection own dflt) st1 now0 ops in
  snd run <= D ->
  snd (serveR (fst run) (snd run) r0) = [] /\ snd (fst (fst (serveR (fst run) (snd run) r0))) = snd (fst run) /\
  rx_from_cache (snd (fst (serveR (fst run) (snd run) r0))) = true /\
  exists v, v_tuple v = vary_tuple (prime r0) (override r0) /\
            snd (fst (serveR (fst run) (snd run) r0)) = finishX fix_svary negotiate vary_header (prime r0) (override r0) (v_resp v) ims_on true false.
Proof.
  intros hstate compute ims_on fix_clear fix_svary sfilter parse_ims sanitize_ok prime override negotiate vary_tuple
         vary_header clear_alias own dflt r0 x now0 D.
  exact (computed_once_designated_history_x hstate compute ims_on fix_clear fix_svary sfilter parse_ims sanitize_ok prime override
           negotiate vary_tuple vary_header clear_alias own dflt r0 x now0 D).
Qed.

(** the fixture: the model component pipex.rund (compared with the real collection on every check) IS its specification run
    (pipex.rund_spec: the two lookups replaced by the reading of the doc comments) on every input, and on the legacy
    operations — by the host's own name, without filter — it is pipex.run, the model all theorems above are about *)
Theorem designated_run_meets_spec : forall x, run_pipexd x = run_pipexd_spec x.
Proof. exact run_pipexd_meets_spec. Qed.
Theorem designated_own_name_is_plain : forall cache_on cx own dflt ops, is_default_name own = false ->
  run_cfgd cache_on cx (fixture_collection own dflt) (map (embed own) ops) = run_cfgx cache_on cx ops.
Proof. exact run_cfgd_embed. Qed.

(** ---------------- the code before the repairs ---------------- *)
(** handle_vary_missing pushed every computed variant: a variant whose handler declared NO server caching was stored
    (and served) — false for the repaired code by [stored_variants_admitted] *)
Theorem vary_push_admission_refuted :
  exists k e v,
    xc_find k (fst (fst (run_cfgx_state true w1_cx w1_ops))) = Some e /\ In v (ex_vars e) /\
    may_store_x true (sfilter_fix (cx_sfilter w1_cx)) M_GET (v_resp v) = false.
Proof. exact vary_push_admission_refuted_w. Qed.
(** … and a max-age=1 variant was served 2.5 s after it was stored — false now by [never_served_past_own_lifetime] *)
Theorem variant_lifetime_refuted :
  exists k e c1 v L,
    let st := run_cfgx_state true w2_cx w2_ops in
    xlookup (w_req (B "b")) (fst (fst st)) (snd st) = ((k, Some e), c1) /\
    xv_find [B "b"] (ex_vars e) = Some v /\ lifetime_x (v_resp v) = Some L /\ L < snd st - v_stored v.
Proof. exact variant_lifetime_refuted_w. Qed.
(** clear_page("/a/") left the entry of GET /a/ (stored under /a/index.html) in the cache *)
Theorem clear_unprimed_refuted :
  exists o1 rp, run_cfgx true w4_cx [XReq w4_r; XClearPage w4_r; XReq w4_r] = [o1; XbCleared true false; XbReply rp []] /\
                rx_from_cache rp = true /\ rx_body rp = B "n=1".
Proof. exact clear_unprimed_refuted_w. Qed.

(** 304 was decided before the variant was looked up: a request with If-Modified-Since for a variant whose handler
    declared no server caching was answered 304 from the page's entry, without recomputation *)
Theorem ims_unstored_variant_refuted :
  exists rp, nth 1 (run_cfgx true w7_cx w7_ops) XbNone = XbReply rp [] /\ rx_status rp = 304.
Proof. exact ims_unstored_variant_refuted_w. Qed.

(** ---------------- non-vacuity ---------------- *)
Example c04_ex_admit : may_store_x true status_filter_drop M_GET
                         (plain (mkFat 200 [(B "cache-control", B "max-age=1")] (B "x") SP_FULL true)) = true.
Proof. vm_compute. reflexivity. Qed.
Example c04_ex_refuse_405 : may_store_x true status_filter_drop M_GET (plain (mkFat 405 [] (B "x") SP_FULL true)) = false.
Proof. vm_compute. reflexivity. Qed.
Example c04_ex_refuse_stream : may_store_x true status_filter_drop M_GET (mkFX (mkFat 200 [] (B "x") SP_FULL true) (Some None) 0) = false.
Proof. vm_compute. reflexivity. Qed.
Example c04_ex_refuse_4mib : may_store_x true status_filter_drop M_GET (mkFX (mkFat 200 [] (B "x") SP_FULL true) None 4194303) = false.
Proof. vm_compute. reflexivity. Qed.
Example c04_ex_admit_4mib_minus_1 : may_store_x true status_filter_drop M_GET (mkFX (mkFat 200 [] (B "x") SP_FULL true) None 4194302) = true.
Proof. vm_compute. reflexivity. Qed.
Example c04_ex_none : kvarn_none (mkFat 200 [(B "kvarn-cache-control", B " none ")] (B "x") SP_FULL true) = true.
Proof. vm_compute. reflexivity. Qed.
Example c04_ex_lifetime : lifetime_ms (mkFat 200 [(B "cache-control", B "no-store, max-age=30")] (B "x") SP_FULL true) = Some 30000.
Proof. vm_compute. reflexivity. Qed.
Example c04_ex_kvarn_unit : lifetime_ms (mkFat 200 [(B "kvarn-cache-control", B "2m")] (B "x") SP_FULL true) = Some 120000.
Proof. vm_compute. reflexivity. Qed.
Example c04_ex_among : lifetime_ms (mkFat 200 [(B "cache-control", B "public, max-age=7 ,immutable")] (B "x") SP_FULL true) = Some 7000.
Proof. vm_compute. reflexivity. Qed.
(** the repaired model stores the admissible variant only and expires the entry with its shortest-lived variant *)
Example c04_ex_repaired_push :
  bodies (run_cfgx true (mkCfgX (cx_base w1_cx) (cx_xhandlers w1_cx) 0 None true true true true true true)
                   (w1_ops ++ [XReq (w_req (B "b")); XReq (w_req (B "a"))])) = [B "a=1"; B "b=2"; B "b=3"; B "a=1"].
Proof. vm_compute. reflexivity. Qed.
(** [cleared_is_miss] in the two-key state: the handler of /p answers QueryMatters when asked with a query (x-k: q) and
    Full for the bare form; after GET /p?q=a and GET /p both keys of the page are occupied; clear_page("/p?q=a")
    removes both, so the next GET /p?q=a is not answered from the surviving path-only entry but recomputed *)
Definition ex_two_keys_cx : configx :=
  mkCfgX (w_cfg false [] [])
         [mkXH (B "/p") (B "x-k") [mkBeh (B "q") (mkH (B "/p") 2 200 (B "q=") [] SP_QUERY 0 false []) 0 0;
                                    mkBeh [] (mkH (B "/p") 2 200 (B "form=") [] SP_FULL 0 false []) 0 0]]
         0 None true true true true true true.
Definition ex_rq : request := mkReq M_GET (B "/p") (Some (B "q=a")) [(B "x-k", B "q")] 1.
Definition ex_rf : request := mkReq M_GET (B "/p") None [] 1.
Example c04_ex_two_keys_occupied :
  let c := fst (fst (run_cfgx_state true ex_two_keys_cx [XReq ex_rq; XReq ex_rf])) in
  xc_find (key_pq ex_rq) c <> None /\ xc_find (key_p ex_rq) c <> None.
Proof. vm_compute. split; discriminate. Qed.
Example c04_ex_two_keys_cleared :
  bodies (run_cfgx true ex_two_keys_cx [XReq ex_rq; XReq ex_rf; XReq ex_rq; XClearPage ex_rq; XReq ex_rq; XReq ex_rf]) =
  [B "q=1"; B "form=2"; B "q=1"; []; B "q=3"; B "form=4"].
Proof. vm_compute. reflexivity. Qed.

(** designated clears: GET /c, GET /c (hit), clear, GET /c on the host "localhost" *)
Definition exd_cx : configx :=
  mkCfgX (w_cfg false [mkH (B "/c") 2 200 (B "n=") [] SP_FULL 0 false []] []) [] 0 None true true true true true true.
Definition exd_r : request := mkReq M_GET (B "/c") None [] 1.
Definition exd_run (dflt : bool) (o : opd) : list obsx :=
  run_cfgd true exd_cx (fixture_collection (B "localhost") dflt) [DReq exd_r; DReq exd_r; o; DReq exd_r].
(** "default" and "" reach the default host: found, cleared, recomputed *)
Example c04_ex_clear_default : bodies (exd_run true (DClearPage (B "default") exd_r)) = [B "n=1"; B "n=1"; []; B "n=2"]
  /\ nth 2 (exd_run true (DClearPage [] exd_r)) XbNone = XbCleared true true
  /\ spec_designates (B "localhost") true (B "default") = true /\ spec_designates (B "localhost") true [] = true.
Proof. vm_compute. repeat split; reflexivity. Qed.
(** … but nothing when the host was inserted, not made the default; an unknown name reaches nothing either *)
Example c04_ex_clear_not_default : bodies (exd_run false (DClearPage (B "default") exd_r)) = [B "n=1"; B "n=1"; []; B "n=1"]
  /\ nth 2 (exd_run false (DClearPage (B "default") exd_r)) XbNone = XbCleared false false
  /\ bodies (exd_run true (DClearPage (B "other.test") exd_r)) = [B "n=1"; B "n=1"; []; B "n=1"]
  /\ spec_designates (B "localhost") false (B "default") = false /\ spec_designates (B "localhost") true (B "other.test") = false.
Proof. vm_compute. repeat split; reflexivity. Qed.
(** the filter: the host's name clears, another name does not *)
Example c04_ex_clear_filter : bodies (exd_run false (DClearAll (Some (B "localhost")))) = [B "n=1"; B "n=1"; []; B "n=2"]
  /\ bodies (exd_run false (DClearAll (Some (B "other.test")))) = [B "n=1"; B "n=1"; []; B "n=1"]
  /\ bodies (exd_run false (DClearAll None)) = [B "n=1"; B "n=1"; []; B "n=2"]
  /\ spec_filter_reaches (B "localhost") (Some (B "localhost")) = true /\ spec_filter_reaches (B "localhost") (Some (B "other.test")) = false.
Proof. vm_compute. repeat split; reflexivity. Qed.
(** [computed_once_designated_history]'s side condition is met by a clear of this very page that names another host *)
Example c04_ex_benignD : forall x, benignD true (fun r => r) (fun _ => None) clear_alias_fix (B "localhost") false exd_r x
                                    (DClearPage (B "default") exd_r) /\
                                  benignD true (fun r => r) (fun _ => None) clear_alias_fix (B "localhost") false exd_r x
                                    (DClearAll (Some (B "b.test"))).
Proof. intros x. split; [left|]; vm_compute; reflexivity. Qed.
