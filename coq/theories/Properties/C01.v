(** C01 — Requests cannot read outside the public directory or reach internal routes.
    Only statements here; proofs are in Proofs/PathSanProofs.v.

    [p] is the URI path of the request ([request.uri().path()]), any list of numbers.
    [percent_decode p] is its percent-decoding as BYTES (percent_encoding's rule).
    [sanitize_path] is the path part of [sanitize_request], [request_fs_path] the file path
    [get_response] builds, [serve_st] (Model/PathSanServe.v) the pipeline from [handle_cache] down to
    [read_file] / [error::default] with the file cache threaded through, [serve] the same without a
    file cache; [run_history] (Model/PathSanPipe.v) runs [serve_st] over a history of requests with
    the response cache and the file cache threaded through — the component that is compared with the
    real [kvarn::handle_cache] / [kvarn::handle_connection] on a fixture tree on every run, including
    the list of objects the operating system was asked to open (inotify). *)
From KV Require Import Bytes PathSan PathSanProofs PathSanServe PathSanServeProofs PathSanPipe PathSanPipeProofs.
Open Scope N_scope.

(** 1a. Lexical confinement.  An accepted path decodes to "/" ++ t; split t on '/' into
    pre ++ [last].  No segment of [pre] is "." or ".." (only empty segments and names), so the
    walk over every prefix of [pre] is a pure descent, at depth = number of names so far: it never
    pops and never leaves the root.  Only the LAST segment can be a dot segment (it is the only
    place where "." / ".." is not followed by '/'):
      - a name         : the path names an entry strictly inside the root;
      - "" or "."      : the path names the directory reached so far (at or below the root);
      - ".."           : the path names the parent of that directory; this is above the root
                         exactly for "/..", "//..", … (no name in [pre]) — then it names the
                         directory CONTAINING the public directory.  A path whose last component is
                         "..", "." or empty can only resolve to a directory, never to a regular
                         file, so no file content can come from it (made precise in 1b). *)
Theorem accepted_path_confined : forall p : bytes,
  sanitize_path p = Ok tt ->
  exists (t : bytes) (pre : list bytes) (last_ : bytes),
    percent_decode p = c_slash :: t /\ segments t = pre ++ [last_] /\
    Forall plain_seg pre /\
    (forall a b : list bytes, pre = a ++ b -> walk [] a = Some (rev (names_of a))) /\
    walk [] (segments t) =
      (if is_empty last_ || is_dot last_ then Some (rev (names_of pre))
       else if is_dotdot last_ then match rev (names_of pre) with [] => None | _ :: st => Some st end
       else Some (last_ :: rev (names_of pre))).
Proof. exact accepted_path_confined_lemma. Qed.

(** 1b. The same over an arbitrary file tree with POSIX resolution and no symbolic links: for every
    host path, every public directory name, every tree (whatever lies above and beside the public
    directory), if reading the file path built for an accepted request returns a content, then that
    content is the content of a file reached from the public directory [P] by descending through
    child names only. *)
Theorem served_content_is_inside_public :
  forall (p host public f : bytes) (root cwd P : pos) (c : bytes),
    sanitize_path p = Ok tt ->
    request_fs_path host public p = Ok (Some f) ->
    wf_pos root -> wf_pos cwd ->
    resolve_path root cwd (host ++ [c_slash] ++ public) = Some P ->
    read_path root cwd f = Some c ->
    exists names : list bytes,
      names <> [] /\ Forall (fun s => proper_name s = true) names /\ descend (fst P) names = Some (File c).
Proof. exact served_content_lemma. Qed.

(** 1c. The same for the whole pipeline, including the "Expand . and /" Prime extension that rewrites
    the URI after the sanitize test, for every method, Prime override and Prepare table. *)
Theorem served_file_is_inside_public :
  forall (h : host_cfg) (root cwd P : pos) (m : meth) (ov : option bytes) (p : bytes)
         (r : reply) (ev : list event) (c : bytes),
    benign_host h -> wf_pos root -> wf_pos cwd ->
    resolve_path root cwd (h_path h ++ [c_slash] ++ h_public h) = Some P ->
    serve h (read_path root cwd) m ov None p = (r, ev) ->
    r_body r = Some c ->
    exists names : list bytes,
      names <> [] /\ Forall (fun s => proper_name s = true) names /\ descend (fst P) names = Some (File c).
Proof. exact served_file_inside_lemma. Qed.

(** 2a. Exactly the paths whose percent-decoded BYTES contain "./", do not start with '/', or start
    with "//" are rejected with UnsafePath (no UTF-8 condition). *)
Theorem unsafe_is_rejected : forall p : bytes,
  unsafe (percent_decode p) <-> sanitize_path p = Err E_UNSAFE.
Proof. exact unsafe_is_rejected_lemma. Qed.

(** 2b. Such a request is answered 400, never from the cache, and neither a Prepare extension nor
    the file system is touched — for every host, method, Prime override and cache content. *)
Theorem unsafe_is_400_and_silent :
  forall (h : host_cfg) (fs : bytes -> option bytes) (m : meth) (ov : option bytes)
         (cached : option reply) (p : bytes),
    unsafe (percent_decode p) ->
    let '(r, ev) := serve h fs m ov cached p in
    r_status r = 400 /\ r_body r = None /\ r_from_cache r = false /\ silent ev.
Proof. exact unsafe_is_400_and_silent_lemma. Qed.

(** 2c. The same with the file cache threaded through, in every file-cache state: the only path string
    that can be handed to the operating system is the operator's error page for status 400
    ([error_path h 400] — the request does not occur in it), and the file cache is unchanged under
    every other path: the requested path is neither read nor looked up nor remembered. *)
Theorem unsafe_reads_only_the_error_page :
  forall (h : host_cfg) (rd : bytes -> option bytes) (on : bool) (fc : fcache) (m : meth) (ov : option bytes)
         (cached : option reply) (p : bytes),
    unsafe (percent_decode p) ->
    let '(r, ev, fc', os) := serve_st h rd on fc m ov cached p in
    r_status r = 400 /\ r_body r = None /\ r_from_cache r = false /\ silent ev /\
    Forall (fun f => f = error_path h 400) os /\
    (forall k, k <> error_path h 400 -> fc_get k fc' = fc_get k fc).
Proof. exact unsafe_is_400_and_silent_st_lemma. Qed.

(** 2d. The file cache is transparent: whenever every entry of the file cache is what the operating
    system returns for that path string (true of the empty cache and preserved by every step — the
    files do not change while the server runs), the pipeline answers exactly as without a file cache,
    leaves such a cache, and hands to the operating system only paths that occur in the read events
    of its trace. *)
Theorem fcache_transparent :
  forall (h : host_cfg) (rd : bytes -> option bytes) (on : bool) (fc : fcache) (m : meth) (ov : option bytes)
         (cached : option reply) (p : bytes),
    fc_coherent rd fc ->
    let '(r, ev, fc', os) := serve_st h rd on fc m ov cached p in
    (r, ev) = serve h rd m ov cached p /\ fc_coherent rd fc' /\ incl os (read_paths ev).
Proof. exact fcache_transparent_lemma. Qed.

(** 2e. Error pages: every error-page read of the pipeline goes to [error_path h (r_status r)] =
    [<host.path>/<errors_dir>/<status>.html], a function of the host and of the status code only, and
    an error-page content in a computed reply is what that path holds. *)
Theorem error_page_path_is_constant :
  forall (h : host_cfg) (rd : bytes -> option bytes) (on : bool) (fc : fcache) (m : meth) (ov : option bytes)
         (cached : option reply) (p : bytes),
    let '(r, ev, _, _) := serve_st h rd on fc m ov cached p in
    forall path, In (EErrRead path) ev -> path = error_path h (r_status r).
Proof. exact error_page_path_lemma. Qed.

Theorem error_page_content :
  forall (h : host_cfg) (fs : bytes -> option bytes) (m : meth) (ov : option bytes) (p : bytes)
         (r : reply) (ev : list event) (c : bytes),
    serve h fs m ov None p = (r, ev) -> r_err r = Some c -> fs (error_path h (r_status r)) = Some c.
Proof. exact err_content_lemma. Qed.

(** 2f. What the operating system is asked to open.  [opened tree f] is the object the path string [f] names
    in the tree (the names from the root, and whether it is a directory), [None] when the open fails.  For a
    host with benign options, over ANY tree in which the public directory is the object [rev stP], in any
    file-cache and response-cache state, for any request: every object opened while the request is handled
    is the operator's error page for the status of the reply, a directory (a directory has no content: reading
    it fails), or an object strictly below the public directory.  (The harness observes exactly this list with
    inotify on every run.) *)
Theorem opened_objects_confined :
  forall (h : host_cfg) (rd : bytes -> option bytes) (tree : node) (on : bool) (fc : fcache) (m : meth) (ov : option bytes)
         (cached : option reply) (p : bytes) (r : reply) (ev : list event) (fc' : fcache) (os : list bytes)
         (f : bytes) (stP names : list bytes) (isdir : bool),
    benign_host h ->
    serve_st h rd on fc m ov cached p = (r, ev, fc', os) -> In f os ->
    cwalk tree [] (segments (h_path h ++ [c_slash] ++ h_public h)) = Some stP ->
    opened tree f = Some (names, isdir) ->
    f = error_path h (r_status r) \/ isdir = true \/
    exists rel : list bytes, rel <> [] /\ Forall (fun s => proper_name s = true) rel /\ names = rev stP ++ rel.
Proof. exact opened_objects_confined_lemma. Qed.

(** 2g. The two descriptions of path resolution agree: a content read through [read_path] (the zipper walk the
    content theorems 1b/1c/6 use) is the content of the regular file that [opened] (the walk by names that 2f
    and the inotify observation use) says the path names. *)
Theorem read_is_opened :
  forall (tree : node) (f c : bytes),
    starts_with [c_slash] f = true ->
    read_path (tree, []) (tree, []) f = Some c ->
    forall (names : list bytes) (isdir : bool),
      opened tree f = Some (names, isdir) -> isdir = false /\ descend tree names = Some (File c).
Proof. exact read_is_opened. Qed.

(** 3a. An accepted path contains no "./", neither raw nor decoded; so it is different from every
    key that contains "./" — in particular from every internal route "/./…". *)
Theorem internal_routes_unreachable : forall p : bytes,
  sanitize_path p = Ok tt ->
  ~ has_dot_slash p /\ ~ has_dot_slash (percent_decode p) /\
  (forall key : bytes, has_dot_slash key -> p <> key /\ percent_decode p <> key).
Proof. exact internal_routes_lemma. Qed.

(** 3b. In the pipeline, when no Prime extension returned an override, every Prepare key that is
    consulted or run is the (Prime-expanded) request path and contains no "./". *)
Theorem internal_prepare_only_via_prime :
  forall (h : host_cfg) (fs : bytes -> option bytes) (m : meth) (cached : option reply)
         (p : bytes) (r : reply) (ev : list event) (key : bytes),
    benign_host h ->
    serve h fs m None cached p = (r, ev) ->
    In (EPrepareSingle key) ev \/ In (EPrepareRun key) ev ->
    key = primed_path h p /\ ~ has_dot_slash key.
Proof. exact prepare_key_lemma. Qed.

(** 4. One decoding: whenever a file path is built, the text it is built from is the text that was
    tested (and the raw percent-decoding, decoded once). *)
Theorem one_decoding : forall p d : bytes,
  decoded_for_use p = Some d ->
  decoded_for_check p = d /\ util_percent_decode p = d /\ d = percent_decode p.
Proof. exact one_decoding_lemma. Qed.

(** 5. The [unwrap] in [get_response] cannot fail for an accepted path. *)
Theorem accepted_path_never_panics : forall host public p : bytes,
  sanitize_path p = Ok tt -> request_fs_path host public p <> Panic.
Proof. exact request_fs_path_no_panic. Qed.

(** 6. All histories, through every front end.  A front end [f] says how a request target (HTTP/1.1) or
    [:path] (HTTP/2) becomes the URI of the request, which [Origin] headers count as the site's own, what a
    client can put on the connection and whether HEAD answers arrive without body ([front_inproc], [front_h1],
    [front_h2], [front_h2raw] are the four that are run against the real code; the theorem holds for ANY).
    [run_history_with f (fmt_std c) c empty_state ops] is the list of answers of the fixture host [c]
    (any host path, public directory, errors directory, default extensions or none, response cache on
    or off, file cache on or off, file system enabled or not, any table of path-bound handlers, the
    file system being ANY tree without symbolic links) to ANY sequence of requests (any method, any
    request target in any form, Origin kind) and of steps that copy a stored cache entry to an
    arbitrary other key.  Every body in every answer — whether computed or served from the response
    cache, read from disk or from the file cache — is the generated error page, the CORS refusal,
    empty, the body of one of the operator's handlers, the content of a file reached from the public
    directory by descending through child names, or the content of one of the operator's error pages
    ([error_path] of the host and a status code). *)
Theorem history_bodies_confined :
  forall (f : front) (c : pcfg) (root cwd P : pos) (ops : list op),
    benign_host (pc_host c) -> wf_pos root -> wf_pos cwd -> pc_fs c = read_path root cwd ->
    resolve_path root cwd (h_path (pc_host c) ++ [c_slash] ++ h_public (pc_host c)) = Some P ->
    Forall (answer_ok c P) (run_history_with f (fmt_std c) c empty_state ops).
Proof. exact history_bodies_confined_lemma. Qed.

(** 7. In every state (whatever earlier requests and alias steps put into the response cache, any
    coherent file cache), through every front end, a request whose percent-decoded path is unsafe is
    answered 400 with the generated page or the operator's page for status 400, no Prepare extension is
    consulted or run (empty log), the only object the operating system may have been asked to open is that
    page, the response cache is left as it was and the file cache changes at most under that page's path. *)
Theorem unsafe_request_is_400_in_every_state :
  forall (f : front) (c : pcfg) (st : pstate) (m t : bytes) (k : N) (p : bytes) (q : option bytes),
    f_uri f t = Some (p, q) -> unsafe (percent_decode p) -> fc_coherent (pc_fs c) (snd st) ->
    exists (body : bytes) (opens : list bytes) (fc' : fcache),
      step_request_with f (fmt_std c) c st m t k = (XL [XN 400; XB body; XL []; x_list XB opens], (fst st, fc')) /\
      (body = errpage \/ pc_fs c (error_path (pc_host c) 400) = Some body) /\
      Forall (fun o => In o (open_name (pc_tree c) (error_path (pc_host c) 400))) opens /\
      (forall f0, f0 <> error_path (pc_host c) 400 -> fc_get f0 fc' = fc_get f0 (snd st)).
Proof. exact unsafe_step_lemma. Qed.

(** 8. When the CORS Prime extensions produce no override for a request ([f_kind]: with kvarn's HTTP/1 readers an
    [Origin] header naming the site itself counts as foreign when the request target lengthens the URI's
    authority), the host answers it (and updates its caches) exactly as the same host WITHOUT any path-bound
    Prepare extension whose key contains "./" would: the internal routes do not exist for such a request, in
    any state, through any front end. *)
Theorem internal_routes_need_override :
  forall (f : front) (c : pcfg) (st : pstate) (m t : bytes) (k : N),
    benign_host (pc_host c) -> override_of (pc_default_ext c) m (f_kind f t k) = None ->
    step_request_with f (fmt_std (strip_internal c)) (strip_internal c) st m t k = step_request_with f (fmt_std c) c st m t k.
Proof. exact no_override_strip_lemma. Qed.

(** 9. The definitions (from the proof files) that the statements above rest on, restated here with their
    bodies: a statement is only as strong as the predicates it uses, and these are pinned like the theorems. *)
Theorem def_unsafe : forall d : bytes,
  unsafe d <-> ((exists a b, d = a ++ [c_dot; c_slash] ++ b) \/ ~ (exists r, d = c_slash :: r) \/ (exists r, d = c_slash :: c_slash :: r)).
Proof. intros d. split; exact (fun H => H). Qed.
Theorem def_silent : forall ev : list event,
  silent ev <->
  forallb (fun e => negb match e with EPrepareSingle _ | EPrepareRun _ | EPrepareFn | EFsRead _ => true | _ => false end) ev = true.
Proof. intros ev. split; exact (fun H => H). Qed.
Theorem def_benign_host : forall h : host_cfg,
  benign_host h <->
  ((has_dot_slash_b (percent_decode (h_ext_default h)) = false /\ hd_is c_slash (percent_decode (h_ext_default h)) = false) /\
   (has_dot_slash_b (percent_decode (h_folder_default h)) = false /\ hd_is c_slash (percent_decode (h_folder_default h)) = false)).
Proof. intros h. split; exact (fun H => H). Qed.
Theorem def_fc_coherent : forall (rd : bytes -> option bytes) (fc : fcache),
  fc_coherent rd fc <-> (forall k e, fc_get k fc = Some e -> e = rd k).
Proof. intros rd fc. split; exact (fun H => H). Qed.
Theorem def_read_paths : forall ev : list event,
  read_paths ev = flat_map (fun e => match e with EFsRead f => [f] | EErrRead f => [f] | _ => [] end) ev.
Proof. reflexivity. Qed.
Theorem def_answer_ok : forall (c : pcfg) (P : pos) (x : xval),
  answer_ok c P x <->
  match x with
  | XL [XN _; XB b; _; _] =>
      b = errpage \/ b = cors_denied \/ b = [] \/ (exists k s, In (k, (b, s)) (pc_handlers c)) \/
      (exists names : list bytes, names <> [] /\ Forall (fun s => proper_name s = true) names /\ descend (fst P) names = Some (File b)) \/
      (exists status : N, pc_fs c (error_path (pc_host c) status) = Some b)
  | _ => True
  end.
Proof.
  intros c P x. unfold answer_ok, body_ok, inside, error_page_of.
  repeat match goal with |- context [match ?y with _ => _ end] => is_var y; destruct y end; split; exact (fun H => H).
Qed.
Theorem def_strip_internal : forall c : pcfg,
  pc_handlers (strip_internal c) = pc_handlers c /\ pc_fs (strip_internal c) = pc_fs c /\ pc_tree (strip_internal c) = pc_tree c /\
  pc_host_header (strip_internal c) = pc_host_header c /\
  pc_cache (strip_internal c) = pc_cache c /\ pc_fcache (strip_internal c) = pc_fcache c /\ pc_default_ext (strip_internal c) = pc_default_ext c /\
  h_prepare_single (pc_host (strip_internal c)) = filter (fun k => negb (has_dot_slash_b k)) (h_prepare_single (pc_host c)) /\
  h_path (pc_host (strip_internal c)) = h_path (pc_host c) /\ h_public (pc_host (strip_internal c)) = h_public (pc_host c) /\
  h_errors (pc_host (strip_internal c)) = h_errors (pc_host c) /\ h_fs (pc_host (strip_internal c)) = h_fs (pc_host c) /\
  h_redirect (pc_host (strip_internal c)) = h_redirect (pc_host c) /\ h_ext_default (pc_host (strip_internal c)) = h_ext_default (pc_host c) /\
  h_folder_default (pc_host (strip_internal c)) = h_folder_default (pc_host c).
Proof. intros c. repeat split. Qed.
Theorem def_has_dot_slash_b : forall d : bytes, has_dot_slash_b d = true <-> exists a b, d = a ++ [c_dot; c_slash] ++ b.
Proof. exact has_dot_slash_iff. Qed.

(** Non-vacuity. *)
Definition ex_tree : node :=
  Dir [(B "host", Dir [(B "public", Dir [(B "index.html", File (B "INDEX")); (B "a", Dir [(B "b.txt", File (B "AB"))])]);
                       (B "errors", Dir [(B "404.html", File (B "E404"))]);
                       (B "secret.txt", File (B "SECRET"))]);
       (B "outside.txt", File (B "OUTSIDE"))].
Definition ex_root : pos := (ex_tree, []).
Definition ex_host : host_cfg :=
  {| h_path := B "host"; h_public := B "public"; h_errors := B "errors"; h_fs := true; h_redirect := true;
     h_ext_default := B "html"; h_folder_default := B "index.html"; h_prepare_single := [B "/./cors_fail"; B "/./cors_options"] |}.

Example ex_accepted : sanitize_path (B "/a//b.txt") = Ok tt /\ sanitize_path (B "/..") = Ok tt /\
                      sanitize_path (B "/%252e%252e/secret.txt") = Ok tt.
Proof. repeat split; vm_compute; reflexivity. Qed.
Example ex_walk_dotdot : walk [] (segments (B "..")) = None /\ walk [] (segments (B "a/..")) = Some [].
Proof. split; vm_compute; reflexivity. Qed.
Example ex_read_inside :
  request_fs_path (B "host") (B "public") (B "/a//b.txt") = Ok (Some (B "host/public/a//b.txt")) /\
  read_path ex_root ex_root (B "host/public/a//b.txt") = Some (B "AB").
Proof. split; vm_compute; reflexivity. Qed.
Example ex_dotdot_is_directory :
  request_fs_path (B "host") (B "public") (B "/..") = Ok (Some (B "host/public/..")) /\
  read_path ex_root ex_root (B "host/public/..") = None /\
  read_path ex_root ex_root (B "host/public/../secret.txt") = Some (B "SECRET").
Proof. repeat split; vm_compute; reflexivity. Qed.
Example ex_rejected :
  sanitize_path (B "/%2e%2e/secret.txt") = Err E_UNSAFE /\ sanitize_path (B "/..%2fsecret.txt") = Err E_UNSAFE /\
  sanitize_path (B "//etc/passwd") = Err E_UNSAFE /\ sanitize_path (B "*") = Err E_UNSAFE /\
  sanitize_path (B "/%2e%2e/%ff") = Err E_UNSAFE /\ sanitize_path (B "/%2f%ff") = Err E_UNSAFE.
Proof. repeat split; vm_compute; reflexivity. Qed.
Example ex_unsafe : unsafe (percent_decode (B "/%2e%2e/%ff")).
Proof. apply unsafe_b_iff. vm_compute. reflexivity. Qed.
Example ex_serve_400 :
  serve ex_host (read_path ex_root ex_root) MGet None (Some {| r_status := 403; r_body := None; r_err := None; r_from_cache := false |})
        (B "/./cors_fail")
  = ({| r_status := 400; r_body := None; r_err := None; r_from_cache := false |},
     [ESanitize; EPrime; EErrorPage 400; EErrRead (B "host/errors/400.html")]).
Proof. vm_compute. reflexivity. Qed.
Example ex_serve_200 :
  fst (serve ex_host (read_path ex_root ex_root) MGet None None (B "/a/../index.html")) =
    {| r_status := 400; r_body := None; r_err := None; r_from_cache := false |} /\
  fst (serve ex_host (read_path ex_root ex_root) MGet None None (B "/")) =
    {| r_status := 200; r_body := Some (B "INDEX"); r_err := None; r_from_cache := false |}.
Proof. split; vm_compute; reflexivity. Qed.
(** the file cache: the first 404 reads the operator's page from disk and remembers it, the second takes
    it from the file cache (nothing is handed to the operating system but the missing file itself) *)
Example ex_error_page_cached :
  serve_st ex_host (read_path ex_root ex_root) true [] MGet None None (B "/missing") =
    ({| r_status := 404; r_body := None; r_err := Some (B "E404"); r_from_cache := false |},
     [ESanitize; EPrime; EPrepareSingle (B "/missing"); EPrepareFn; EFsRead (B "host/public/missing"); EErrorPage 404;
      EErrRead (B "host/errors/404.html")],
     [(B "host/errors/404.html", Some (B "E404"))], [B "host/public/missing"; B "host/errors/404.html"]) /\
  snd (serve_st ex_host (read_path ex_root ex_root) true [(B "host/errors/404.html", Some (B "E404"))] MGet None None (B "/missing")) =
    [B "host/public/missing"] /\
  fc_coherent (read_path ex_root ex_root) [(B "host/errors/404.html", Some (B "E404"))] /\
  error_path ex_host 404 = B "host/errors/404.html".
Proof.
  split; [vm_compute; reflexivity|]. split; [vm_compute; reflexivity|]. split; [|vm_compute; reflexivity].
  intros k e H. cbn [fc_get] in H. destruct (beq (B "host/errors/404.html") k) eqn:E; [|discriminate].
  apply beq_eq in E. subst k. inversion H. vm_compute. reflexivity.
Qed.
Example ex_opened :
  opened ex_tree (B "host/public/a//b.txt") = Some ([B "host"; B "public"; B "a"; B "b.txt"], false) /\
  opened ex_tree (B "host/public/..") = Some ([B "host"], true) /\
  opened ex_tree (B "host/public/../secret.txt") = Some ([B "host"; B "secret.txt"], false) /\
  opened ex_tree (B "host/public/missing") = None /\
  cwalk ex_tree [] (segments (h_path ex_host ++ [c_slash] ++ h_public ex_host)) = Some [B "public"; B "host"].
Proof. repeat split; vm_compute; reflexivity. Qed.
(** the hypothesis [benign_host] is needed: an operator whose folder_default is "%2e%2e/secret.txt" has
    configured the host to serve a file outside the public directory for "/" *)
Example confinement_without_benign_host_refuted :
  exists h : host_cfg,
    ~ benign_host h /\
    fst (serve h (read_path ex_root ex_root) MGet None None (B "/")) =
      {| r_status := 200; r_body := Some (B "SECRET"); r_err := None; r_from_cache := false |}.
Proof.
  exists {| h_path := B "host"; h_public := B "public"; h_errors := B "errors"; h_fs := true; h_redirect := true;
            h_ext_default := B "html"; h_folder_default := B "%2e%2e/secret.txt"; h_prepare_single := [] |}.
  split; [|vm_compute; reflexivity].
  intros [_ [H _]]. vm_compute in H. discriminate.
Qed.
Example ex_internal_key : has_dot_slash (B "/./cors_fail") /\ B "/%2e/cors_fail" <> B "/./cors_fail" /\
                          sanitize_path (B "/%2e/cors_fail") = Err E_UNSAFE.
Proof.
  split; [exists [c_slash], (B "cors_fail"); reflexivity|]. split; [discriminate|vm_compute; reflexivity].
Qed.
Example ex_internal_via_prime :
  snd (serve ex_host (read_path ex_root ex_root) MGet (Some (B "/./cors_fail")) None (B "/index.html"))
  = [ESanitize; EPrime; EPrepareSingle (B "/./cors_fail"); EPrepareRun (B "/./cors_fail")].
Proof. vm_compute. reflexivity. Qed.
Example ex_one_decoding : decoded_for_use (B "/%252e%252e/x") = Some (B "/%2e%2e/x") /\ decoded_for_use (B "/%ff") = None.
Proof. split; vm_compute; reflexivity. Qed.
Example ex_benign : benign_host ex_host.
Proof. exact benign_defaults. Qed.
(** request targets in every form, as kvarn's HTTP/1 reader glues them to the Host header *)
Example ex_target_forms :
  target_uri (B "/../secret.txt") = Some (B "/../secret.txt", None) /\
  target_uri (B "http://localhost/../secret.txt") = Some (B "//localhost/../secret.txt", None) /\
  target_uri (B "*") = Some (B "/", None) /\ target_uri (B "../secret.txt") = Some (B "/secret.txt", None) /\
  target_uri (B "@evil/../x?y") = Some (B "/../x", Some (B "y")) /\ target_uri (B "\..\secret.txt") = None /\
  uri_parse (B "*") = Some (B "*", None) /\ uri_parse (B "example.com") = Some ([], None) /\
  uri_parse (B "http://h/../x") = Some (B "/../x", None).
Proof. repeat split; vm_compute; reflexivity. Qed.

(** the fixture host of the examples as a pipeline configuration; a history with a cached file, a
    rejected traversal in two spellings, a double-encoded name that stays inside, and an alias step *)
Definition ex_files : list (bytes * bytes) :=
  [(B "host/public/index.html", B "INDEX"); (B "host/public/a/b.txt", B "AB"); (B "host/errors/404.html", B "E404");
   (B "host/secret.txt", B "SECRET"); (B "outside.txt", B "OUTSIDE")].
Definition ex_pcfg : pcfg :=
  {| pc_default_ext := true; pc_cache := true; pc_fcache := true;
     pc_host := {| h_path := run_dir ++ B "/host"; h_public := B "public"; h_errors := B "errors"; h_fs := true; h_redirect := true;
                   h_ext_default := B "html"; h_folder_default := B "index.html";
                   h_prepare_single := [B "/./cors_fail"; B "/./cors_options"] |};
     pc_fs := read_path (fixture_root ex_files) (fixture_root ex_files); pc_tree := fixture_tree ex_files;
     pc_host_header := B "localhost"; pc_handlers := [] |}.
Example ex_history :
  run_history ex_pcfg empty_state
    [OReq (B "GET") (B "/") 0; OReq (B "GET") (B "/index.html") 0; OReq (B "GET") (B "/../secret.txt") 0;
     OAlias (B "/index.html") (B "/%2e%2e/secret.txt"); OReq (B "GET") (B "/%2e%2e/secret.txt") 0;
     OReq (B "GET") (B "/%252e%252e/") 0; OReq (B "GET") (B "/%252e%252e/x") 0; OReq (B "GET") (B "/a/b.txt") 2;
     OReq (B "GET") (B "/./cors_fail") 0; OReq (B "GET") (B "http://localhost/../secret.txt") 0]
  = [XL [XN 200; XB (B "INDEX"); XL [XB (B "pf")]; XL [XB (B "host/public/index.html")]];
     XL [XN 200; XB (B "INDEX"); XL []; XL []];
     XL [XN 400; XB errpage; XL []; XL []]; XL [XN 1]; XL [XN 400; XB errpage; XL []; XL []];
     XL [XN 404; XB (B "E404"); XL [XB (B "pf")]; XL [XB (B "host/errors/404.html")]];
     XL [XN 404; XB (B "E404"); XL [XB (B "pf")]; XL []];
     XL [XN 403; XB cors_denied; XL []; XL []]; XL [XN 400; XB errpage; XL []; XL []];
     XL [XN 400; XB errpage; XL []; XL []]].
Proof. vm_compute. reflexivity. Qed.
(** the same host through the other front ends: over HTTP/2 a [:path] without a leading '/' never becomes a
    request (the h2 layer refuses it), "*" is the path "*" (refused with 400 by kvarn), a HEAD answer has no body
    (and fills the response cache: "?x" is then the cached "/index.html") *)
Example ex_fronts :
  run_history_with front_h2raw (fmt_std ex_pcfg) ex_pcfg empty_state
    [OReq (B "GET") (B "../secret.txt") 0; OReq (B "GET") (B "*") 0; OReq (B "HEAD") (B "/index.html") 0;
     OReq (B "GET") (B "/%252e%252e/x") 0; OReq (B "GET") (B "?x") 0; OReq (B "CONNECT") (B "/") 0]
  = [XL [XN 96]; XL [XN 400; XB errpage; XL []; XL []];
     XL [XN 200; XB []; XL [XB (B "pf")]; XL [XB (B "host/public/index.html")]];
     XL [XN 404; XB (B "E404"); XL [XB (B "pf")]; XL [XB (B "host/errors/404.html")]];
     XL [XN 200; XB (B "INDEX"); XL []; XL []]; XL [XN 96]] /\
  run_history_with front_h1 (fmt_std ex_pcfg) ex_pcfg empty_state [OReq (B "GET") (B "*") 1; OReq (B "GET") (B "a b") 0]
  = [XL [XN 403; XB cors_denied; XL []; XL []]; XL [XN 96]] /\
  (* a part of the path in the Host header *)
  run_history_with (front_h1_h (B "localhost/..")) (fmt_std ex_pcfg) ex_pcfg empty_state [OReq (B "GET") (B "/secret.txt") 0]
  = [XL [XN 400; XB errpage; XL []; XL []]] /\
  uri_of (B "localhost/..") (B "/secret.txt") = Some (B "/../secret.txt", None) /\
  uri_of (B "localhost?") (B "/../secret.txt") = Some (B "/", Some (B "/../secret.txt")).
Proof. repeat split; vm_compute; reflexivity. Qed.
Example ex_history_hyps :
  benign_host (pc_host ex_pcfg) /\ wf_pos (fixture_root ex_files) /\
  resolve_path (fixture_root ex_files) (fixture_root ex_files)
    (h_path (pc_host ex_pcfg) ++ [c_slash] ++ h_public (pc_host ex_pcfg)) <> None.
Proof. split; [exact benign_defaults|]. split; [constructor|vm_compute; discriminate]. Qed.
Example ex_no_override : override_of true (B "GET") 0 = None /\ override_of true (B "GET") 2 = Some cors_fail.
Proof. split; reflexivity. Qed.
