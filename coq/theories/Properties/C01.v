(** C01 — Requests cannot read outside the public directory or reach internal routes.
    Only statements here; proofs are in Proofs/PathSanProofs.v.

    [p] is the URI path of the request ([request.uri().path()]), any list of numbers.
    [percent_decode p] is its percent-decoding as BYTES (percent_encoding's rule).
    [sanitize_path] is the path part of [sanitize_request], [request_fs_path] the file path
    [get_response] builds, [serve] the pipeline from [handle_cache] down to [read_file]. *)
From KV Require Import Bytes PathSan PathSanProofs.
Open Scope N_scope.

(** 1a. Lexical confinement.  An accepted path decodes to "/" ++ t; split t on '/' into
    pre ++ [last].  No segment of [pre] is "." or ".." (only empty segments and names), so the
    walk over every prefix of [pre] is a pure descent, at depth = number of names so far: it never
    pops and never leaves the root.  Only the LAST segment can be a dot segment (it is the only
    place where "." / ".." is not followed by '/'):
      - a name         : the path names an entry strictly inside the root;
      - "" or "."      : the path names the directory reached so far (at or below the root);
      - ".."           : the path names the parent of that directory; this is above the root
                         exactly for "/..", "//..", … (no name in [pre]) — then it names the
                         directory CONTAINING the public directory.  A path whose last component is
                         "..", "." or empty can only resolve to a directory, never to a regular
                         file, so no file content can come from it (made precise in 1b). *)
Theorem accepted_path_confined : forall p : bytes,
  sanitize_path p = Ok tt ->
  exists (t : bytes) (pre : list bytes) (last_ : bytes),
    percent_decode p = c_slash :: t /\ segments t = pre ++ [last_] /\
    Forall plain_seg pre /\
    (forall a b : list bytes, pre = a ++ b -> walk [] a = Some (rev (names_of a))) /\
    walk [] (segments t) =
      (if is_empty last_ || is_dot last_ then Some (rev (names_of pre))
       else if is_dotdot last_ then match rev (names_of pre) with [] => None | _ :: st => Some st end
       else Some (last_ :: rev (names_of pre))).
Proof. exact accepted_path_confined_lemma. Qed.

(** 1b. The same over an arbitrary file tree with POSIX resolution and no symbolic links: for every
    host path, every public directory name, every tree (whatever lies above and beside the public
    directory), if reading the file path built for an accepted request returns a content, then that
    content is the content of a file reached from the public directory [P] by descending through
    child names only. *)
Theorem served_content_is_inside_public :
  forall (p host public f : bytes) (root cwd P : pos) (c : bytes),
    sanitize_path p = Ok tt ->
    request_fs_path host public p = Ok (Some f) ->
    wf_pos root -> wf_pos cwd ->
    resolve_path root cwd (host ++ [c_slash] ++ public) = Some P ->
    read_path root cwd f = Some c ->
    exists names : list bytes,
      names <> [] /\ Forall (fun s => proper_name s = true) names /\ descend (fst P) names = Some (File c).
Proof. exact served_content_lemma. Qed.

(** 1c. The same for the whole pipeline, including the "Expand . and /" Prime extension that rewrites
    the URI after the sanitize test, for every method, Prime override and Prepare table. *)
Theorem served_file_is_inside_public :
  forall (h : host_cfg) (root cwd P : pos) (m : meth) (ov : option bytes) (p : bytes)
         (r : reply) (ev : list event) (c : bytes),
    benign_host h -> wf_pos root -> wf_pos cwd ->
    resolve_path root cwd (h_path h ++ [c_slash] ++ h_public h) = Some P ->
    serve h (read_path root cwd) m ov None p = (r, ev) ->
    r_body r = Some c ->
    exists names : list bytes,
      names <> [] /\ Forall (fun s => proper_name s = true) names /\ descend (fst P) names = Some (File c).
Proof. exact served_file_inside_lemma. Qed.

(** 2a. Exactly the paths whose percent-decoded BYTES contain "./", do not start with '/', or start
    with "//" are rejected with UnsafePath (no UTF-8 condition). *)
Theorem unsafe_is_rejected : forall p : bytes,
  unsafe (percent_decode p) <-> sanitize_path p = Err E_UNSAFE.
Proof. exact unsafe_is_rejected_lemma. Qed.

(** 2b. Such a request is answered 400, never from the cache, and neither a Prepare extension nor
    the file system is touched — for every host, method, Prime override and cache content. *)
Theorem unsafe_is_400_and_silent :
  forall (h : host_cfg) (fs : bytes -> option bytes) (m : meth) (ov : option bytes)
         (cached : option reply) (p : bytes),
    unsafe (percent_decode p) ->
    let '(r, ev) := serve h fs m ov cached p in
    r_status r = 400 /\ r_body r = None /\ r_from_cache r = false /\ silent ev.
Proof. exact unsafe_is_400_and_silent_lemma. Qed.

(** 3a. An accepted path contains no "./", neither raw nor decoded; so it is different from every
    key that contains "./" — in particular from every internal route "/./…". *)
Theorem internal_routes_unreachable : forall p : bytes,
  sanitize_path p = Ok tt ->
  ~ has_dot_slash p /\ ~ has_dot_slash (percent_decode p) /\
  (forall key : bytes, has_dot_slash key -> p <> key /\ percent_decode p <> key).
Proof. exact internal_routes_lemma. Qed.

(** 3b. In the pipeline, when no Prime extension returned an override, every Prepare key that is
    consulted or run is the (Prime-expanded) request path and contains no "./". *)
Theorem internal_prepare_only_via_prime :
  forall (h : host_cfg) (fs : bytes -> option bytes) (m : meth) (cached : option reply)
         (p : bytes) (r : reply) (ev : list event) (key : bytes),
    benign_host h ->
    serve h fs m None cached p = (r, ev) ->
    In (EPrepareSingle key) ev \/ In (EPrepareRun key) ev ->
    key = primed_path h p /\ ~ has_dot_slash key.
Proof. exact prepare_key_lemma. Qed.

(** 4. One decoding: whenever a file path is built, the text it is built from is the text that was
    tested (and the raw percent-decoding, decoded once). *)
Theorem one_decoding : forall p d : bytes,
  decoded_for_use p = Some d ->
  decoded_for_check p = d /\ util_percent_decode p = d /\ d = percent_decode p.
Proof. exact one_decoding_lemma. Qed.

(** 5. The [unwrap] in [get_response] cannot fail for an accepted path. *)
Theorem accepted_path_never_panics : forall host public p : bytes,
  sanitize_path p = Ok tt -> request_fs_path host public p <> Panic.
Proof. exact request_fs_path_no_panic. Qed.

(** Non-vacuity. *)
Definition ex_tree : node :=
  Dir [(B "host", Dir [(B "public", Dir [(B "index.html", File (B "INDEX")); (B "a", Dir [(B "b.txt", File (B "AB"))])]);
                       (B "secret.txt", File (B "SECRET"))]);
       (B "outside.txt", File (B "OUTSIDE"))].
Definition ex_root : pos := (ex_tree, []).
Definition ex_host : host_cfg :=
  {| h_path := B "host"; h_public := B "public"; h_redirect := true; h_ext_default := B "html";
     h_folder_default := B "index.html"; h_prepare_single := [B "/./cors_fail"; B "/./cors_options"] |}.

Example ex_accepted : sanitize_path (B "/a//b.txt") = Ok tt /\ sanitize_path (B "/..") = Ok tt /\
                      sanitize_path (B "/%252e%252e/secret.txt") = Ok tt.
Proof. repeat split; vm_compute; reflexivity. Qed.
Example ex_walk_dotdot : walk [] (segments (B "..")) = None /\ walk [] (segments (B "a/..")) = Some [].
Proof. split; vm_compute; reflexivity. Qed.
Example ex_read_inside :
  request_fs_path (B "host") (B "public") (B "/a//b.txt") = Ok (Some (B "host/public/a//b.txt")) /\
  read_path ex_root ex_root (B "host/public/a//b.txt") = Some (B "AB").
Proof. split; vm_compute; reflexivity. Qed.
Example ex_dotdot_is_directory :
  request_fs_path (B "host") (B "public") (B "/..") = Ok (Some (B "host/public/..")) /\
  read_path ex_root ex_root (B "host/public/..") = None /\
  read_path ex_root ex_root (B "host/public/../secret.txt") = Some (B "SECRET").
Proof. repeat split; vm_compute; reflexivity. Qed.
Example ex_rejected :
  sanitize_path (B "/%2e%2e/secret.txt") = Err E_UNSAFE /\ sanitize_path (B "/..%2fsecret.txt") = Err E_UNSAFE /\
  sanitize_path (B "//etc/passwd") = Err E_UNSAFE /\ sanitize_path (B "*") = Err E_UNSAFE /\
  sanitize_path (B "/%2e%2e/%ff") = Err E_UNSAFE /\ sanitize_path (B "/%2f%ff") = Err E_UNSAFE.
Proof. repeat split; vm_compute; reflexivity. Qed.
Example ex_unsafe : unsafe (percent_decode (B "/%2e%2e/%ff")).
Proof. apply unsafe_b_iff. vm_compute. reflexivity. Qed.
Example ex_serve_400 :
  serve ex_host (read_path ex_root ex_root) MGet None (Some {| r_status := 403; r_body := None; r_from_cache := false |})
        (B "/./cors_fail")
  = ({| r_status := 400; r_body := None; r_from_cache := false |}, [ESanitize; EPrime; EErrorPage 400]).
Proof. vm_compute. reflexivity. Qed.
Example ex_serve_200 :
  serve ex_host (read_path ex_root ex_root) MGet None None (B "/a/../index.html") =
    ({| r_status := 400; r_body := None; r_from_cache := false |}, [ESanitize; EPrime; EErrorPage 400]) /\
  fst (serve ex_host (read_path ex_root ex_root) MGet None None (B "/")) =
    {| r_status := 200; r_body := Some (B "INDEX"); r_from_cache := false |}.
Proof. split; vm_compute; reflexivity. Qed.
Example ex_internal_key : has_dot_slash (B "/./cors_fail") /\ B "/%2e/cors_fail" <> B "/./cors_fail" /\
                          sanitize_path (B "/%2e/cors_fail") = Err E_UNSAFE.
Proof.
  split; [exists [c_slash], (B "cors_fail"); reflexivity|]. split; [discriminate|vm_compute; reflexivity].
Qed.
Example ex_internal_via_prime :
  snd (serve ex_host (read_path ex_root ex_root) MGet (Some (B "/./cors_fail")) None (B "/index.html"))
  = [ESanitize; EPrime; EPrepareSingle (B "/./cors_fail"); EPrepareRun (B "/./cors_fail")].
Proof. vm_compute. reflexivity. Qed.
Example ex_one_decoding : decoded_for_use (B "/%252e%252e/x") = Some (B "/%2e%2e/x") /\ decoded_for_use (B "/%ff") = None.
Proof. split; vm_compute; reflexivity. Qed.
Example ex_benign : benign_host ex_host.
Proof. exact benign_defaults. Qed.
