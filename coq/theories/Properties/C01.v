From KV Require Import Bytes PathSan PathSanProofs.
