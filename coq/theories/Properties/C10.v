(** C10 — Graceful shutdown neither cuts a connection nor hangs.
    Only statements here; proofs are in Proofs/ShutdownProofs.v.  The transition system
    (Model/Shutdown.v) interleaves, under sequential consistency, the atomic accesses of any number
    of accept loops, connection tasks (whose handler returns or panics), shutdown callers, the
    completion task, pre-shutdown hooks, waiters and arriving connections.  [repaired] is the code
    after the three fix commits, [today] kvarn 0.6.3 as found. *)
From KV Require Import Bytes Shutdown ShutdownProofs ShutdownBoot ShutdownBootProofs.
Open Scope nat_scope.

(** Clause 1: in every reachable state, once the shutdown-complete signal has been sent no accept loop
    holds an accepted stream and no connection task is still to run or running. *)
Theorem finished_after_all : forall s : state,
  reachable repaired s -> finished s = true -> all_done s = true.
Proof. exact ShutdownProofs.finished_after_all. Qed.

(** ... and no listener is bound any more. *)
Theorem finished_listeners_closed : forall s : state,
  reachable repaired s -> finished s = true -> forallb (fun l => negb (l_bound l)) (ls s) = true.
Proof. exact ShutdownProofs.finished_listeners_closed. Qed.

(** Clause 2: every reachable state in which shutdown was requested and no thread of the server or of
    its users can move has: signal sent, every listener exited, every connection task ended (also
    the panicked ones), every hook acknowledged, every waiter resolved. *)
Theorem no_hang : forall s : state,
  reachable repaired s -> requested s = true -> quiescent repaired s -> completed s = true.
Proof. exact ShutdownProofs.no_hang. Qed.

(** Hooks: the signal is sent only after as many acknowledgements as hooks were registered when the
    completion task read the count; if none registered later, every registered hook has acknowledged. *)
Theorem hooks_before_finished : forall s : state,
  reachable repaired s -> finished s = true ->
  want s <= count h_acked (hooks s) /\
  (want s = pre_count s -> forall h p, nth_error (hooks s) h = Some p -> h_registered p = true -> h_acked p = true).
Proof. exact ShutdownProofs.hooks_before_finished. Qed.

(** Towards [completes] (partial): whenever the deterministic scheduler [drain] comes to rest from a
    reachable requested state, a finite continuation has reached a completed state.  Missing for the
    full statement: that [drain] always comes to rest (termination of the threads' programs). *)
Theorem completes_partial : forall (s : state) (fuel : nat),
  reachable repaired s -> requested s = true -> quiescentb repaired (drain repaired fuel s) = true ->
  exists sched s', run repaired s sched = Some s' /\ completed s' = true.
Proof. exact ShutdownProofs.completes_partial. Qed.

(** The three windows of kvarn 0.6.3 (each schedule replayed on the real code). *)
Theorem finished_after_all_today_refuted :
  exists s, reachable today s /\ finished s = true /\ all_done s = false.
Proof. exact ShutdownProofs.finished_after_all_today_refuted. Qed.
Theorem no_hang_today_panic_refuted :
  exists s, reachable today s /\ requested s = true /\ quiescent today s /\ finished s = false.
Proof. exact ShutdownProofs.no_hang_today_panic_refuted. Qed.
Theorem no_hang_today_late_waker_refuted :
  exists s, reachable today s /\ requested s = true /\ quiescent today s /\ finished s = true /\
            forallb l_exited (ls s) = false.
Proof. exact ShutdownProofs.no_hang_today_late_waker_refuted. Qed.

(** Non-vacuity. *)
Definition ex_sched (text : list label) (nl nc nh nw : nat) : option state := run repaired (init repaired nl nc nh nw) text.

(** a run with a connection accepted while shutdown is being requested, ending with the signal sent *)
Example ex_finished_reached :
  match ex_sched [EConn 0; LTake 0; SStep 0; SStep 0; SStep 0; SStep 0; LStep 0; LStep 0; LStep 0; LStep 0; LStep 0;
                  CStep 0; CStep 0; CStep 0; CStep 0; KStep; KStep; KStep] 1 1 0 1 with
  | Some s => finished s = true /\ all_done s = true /\ length (cs s) = 1
  | None => False
  end.
Proof. vm_compute. auto. Qed.
(** quiescent requested states: panicking handler; zero connections with two callers and a hook *)
Example ex_quiescent_panic :
  match ex_sched [EConn 0; LTake 0; LStep 0; LStep 0; CPanic 0; SStep 0; SStep 0; SStep 0; SStep 0; LStep 0; LStep 0; LStep 0;
                  CStep 0; CStep 0; CStep 0; KStep; KStep; KStep; WStep 0] 1 1 0 1 with
  | Some s => requested s = true /\ quiescentb repaired s = true /\ completed s = true
  | None => False
  end.
Proof. vm_compute. auto. Qed.
Example ex_quiescent_zero_two_callers :
  match ex_sched [HStep 0] 2 2 1 1 with
  | Some s0 => let s := drain repaired 200 s0 in
               requested s = true /\ quiescentb repaired s = true /\ completed s = true /\ want s = 1 /\ cs s = []
  | None => False
  end.
Proof. vm_compute. auto 6. Qed.
(** a state where the signal is sent and both hooks had registered in time *)
Example ex_hooks :
  match ex_sched [HStep 0; HStep 1] 1 1 2 0 with
  | Some s0 => let s := drain repaired 200 s0 in finished s = true /\ want s = pre_count s /\ want s = 2
  | None => False
  end.
Proof. vm_compute. auto. Qed.
(** [completes_partial] is not vacuous: the scheduler comes to rest from a state in the middle of a run *)
Example ex_completes :
  match ex_sched [EConn 0; LTake 0; SStep 0; LStep 0] 1 1 0 1 with
  | Some s => requested s = true /\ quiescentb repaired (drain repaired 100 s) = true
  | None => False
  end.
Proof. vm_compute. auto. Qed.

(** ---- start-up ([RunConfig::execute]: for every listener count, bind + listen, spawn; Model/ShutdownBoot.v) ----
    The accept loops spawned so far accept, count, spawn and finish connections while [execute] is still
    starting the others; nobody has the manager before [execute] returns.  Every state of that machine is,
    with the listeners still to come put at the top of their loop and their counts added ([flat]), a
    reachable state of the transition system above: the initial state [init repaired nl ..] of Model/Shutdown.v
    is not an assumption about the start-up order but a consequence of it. *)
Theorem boot_refines : forall nl nc nh nw w,
  breachable nl nc nh nw w -> reachable repaired (flat w).
Proof. exact ShutdownBootProofs.boot_refines. Qed.

(** ... and when [execute] returns the manager, the state is itself reachable there *)
Theorem booted_reachable : forall nl nc nh nw w,
  breachable nl nc nh nw w -> b_done w = true -> reachable repaired (b_in w).
Proof. exact ShutdownBootProofs.booted_reachable. Qed.

(** hence both clauses for every schedule that follows any start-up *)
Theorem startup_then_shutdown : forall nl nc nh nw w sched s,
  breachable nl nc nh nw w -> b_done w = true -> run repaired (b_in w) sched = Some s ->
  (finished s = true -> all_done s = true /\ forallb (fun l => negb (l_bound l)) (ls s) = true) /\
  (requested s = true -> quiescent repaired s -> completed s = true).
Proof. exact ShutdownBootProofs.startup_then_shutdown. Qed.

(** shutdown cannot have been requested while [execute] has not returned *)
Theorem startup_not_requested : forall nl nc nh nw w,
  breachable nl nc nh nw w -> requested (b_in w) = false.
Proof. exact ShutdownBootProofs.startup_not_requested. Qed.

(** Non-vacuity: two listeners; listener 0 accepts, counts, spawns and finishes one connection and holds a
    second one while listener 1 is being counted, bound (a client queues on it) and spawned. *)
Definition ex_boot : list blabel :=
  [BExec; BExec; BExec; BIn (EConn 0); BIn (LTake 0); BIn (LStep 0); BIn (LStep 0); BExec; BExec; BEnv; BIn (CStep 0);
   BIn (CStep 0); BIn (EConn 0); BIn (LTake 0); BExec].
Example ex_boot_done :
  match brun (binit 2 1 0 1) ex_boot with
  | Some w => b_done w = true /\ gC (b_in w) = 2%Z /\ map l_pc (ls (b_in w)) = [LGot; LTop] /\ cs (b_in w) = [CDone] /\
              map l_queue (ls (b_in w)) = [0; 1]
  | None => False
  end.
Proof. vm_compute. auto 6. Qed.
(** in the middle of it the count is 2 (loop 0 and its connection) while listener 1 is not counted yet; the state
    it stands for has count 3 and listener 1 at the top of its loop *)
Example ex_boot_middle :
  match brun (binit 2 1 0 1) (firstn 7 ex_boot) with
  | Some w => b_done w = false /\ gC (b_in w) = 2%Z /\ gC (flat w) = 3%Z /\ map l_pc (ls (flat w)) = [LTop; LTop] /\ cs (flat w) = [CRunning]
  | None => False
  end.
Proof. vm_compute. auto 6. Qed.
(** a shutdown after that start-up completes although a connection was accepted before listener 1 existed *)
Example ex_boot_then_shutdown :
  match brun (binit 2 1 0 1) ex_boot with
  | Some w => let s := drain repaired 400 (b_in w) in
              requested s = true /\ quiescentb repaired s = true /\ completed s = true /\ length (cs s) = 3
  | None => False
  end.
Proof. vm_compute. auto 6. Qed.
