(** C10 — Graceful shutdown neither cuts a connection nor hangs.
    Only statements here; proofs are in Proofs/ShutdownProofs.v.  The transition system
    (Model/Shutdown.v) interleaves, under sequential consistency, the atomic accesses of any number
    of accept loops, connection tasks (whose handler returns or panics), shutdown callers, the
    completion task, pre-shutdown hooks, waiters and arriving connections.  [repaired] is the code
    after the three fix commits, [today] kvarn 0.6.3 as found. *)
From KV Require Import Bytes Shutdown ShutdownProofs.
Open Scope nat_scope.

(** Clause 1: in every reachable state, once the shutdown-complete signal has been sent no accept loop
    holds an accepted stream and no connection task is still to run or running. *)
Theorem finished_after_all : forall s : state,
  reachable repaired s -> finished s = true -> all_done s = true.
Proof. exact ShutdownProofs.finished_after_all. Qed.

(** ... and no listener is bound any more. *)
Theorem finished_listeners_closed : forall s : state,
  reachable repaired s -> finished s = true -> forallb (fun l => negb (l_bound l)) (ls s) = true.
Proof. exact ShutdownProofs.finished_listeners_closed. Qed.

(** Clause 2: every reachable state in which shutdown was requested and no thread of the server or of
    its users can move has: signal sent, every listener exited, every connection task ended (also
    the panicked ones), every hook acknowledged, every waiter resolved. *)
Theorem no_hang : forall s : state,
  reachable repaired s -> requested s = true -> quiescent repaired s -> completed s = true.
Proof. exact ShutdownProofs.no_hang. Qed.

(** Hooks: the signal is sent only after as many acknowledgements as hooks were registered when the
    completion task read the count; if none registered later, every registered hook has acknowledged. *)
Theorem hooks_before_finished : forall s : state,
  reachable repaired s -> finished s = true ->
  want s <= count h_acked (hooks s) /\
  (want s = pre_count s -> forall h p, nth_error (hooks s) h = Some p -> h_registered p = true -> h_acked p = true).
Proof. exact ShutdownProofs.hooks_before_finished. Qed.

(** Towards [completes] (partial): whenever the deterministic scheduler [drain] comes to rest from a
    reachable requested state, a finite continuation has reached a completed state.  Missing for the
    full statement: that [drain] always comes to rest (termination of the threads' programs). *)
Theorem completes_partial : forall (s : state) (fuel : nat),
  reachable repaired s -> requested s = true -> quiescentb repaired (drain repaired fuel s) = true ->
  exists sched s', run repaired s sched = Some s' /\ completed s' = true.
Proof. exact ShutdownProofs.completes_partial. Qed.

(** The three windows of kvarn 0.6.3 (each schedule replayed on the real code). *)
Theorem finished_after_all_today_refuted :
  exists s, reachable today s /\ finished s = true /\ all_done s = false.
Proof. exact ShutdownProofs.finished_after_all_today_refuted. Qed.
Theorem no_hang_today_panic_refuted :
  exists s, reachable today s /\ requested s = true /\ quiescent today s /\ finished s = false.
Proof. exact ShutdownProofs.no_hang_today_panic_refuted. Qed.
Theorem no_hang_today_late_waker_refuted :
  exists s, reachable today s /\ requested s = true /\ quiescent today s /\ finished s = true /\
            forallb l_exited (ls s) = false.
Proof. exact ShutdownProofs.no_hang_today_late_waker_refuted. Qed.

(** Non-vacuity. *)
Definition ex_sched (text : list label) (nl nc nh nw : nat) : option state := run repaired (init repaired nl nc nh nw) text.

(** a run with a connection accepted while shutdown is being requested, ending with the signal sent *)
Example ex_finished_reached :
  match ex_sched [EConn 0; LTake 0; SStep 0; SStep 0; SStep 0; SStep 0; LStep 0; LStep 0; LStep 0; LStep 0; LStep 0;
                  CStep 0; CStep 0; CStep 0; CStep 0; KStep; KStep; KStep] 1 1 0 1 with
  | Some s => finished s = true /\ all_done s = true /\ length (cs s) = 1
  | None => False
  end.
Proof. vm_compute. auto. Qed.
(** quiescent requested states: panicking handler; zero connections with two callers and a hook *)
Example ex_quiescent_panic :
  match ex_sched [EConn 0; LTake 0; LStep 0; LStep 0; CPanic 0; SStep 0; SStep 0; SStep 0; SStep 0; LStep 0; LStep 0; LStep 0;
                  CStep 0; CStep 0; CStep 0; KStep; KStep; KStep; WStep 0] 1 1 0 1 with
  | Some s => requested s = true /\ quiescentb repaired s = true /\ completed s = true
  | None => False
  end.
Proof. vm_compute. auto. Qed.
Example ex_quiescent_zero_two_callers :
  match ex_sched [HStep 0] 2 2 1 1 with
  | Some s0 => let s := drain repaired 200 s0 in
               requested s = true /\ quiescentb repaired s = true /\ completed s = true /\ want s = 1 /\ cs s = []
  | None => False
  end.
Proof. vm_compute. auto 6. Qed.
(** a state where the signal is sent and both hooks had registered in time *)
Example ex_hooks :
  match ex_sched [HStep 0; HStep 1] 1 1 2 0 with
  | Some s0 => let s := drain repaired 200 s0 in finished s = true /\ want s = pre_count s /\ want s = 2
  | None => False
  end.
Proof. vm_compute. auto. Qed.
(** [completes_partial] is not vacuous: the scheduler comes to rest from a state in the middle of a run *)
Example ex_completes :
  match ex_sched [EConn 0; LTake 0; SStep 0; LStep 0] 1 1 0 1 with
  | Some s => requested s = true /\ quiescentb repaired (drain repaired 100 s) = true
  | None => False
  end.
Proof. vm_compute. auto. Qed.
