(** C13 — Cross-origin requests are refused unless a rule allows origin and method.
    Only statements here; proofs are in Proofs/CorsProofs.v. *)
From KV Require Import Bytes RuleSet RuleSetProofs Cors CorsProofs.
Open Scope N_scope.
