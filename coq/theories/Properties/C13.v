(** C13 — Cross-origin requests are refused unless a rule allows origin and method.
    Only statements here; proofs are in Proofs/CorsProofs.v.

    Vocabulary (Model/Cors.v): [respond] = primes + [handle_cache] + the with_cors Package, as one
    request sees it on a connection with scheme [conn_scheme]; its first arguments name the version of
    the code: [is_part_of_origin] / [resolved_path] / [true] (resolve_prime keeps the requested URI) /
    [SP_NONE] (cache preference of the refusal) are the code as it is now, the [.._v0] / [false] /
    [SP_FULL] variants the code before the repairs (only in the [.._refuted] witnesses).
    [cors_spec] = the property's decision function for one path; [cors_spec2] = the same for the two
    spellings of a path (as requested, and [resolved_path]: percent-decoded, repeated '/' collapsed —
    the path a file is read from): allowed for both; [req_verdict] = [cors_spec2] on a request with the
    rule found by [RuleSet::get]; [no_internal] = the cache holds nothing under an internal route (an
    invariant of every history, [cors_cache_independent] (a)).  Arguments of the theorems (arbitrary):
    [parse] = [http::Uri::try_from]; [filt] = [host.options.status_code_cache_filter]; [app] = the
    application's request handlers — Prepare extensions bound to a path or to a predicate and the
    files of the host — not mounted on internal routes and not reading the Origin header. *)
From KV Require Import Bytes RuleSet RuleSetProofs Cors CorsProofs.
Open Scope N_scope.

(** the code's check ([Cors::check_cors_request]) is the decision function, for every rule lookup and
    every path normalisation *)
Theorem cors_check_is_spec :
  forall (parse : bytes -> option uparts) (norm : bytes -> bytes) (get : bytes -> option allow_list) (m : N) (s a p : bytes) (o : option bytes),
    mem_byte c_colon s = false ->
    check_cors_request parse is_part_of_origin norm get m (Some s) (Some a) p o = verdict_grant (cors_spec2 norm parse get m s a p o).
Proof. exact check_is_spec. Qed.

(** a request that is not refused is allowed by the rule of the path as requested AND by the rule of the
    resolved path *)
Theorem cors_allowed_by_both_rules :
  forall (norm : bytes -> bytes) (parse : bytes -> option uparts) (get : bytes -> option allow_list) (m : N) (s a p : bytes) (o : option bytes),
    cors_spec2 norm parse get m s a p o <> VRefuse ->
    cors_spec parse get m s a p o <> VRefuse /\ cors_spec parse get m s a (norm p) o <> VRefuse.
Proof. exact spec2_both. Qed.

(** ... so whatever spelling of a path reaches a file (percent escapes, repeated slashes), a request that is
    let through is allowed by the most specific rule of that file's own path *)
Theorem cors_rule_of_served_file :
  forall (parse : bytes -> option uparts) (get : bytes -> option allow_list) (m : N) (s a p : bytes) (o : option bytes)
         (files : list (bytes * bytes)) (rel content : bytes),
    fs_find files p = Some (rel, content) ->
    cors_spec2 resolved_path parse get m s a p o <> VRefuse ->
    cors_spec parse get m s a (c_slash :: rel) o <> VRefuse.
Proof. exact served_file_rule. Qed.

(** ... and the rule it uses is the most specific rule of the configuration history (last added wins),
    whatever order [sort_unstable_by] leaves the vector in *)
Theorem cors_verdict_most_specific_rule :
  forall (parse : bytes -> option uparts) (norm : bytes -> bytes) (conn_scheme : bytes) (cfg : ccfg) (hist : list (bytes * allow_list)) (r : request) (a : bytes),
    rs_reach hist (cc_rules cfg) -> header H_HOST r = Some a ->
    req_verdict parse norm conn_scheme cfg r
    = cors_spec2 norm parse (hist_lookup cfg hist) (rq_method r) conn_scheme a (rq_path r) (header H_ORIGIN r).
Proof. exact verdict_most_specific. Qed.

(** refused => 403, no handler invoked (empty log), no header at all (so no access-control-allow-origin),
    cache untouched; allowed or same origin (not a preflight) => the reply and the new server state of
    the same request without Origin, plus access-control-allow-origin = the origin bytes (with_cors).
    For every status filter, every handler set, also when [uri_redirect] rewrites the path. *)
Theorem cors_decision :
  forall (parse : bytes -> option uparts) (filt : N -> bool) (conn_scheme : bytes) (cfg : ccfg) (app : app_handlers) (c : cache) (now : N) (r0 : request) (a o : bytes),
    mem_byte c_colon conn_scheme = false -> app_external app -> app_ignores_origin app -> no_internal c ->
    header H_HOST r0 = Some a -> header H_ORIGIN r0 = Some o -> sanitize_ok_pct r0 = true ->
    (req_verdict parse resolved_path conn_scheme cfg r0 = VRefuse ->
       respond parse is_part_of_origin resolved_path true SP_NONE filt conn_scheme cfg app (c, tt) now r0
       = ((c, tt), mkWire 403 [] (if rq_method r0 =? M_HEAD then [] else DENIED) []))
    /\ (req_verdict parse resolved_path conn_scheme cfg r0 <> VRefuse -> pf_shape r0 = false ->
       respond parse is_part_of_origin resolved_path true SP_NONE filt conn_scheme cfg app (c, tt) now r0
       = (fst (respond parse is_part_of_origin resolved_path true SP_NONE filt conn_scheme cfg app (c, tt) now (strip_origin r0)),
          let w := snd (respond parse is_part_of_origin resolved_path true SP_NONE filt conn_scheme cfg app (c, tt) now (strip_origin r0)) in
          mkWire (w_status w) (if cc_with_cors cfg then set_header H_ACAO o (w_headers w) else w_headers w) (w_body w) (w_log w))).
Proof. exact decision_proof. Qed.

(** the same after every history of requests (same-origin, allowed, refused, unsanitary; at any times)
    and cache clears, starting from the empty cache *)
Theorem cors_decision_histories :
  forall (parse : bytes -> option uparts) (filt : N -> bool) (conn_scheme : bytes) (cfg : ccfg) (app : app_handlers) (ops : list (cop * N)) (t0 now : N) (r0 : request) (a o : bytes),
    mem_byte c_colon conn_scheme = false -> app_external app -> app_ignores_origin app ->
    header H_HOST r0 = Some a -> header H_ORIGIN r0 = Some o -> sanitize_ok_pct r0 = true ->
    let st := run_conn_state parse is_part_of_origin resolved_path true SP_NONE filt conn_scheme cfg app ([], tt) t0 ops in
    (req_verdict parse resolved_path conn_scheme cfg r0 = VRefuse ->
       respond parse is_part_of_origin resolved_path true SP_NONE filt conn_scheme cfg app st now r0
       = (st, mkWire 403 [] (if rq_method r0 =? M_HEAD then [] else DENIED) []))
    /\ (req_verdict parse resolved_path conn_scheme cfg r0 <> VRefuse -> pf_shape r0 = false ->
       respond parse is_part_of_origin resolved_path true SP_NONE filt conn_scheme cfg app st now r0
       = (fst (respond parse is_part_of_origin resolved_path true SP_NONE filt conn_scheme cfg app st now (strip_origin r0)),
          let w := snd (respond parse is_part_of_origin resolved_path true SP_NONE filt conn_scheme cfg app st now (strip_origin r0)) in
          mkWire (w_status w) (if cc_with_cors cfg then set_header H_ACAO o (w_headers w) else w_headers w) (w_body w) (w_log w))).
Proof. exact decision_histories_proof. Qed.

(** an allowed request's response carries exactly one access-control-allow-origin and it is the origin
    bytes, whatever header of that name the handler (or the cached response) had *)
Theorem cors_acao_exact :
  forall (parse : bytes -> option uparts) (filt : N -> bool) (conn_scheme : bytes) (cfg : ccfg) (app : app_handlers) (st : state unit) (now : N) (r0 : request) (a o : bytes),
    mem_byte c_colon conn_scheme = false -> app_ignores_origin app ->
    header H_HOST r0 = Some a -> header H_ORIGIN r0 = Some o -> sanitize_ok_pct r0 = true ->
    req_verdict parse resolved_path conn_scheme cfg r0 <> VRefuse -> pf_shape r0 = false -> cc_with_cors cfg = true ->
    let w := snd (respond parse is_part_of_origin resolved_path true SP_NONE filt conn_scheme cfg app st now r0) in
    assoc H_ACAO (w_headers w) = Some o /\ count_header H_ACAO (w_headers w) = 1%nat.
Proof. exact acao_exact_proof. Qed.

(** a preflight that is not refused: 204 with exactly the rule's methods ("*" = all), headers and
    max-age (sub-second part rounded up), no handler, cache untouched — in every cache state *)
Theorem preflight_eq :
  forall (parse : bytes -> option uparts) (filt : N -> bool) (conn_scheme : bytes) (cfg : ccfg) (app : app_handlers),
    mem_byte c_colon conn_scheme = false -> app_external app ->
    forall (c : cache) (now : N) (r0 : request) (a o : bytes) (ms : option (list N)) (hs : list bytes) (t : N),
    header H_HOST r0 = Some a -> sanitize_ok_pct r0 = true -> no_internal c ->
    pf_shape r0 = true -> header H_ORIGIN r0 = Some o ->
    verdict_grant (req_verdict parse resolved_path conn_scheme cfg r0) = Some (ms, hs, t) ->
    respond parse is_part_of_origin resolved_path true SP_NONE filt conn_scheme cfg app (c, tt) now r0
    = ((c, tt), mkWire 204 (let h := [(H_ACAM, methods_bytes ms); (H_ACAH, join_comma hs); (H_ACMA, dec (max_age_secs t))] in
                            if cc_with_cors cfg then h ++ [(H_ACAO, o)] else h) [] []).
Proof. exact preflight_reply. Qed.

(** (a) no history of requests (at any times) and cache clears stores anything under an internal route;
    (b) in all such cache states a refused request and a preflight get one and the same reply and leave
    the cache as it is (the allowed case is [cors_decision]: in *every* state the reply is that of the
    request without Origin in that state, plus the header) — for every status filter *)
Theorem cors_cache_independent :
  forall (parse : bytes -> option uparts) (filt : N -> bool) (conn_scheme : bytes) (cfg : ccfg) (app : app_handlers) (r0 : request) (a : bytes),
    mem_byte c_colon conn_scheme = false -> app_external app ->
    header H_HOST r0 = Some a -> sanitize_ok_pct r0 = true ->
    (forall ops now, no_internal (fst (run_conn_state parse is_part_of_origin resolved_path true SP_NONE filt conn_scheme cfg app ([], tt) now ops)))
    /\ (req_verdict parse resolved_path conn_scheme cfg r0 = VRefuse \/ (pf_shape r0 = true) ->
        forall c1 c2 now1 now2, no_internal c1 -> no_internal c2 ->
          snd (respond parse is_part_of_origin resolved_path true SP_NONE filt conn_scheme cfg app (c1, tt) now1 r0)
          = snd (respond parse is_part_of_origin resolved_path true SP_NONE filt conn_scheme cfg app (c2, tt) now2 r0)
          /\ fst (respond parse is_part_of_origin resolved_path true SP_NONE filt conn_scheme cfg app (c1, tt) now1 r0) = (c1, tt)).
Proof. exact cache_independent_proof. Qed.

(** a request whose Origin is its own scheme://authority is served as if it had no Origin *)
Theorem same_origin_unaffected :
  forall (parse : bytes -> option uparts) (filt : N -> bool) (conn_scheme : bytes) (cfg : ccfg) (app : app_handlers) (st : state unit) (now : N) (r0 : request) (a o : bytes),
    mem_byte c_colon conn_scheme = false -> app_ignores_origin app ->
    header H_HOST r0 = Some a -> header H_ORIGIN r0 = Some o -> sanitize_ok_pct r0 = true ->
    req_verdict parse resolved_path conn_scheme cfg r0 = VSame -> pf_shape r0 = false ->
    respond parse is_part_of_origin resolved_path true SP_NONE filt conn_scheme cfg app st now r0
    = (fst (respond parse is_part_of_origin resolved_path true SP_NONE filt conn_scheme cfg app st now (strip_origin r0)),
       let w := snd (respond parse is_part_of_origin resolved_path true SP_NONE filt conn_scheme cfg app st now (strip_origin r0)) in
       mkWire (w_status w) (if cc_with_cors cfg then set_header H_ACAO o (w_headers w) else w_headers w) (w_body w) (w_log w)).
Proof. exact same_origin_proof. Qed.

(** ---- the repaired defects: the statement fails on the model of the code as it was ---- *)

(** before 8f77d7d (resolve_prime did not keep the requested URI; former known class acao_path_rewrite):
    a refused request got 403 WITH access-control-allow-origin *)
Theorem acao_path_rewrite_v0_refuted :
  exists (cfg : ccfg) (r : request),
    app_external (marker_app (cc_handlers cfg)) /\ sanitize_ok_pct r = true /\ req_verdict parse_uri resolved_path CONN_SCHEME cfg r = VRefuse /\ ~ stable cfg r /\
    snd (respond parse_uri is_part_of_origin resolved_path false SP_NONE default_filter CONN_SCHEME cfg (marker_app (cc_handlers cfg)) ([], tt) 0 r)
    = mkWire 403 [(H_ACAO, B "https://evil.example")] DENIED [].
Proof.
  exists ex_cfg, (ex_req M_GET (B "/api/") [(H_ORIGIN, B "https://evil.example")]).
  split; [|split; [vm_compute; reflexivity|exact known_class_witness]].
  apply marker_app_external. intros p sp [H|[H|[]]]; inversion H; subst; reflexivity.
Qed.

(** before c64bc9b (is_part_of_origin_v0): Origin: null, refused by the rules, ran the handler
    and got access-control-allow-origin: null *)
Theorem null_origin_v0_refuted :
  exists (cfg : ccfg) (r : request),
    app_external (marker_app (cc_handlers cfg)) /\ sanitize_ok_pct r = true /\ req_verdict parse_uri resolved_path CONN_SCHEME cfg r = VRefuse /\
    snd (respond parse_uri is_part_of_origin_v0 resolved_path true SP_NONE default_filter CONN_SCHEME cfg (marker_app (cc_handlers cfg)) ([], tt) 0 r)
    = mkWire 200 [(H_ACAO, B "null")] (B "h0:/api/x") [B "h0"].
Proof.
  exists ex_cfg, (ex_req M_GET (B "/api/x") [(H_ORIGIN, B "null")]).
  split; [|split; [vm_compute; reflexivity|exact null_origin_v0_witness]].
  apply marker_app_external. intros p sp [H|[H|[]]]; inversion H; subst; reflexivity.
Qed.

(** before 673b91a (the rule was looked up with the path as spelled only): a percent-encoded spelling of a
    file's path was judged by another rule and the file was served to an origin its own rule refuses *)
Theorem raw_path_v0_refuted :
  exists (cfg : ccfg) (st : site) (r : request) (rel : bytes),
    sanitize_ok_pct r = true /\ fs_find (st_files st) (rq_path r) = Some (rel, B "SECRET") /\
    cors_spec parse_uri (rs_get (effective_rules cfg)) (rq_method r) CONN_SCHEME (B "localhost") (c_slash :: rel) (header H_ORIGIN r) = VRefuse /\
    snd (respond parse_uri is_part_of_origin resolved_path_v0 true SP_NONE default_filter CONN_SCHEME cfg (site_app [] (Some st)) ([], tt) 0 r)
    = mkWire 200 [(H_ACAO, B "https://evil.example")] (B "SECRET") [].
Proof.
  exists ex_cfg_fs, ex_site, (ex_req M_GET (B "/%61pi/secret.json") [(H_ORIGIN, B "https://evil.example")]), (B "api/secret.json").
  split; [vm_compute; reflexivity|]. exact raw_path_v0_witness.
Qed.

(** before d00feae (the refusal had the server cache preference Full): with a status filter that caches 403
    the refusal was stored under the request's own path and served to a request without Origin *)
Theorem denied_cached_v0_refuted :
  exists (cfg : ccfg) (bad plain : request),
    header H_ORIGIN plain = None /\ sanitize_ok_pct plain = true /\
    let st := fst (respond parse_uri is_part_of_origin resolved_path true SP_FULL cache_all_filter CONN_SCHEME cfg (marker_app (cc_handlers cfg)) ([], tt) 0 bad) in
    fst st <> [] /\
    snd (respond parse_uri is_part_of_origin resolved_path true SP_FULL cache_all_filter CONN_SCHEME cfg (marker_app (cc_handlers cfg)) st 0 plain)
    = mkWire 403 [] DENIED [].
Proof.
  exists ex_cfg, (ex_req M_GET (B "/api/x") [(H_ORIGIN, B "https://evil.example")]), (ex_req M_GET (B "/api/x") []).
  split; [reflexivity|]. split; [vm_compute; reflexivity|]. exact denied_cached_v0_witness.
Qed.

(** ---- non-vacuity: concrete requests meeting the hypotheses, one per branch ---- *)
Example ex_hypotheses :
  mem_byte c_colon CONN_SCHEME = false /\ no_internal [] /\ rs_reach ex_hist (cc_rules ex_cfg)
  /\ app_external ex_app_fs /\ app_ignores_origin ex_app_fs.
Proof.
  split; [reflexivity|]. split; [intros k e []|]. split; [apply rs_build_reach|].
  split; [apply site_app_external|apply site_app_ignores_origin].
Qed.
(* refused: other host; warm cache (the same path was just served to a request without Origin) *)
Example ex_refused :
  let r := ex_req M_GET (B "/api/x") [(H_ORIGIN, B "https://evil.example")] in
  let st := fst (respond parse_uri is_part_of_origin resolved_path true SP_NONE default_filter CONN_SCHEME ex_cfg (marker_app (cc_handlers ex_cfg)) ([], tt) 0 (ex_req M_GET (B "/api/x") [])) in
  sanitize_ok_pct r = true /\ req_verdict parse_uri resolved_path CONN_SCHEME ex_cfg r = VRefuse /\ fst st <> [] /\
  snd (respond parse_uri is_part_of_origin resolved_path true SP_NONE default_filter CONN_SCHEME ex_cfg (marker_app (cc_handlers ex_cfg)) st 0 r) = mkWire 403 [] DENIED [].
Proof. cbv zeta. repeat split; try (vm_compute; reflexivity). vm_compute. discriminate. Qed.
(* allowed: listed origin, served from the warm cache (empty handler log), header added *)
Example ex_allowed :
  let r := ex_req M_GET (B "/api/x") [(H_ORIGIN, B "https://icelk.dev")] in
  let st := fst (respond parse_uri is_part_of_origin resolved_path true SP_NONE default_filter CONN_SCHEME ex_cfg (marker_app (cc_handlers ex_cfg)) ([], tt) 0 (ex_req M_GET (B "/api/x") [])) in
  sanitize_ok_pct r = true /\ pf_shape r = false /\
  req_verdict parse_uri resolved_path CONN_SCHEME ex_cfg r = VAllow (Some [M_GET; M_HEAD; M_OPTIONS], [B "content-type"], 1500) /\
  snd (respond parse_uri is_part_of_origin resolved_path true SP_NONE default_filter CONN_SCHEME ex_cfg (marker_app (cc_handlers ex_cfg)) st 0 r) = mkWire 200 [(H_ACAO, B "https://icelk.dev")] (B "h0:/api/x") [].
Proof. cbv zeta. repeat split; vm_compute; reflexivity. Qed.
(* the former known class: the path is rewritten to one with another rule, the requested path decides *)
Example ex_rewritten :
  let r := ex_req M_GET (B "/api/") [(H_ORIGIN, B "https://evil.example")] in
  sanitize_ok_pct r = true /\ ~ stable ex_cfg r /\ req_verdict parse_uri resolved_path CONN_SCHEME ex_cfg r = VRefuse /\
  snd (respond parse_uri is_part_of_origin resolved_path true SP_NONE default_filter CONN_SCHEME ex_cfg (marker_app (cc_handlers ex_cfg)) ([], tt) 0 r) = mkWire 403 [] DENIED [].
Proof. cbv zeta. split; [vm_compute; reflexivity|]. split; [unfold stable; vm_compute; discriminate|]. split; vm_compute; reflexivity. Qed.
(* files: the percent-encoded and the double-slash spelling of a file's path are judged by the file's rule too *)
Example ex_served_file :
  let r1 := ex_req M_GET (B "/%61pi/secret.json") [(H_ORIGIN, B "https://evil.example")] in
  let r2 := ex_req M_GET (B "/api//secret.json") [(H_ORIGIN, B "https://icelk.dev")] in
  fs_find (st_files ex_site) (rq_path r1) = Some (B "api/secret.json", B "SECRET") /\
  fs_find (st_files ex_site) (rq_path r2) = Some (B "api/secret.json", B "SECRET") /\
  req_verdict parse_uri resolved_path CONN_SCHEME ex_cfg_fs r1 = VRefuse /\
  snd (respond parse_uri is_part_of_origin resolved_path true SP_NONE default_filter CONN_SCHEME ex_cfg_fs ex_app_fs ([], tt) 0 r1) = mkWire 403 [] DENIED [] /\
  snd (respond parse_uri is_part_of_origin resolved_path true SP_NONE default_filter CONN_SCHEME ex_cfg_fs ex_app_fs ([], tt) 0 r2)
  = mkWire 200 [(H_ACAO, B "https://icelk.dev")] (B "SECRET") [].
Proof. cbv zeta. repeat split; vm_compute; reflexivity. Qed.
(* scheme and port matter; extension methods are methods *)
Example ex_scheme_port :
  req_verdict parse_uri resolved_path CONN_SCHEME ex_cfg (ex_req M_GET (B "/api/x") [(H_ORIGIN, B "http://icelk.dev")]) = VRefuse /\
  req_verdict parse_uri resolved_path CONN_SCHEME ex_cfg (ex_req M_GET (B "/api/x") [(H_ORIGIN, B "https://icelk.dev:8443")]) = VRefuse /\
  req_verdict parse_uri resolved_path CONN_SCHEME ex_cfg (ex_req M_POST (B "/api/x") [(H_ORIGIN, B "https://icelk.dev")]) = VRefuse /\
  req_verdict parse_uri resolved_path CONN_SCHEME ex_cfg (ex_req (M_EXT + n_of_bytes 1 (B "get")) (B "/api/x") [(H_ORIGIN, B "https://icelk.dev")]) = VRefuse /\
  req_verdict parse_uri resolved_path CONN_SCHEME ex_cfg (ex_req M_GET (B "/api/x") [(H_ORIGIN, B "https://evil@icelk.dev")]) <> VRefuse /\
  req_verdict parse_uri resolved_path CONN_SCHEME ex_cfg (ex_req M_GET (B "/api/x") [(H_ORIGIN, B "https://icelk.dev@evil.example")]) = VRefuse /\
  req_verdict parse_uri resolved_path CONN_SCHEME ex_cfg (ex_req M_GET (B "/api/x") [(H_ORIGIN, B "http://localhost")]) = VSame /\
  req_verdict parse_uri resolved_path CONN_SCHEME ex_cfg (ex_req M_GET (B "/api/x") [(H_ORIGIN, B "null")]) = VRefuse.
Proof. repeat split; try (vm_compute; reflexivity). vm_compute. discriminate. Qed.
(* preflight: max-age 1.5 s is reported as 2 *)
Example ex_preflight :
  let r := ex_req M_OPTIONS (B "/api/x") [(H_ORIGIN, B "https://icelk.dev"); (H_ACRM, B "PUT")] in
  pf_shape r = true /\
  snd (respond parse_uri is_part_of_origin resolved_path true SP_NONE default_filter CONN_SCHEME ex_cfg (marker_app (cc_handlers ex_cfg)) ([], tt) 0 r)
  = mkWire 204 [(H_ACAM, B "GET, HEAD, OPTIONS"); (H_ACAH, B "content-type"); (H_ACMA, B "2"); (H_ACAO, B "https://icelk.dev")] [] [].
Proof. cbv zeta. repeat split; vm_compute; reflexivity. Qed.
(* the refusal is not cached under a status filter that caches everything *)
Example ex_cache_all :
  let bad := ex_req M_GET (B "/api/x") [(H_ORIGIN, B "https://evil.example")] in
  fst (respond parse_uri is_part_of_origin resolved_path true SP_NONE cache_all_filter CONN_SCHEME ex_cfg (marker_app (cc_handlers ex_cfg)) ([], tt) 0 bad) = ([], tt).
Proof. vm_compute. reflexivity. Qed.
