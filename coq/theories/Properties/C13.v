(** C13 — Cross-origin requests are refused unless a rule allows origin and method.
    Only statements here; proofs are in Proofs/CorsProofs.v.

    Vocabulary (Model/Cors.v): [respond] = primes + [handle_cache] + the with_cors Package, as one
    request sees it on a connection with scheme [conn_scheme]; [cors_spec] = the property's decision
    function; [req_verdict] = [cors_spec] on a request with the rule found by [RuleSet::get];
    [stable] = the complement of the known class acao_path_rewrite (uri_redirect moves the path to
    a path with another rule); [no_internal] = the cache holds nothing under an internal route (an
    invariant of every history, [cors_cache_independent] (a)); [http::Uri::try_from] is the
    parameter [parse] (arbitrary); the application's handlers are the parameter [app] (arbitrary,
    not mounted on internal routes, not reading the Origin header). *)
From KV Require Import Bytes RuleSet RuleSetProofs Cors CorsProofs.
Open Scope N_scope.

(** the code's check ([Cors::check_cors_request]) is the decision function, for every rule lookup *)
Theorem cors_check_is_spec :
  forall (parse : bytes -> option uparts) (get : bytes -> option allow_list) (m : N) (s a p : bytes) (o : option bytes),
    mem_byte c_colon s = false ->
    check_cors_request parse is_part_of_origin get m (Some s) (Some a) p o = verdict_grant (cors_spec parse get m s a p o).
Proof. exact check_is_spec. Qed.

(** ... and the rule it uses is the most specific rule of the configuration history (last added wins),
    whatever order [sort_unstable_by] leaves the vector in *)
Theorem cors_verdict_most_specific_rule :
  forall (parse : bytes -> option uparts) (conn_scheme : bytes) (cfg : ccfg) (hist : list (bytes * allow_list)) (r : request) (a : bytes),
    rs_reach hist (cc_rules cfg) -> header H_HOST r = Some a ->
    req_verdict parse conn_scheme cfg r
    = cors_spec parse (hist_lookup cfg hist) (rq_method r) conn_scheme a (rq_path r) (header H_ORIGIN r).
Proof. exact verdict_most_specific. Qed.

(** refused => 403, no handler invoked (empty log), no header at all (so no access-control-allow-origin),
    cache untouched; allowed or same origin (not a preflight) => the reply and the new server state of
    the same request without Origin, plus access-control-allow-origin = the origin bytes (with_cors) *)
Theorem cors_decision :
  forall (parse : bytes -> option uparts) (conn_scheme : bytes) (cfg : ccfg) (app : app_handlers) (c : cache) (now : N) (r0 : request) (a o : bytes),
    mem_byte c_colon conn_scheme = false -> app_external app -> app_ignores_origin app -> no_internal c ->
    header H_HOST r0 = Some a -> header H_ORIGIN r0 = Some o -> sanitize_ok_fix r0 = true -> stable cfg r0 ->
    (req_verdict parse conn_scheme cfg r0 = VRefuse ->
       respond parse is_part_of_origin conn_scheme cfg app (c, tt) now r0
       = ((c, tt), mkWire 403 [] (if rq_method r0 =? M_HEAD then [] else DENIED) []))
    /\ (req_verdict parse conn_scheme cfg r0 <> VRefuse -> pf_shape r0 = false ->
       respond parse is_part_of_origin conn_scheme cfg app (c, tt) now r0
       = (fst (respond parse is_part_of_origin conn_scheme cfg app (c, tt) now (strip_origin r0)),
          let w := snd (respond parse is_part_of_origin conn_scheme cfg app (c, tt) now (strip_origin r0)) in
          mkWire (w_status w) (if cc_with_cors cfg then set_header H_ACAO o (w_headers w) else w_headers w) (w_body w) (w_log w))).
Proof. exact decision_proof. Qed.

(** the same after every history of requests (same-origin, allowed, refused, unsanitary; at any times)
    and cache clears, starting from the empty cache *)
Theorem cors_decision_histories :
  forall (parse : bytes -> option uparts) (conn_scheme : bytes) (cfg : ccfg) (app : app_handlers) (ops : list (cop * N)) (t0 now : N) (r0 : request) (a o : bytes),
    mem_byte c_colon conn_scheme = false -> app_external app -> app_ignores_origin app ->
    header H_HOST r0 = Some a -> header H_ORIGIN r0 = Some o -> sanitize_ok_fix r0 = true -> stable cfg r0 ->
    let st := run_conn_state parse is_part_of_origin conn_scheme cfg app ([], tt) t0 ops in
    (req_verdict parse conn_scheme cfg r0 = VRefuse ->
       respond parse is_part_of_origin conn_scheme cfg app st now r0
       = (st, mkWire 403 [] (if rq_method r0 =? M_HEAD then [] else DENIED) []))
    /\ (req_verdict parse conn_scheme cfg r0 <> VRefuse -> pf_shape r0 = false ->
       respond parse is_part_of_origin conn_scheme cfg app st now r0
       = (fst (respond parse is_part_of_origin conn_scheme cfg app st now (strip_origin r0)),
          let w := snd (respond parse is_part_of_origin conn_scheme cfg app st now (strip_origin r0)) in
          mkWire (w_status w) (if cc_with_cors cfg then set_header H_ACAO o (w_headers w) else w_headers w) (w_body w) (w_log w))).
Proof. exact decision_histories_proof. Qed.

(** a preflight that is not refused: 204 with exactly the rule's methods ("*" = all), headers and
    max-age (sub-second part rounded up), no handler, cache untouched — in every cache state *)
Theorem preflight_eq :
  forall (parse : bytes -> option uparts) (conn_scheme : bytes) (cfg : ccfg) (app : app_handlers),
    mem_byte c_colon conn_scheme = false -> app_external app ->
    forall (c : cache) (now : N) (r0 : request) (a o : bytes) (ms : option (list N)) (hs : list bytes) (t : N),
    header H_HOST r0 = Some a -> sanitize_ok_fix r0 = true -> no_internal c -> stable cfg r0 ->
    pf_shape r0 = true -> header H_ORIGIN r0 = Some o ->
    verdict_grant (req_verdict parse conn_scheme cfg r0) = Some (ms, hs, t) ->
    respond parse is_part_of_origin conn_scheme cfg app (c, tt) now r0
    = ((c, tt), mkWire 204 (let h := [(H_ACAM, methods_bytes ms); (H_ACAH, join_comma hs); (H_ACMA, dec (max_age_secs t))] in
                            if cc_with_cors cfg then h ++ [(H_ACAO, o)] else h) [] []).
Proof. exact preflight_reply. Qed.

(** (a) no history of requests (at any times) and cache clears stores anything under an internal route;
    (b) in all such cache states a refused request and a preflight get one and the same reply and leave
    the cache as it is (the allowed case is [cors_decision]: in *every* state the reply is that of the
    request without Origin in that state, plus the header) *)
Theorem cors_cache_independent :
  forall (parse : bytes -> option uparts) (conn_scheme : bytes) (cfg : ccfg) (app : app_handlers) (r0 : request) (a : bytes),
    mem_byte c_colon conn_scheme = false -> app_external app ->
    header H_HOST r0 = Some a -> sanitize_ok_fix r0 = true -> stable cfg r0 ->
    (forall ops now, no_internal (fst (run_conn_state parse is_part_of_origin conn_scheme cfg app ([], tt) now ops)))
    /\ (req_verdict parse conn_scheme cfg r0 = VRefuse \/ (pf_shape r0 = true) ->
        forall c1 c2 now1 now2, no_internal c1 -> no_internal c2 ->
          snd (respond parse is_part_of_origin conn_scheme cfg app (c1, tt) now1 r0)
          = snd (respond parse is_part_of_origin conn_scheme cfg app (c2, tt) now2 r0)
          /\ fst (respond parse is_part_of_origin conn_scheme cfg app (c1, tt) now1 r0) = (c1, tt)).
Proof. exact cache_independent_proof. Qed.

(** a request whose Origin is its own scheme://authority is served as if it had no Origin *)
Theorem same_origin_unaffected :
  forall (parse : bytes -> option uparts) (conn_scheme : bytes) (cfg : ccfg) (app : app_handlers) (st : state unit) (now : N) (r0 : request) (a o : bytes),
    mem_byte c_colon conn_scheme = false -> app_ignores_origin app ->
    header H_HOST r0 = Some a -> header H_ORIGIN r0 = Some o -> sanitize_ok_fix r0 = true -> stable cfg r0 ->
    req_verdict parse conn_scheme cfg r0 = VSame -> pf_shape r0 = false ->
    respond parse is_part_of_origin conn_scheme cfg app st now r0
    = (fst (respond parse is_part_of_origin conn_scheme cfg app st now (strip_origin r0)),
       let w := snd (respond parse is_part_of_origin conn_scheme cfg app st now (strip_origin r0)) in
       mkWire (w_status w) (if cc_with_cors cfg then set_header H_ACAO o (w_headers w) else w_headers w) (w_body w) (w_log w)).
Proof. exact same_origin_proof. Qed.

(** the known class: without [stable] the no-header clause of [cors_decision] fails *)
Theorem acao_path_rewrite_refuted :
  exists (cfg : ccfg) (r : request),
    app_external (marker_app (cc_handlers cfg)) /\ sanitize_ok_fix r = true /\ req_verdict parse_uri CONN_SCHEME cfg r = VRefuse /\ ~ stable cfg r /\
    snd (respond parse_uri is_part_of_origin CONN_SCHEME cfg (marker_app (cc_handlers cfg)) ([], tt) 0 r)
    = mkWire 403 [(H_ACAO, B "https://evil.example")] DENIED [].
Proof.
  exists ex_cfg, (ex_req M_GET (B "/api/") [(H_ORIGIN, B "https://evil.example")]).
  split; [|split; [vm_compute; reflexivity|exact known_class_witness]].
  apply marker_app_external. intros p sp [H|[H|[]]]; inversion H; subst; reflexivity.
Qed.

(** the code before the repair (is_part_of_origin_v0): Origin: null, refused by the rules, ran the handler
    and got access-control-allow-origin: null *)
Theorem null_origin_v0_refuted :
  exists (cfg : ccfg) (r : request),
    app_external (marker_app (cc_handlers cfg)) /\ sanitize_ok_fix r = true /\ req_verdict parse_uri CONN_SCHEME cfg r = VRefuse /\ stable cfg r /\
    snd (respond parse_uri is_part_of_origin_v0 CONN_SCHEME cfg (marker_app (cc_handlers cfg)) ([], tt) 0 r)
    = mkWire 200 [(H_ACAO, B "null")] (B "h0:/api/x") [B "h0"].
Proof.
  exists ex_cfg, (ex_req M_GET (B "/api/x") [(H_ORIGIN, B "null")]).
  split; [|split; [vm_compute; reflexivity|exact null_origin_v0_witness]].
  apply marker_app_external. intros p sp [H|[H|[]]]; inversion H; subst; reflexivity.
Qed.

(** ---- non-vacuity: concrete requests meeting the hypotheses, one per branch ---- *)
Example ex_hypotheses :
  mem_byte c_colon CONN_SCHEME = false /\ no_internal [] /\ rs_reach ex_hist (cc_rules ex_cfg).
Proof. split; [reflexivity|]. split; [intros k e []|apply rs_build_reach]. Qed.
(* refused: other host; warm cache (the same path was just served to a request without Origin) *)
Example ex_refused :
  let r := ex_req M_GET (B "/api/x") [(H_ORIGIN, B "https://evil.example")] in
  let st := fst (respond parse_uri is_part_of_origin CONN_SCHEME ex_cfg (marker_app (cc_handlers ex_cfg)) ([], tt) 0 (ex_req M_GET (B "/api/x") [])) in
  sanitize_ok_fix r = true /\ stable ex_cfg r /\ req_verdict parse_uri CONN_SCHEME ex_cfg r = VRefuse /\ fst st <> [] /\
  snd (respond parse_uri is_part_of_origin CONN_SCHEME ex_cfg (marker_app (cc_handlers ex_cfg)) st 0 r) = mkWire 403 [] DENIED [].
Proof. cbv zeta. repeat split; try (vm_compute; reflexivity). vm_compute. discriminate. Qed.
(* allowed: listed origin, served from the warm cache (empty handler log), header added *)
Example ex_allowed :
  let r := ex_req M_GET (B "/api/x") [(H_ORIGIN, B "https://icelk.dev")] in
  let st := fst (respond parse_uri is_part_of_origin CONN_SCHEME ex_cfg (marker_app (cc_handlers ex_cfg)) ([], tt) 0 (ex_req M_GET (B "/api/x") [])) in
  sanitize_ok_fix r = true /\ stable ex_cfg r /\ pf_shape r = false /\
  req_verdict parse_uri CONN_SCHEME ex_cfg r = VAllow (Some [M_GET; M_HEAD; M_OPTIONS], [B "content-type"], 1500) /\
  snd (respond parse_uri is_part_of_origin CONN_SCHEME ex_cfg (marker_app (cc_handlers ex_cfg)) st 0 r) = mkWire 200 [(H_ACAO, B "https://icelk.dev")] (B "h0:/api/x") [].
Proof. cbv zeta. repeat split; vm_compute; reflexivity. Qed.
(* scheme and port matter *)
Example ex_scheme_port :
  req_verdict parse_uri CONN_SCHEME ex_cfg (ex_req M_GET (B "/api/x") [(H_ORIGIN, B "http://icelk.dev")]) = VRefuse /\
  req_verdict parse_uri CONN_SCHEME ex_cfg (ex_req M_GET (B "/api/x") [(H_ORIGIN, B "https://icelk.dev:8443")]) = VRefuse /\
  req_verdict parse_uri CONN_SCHEME ex_cfg (ex_req M_POST (B "/api/x") [(H_ORIGIN, B "https://icelk.dev")]) = VRefuse /\
  req_verdict parse_uri CONN_SCHEME ex_cfg (ex_req M_GET (B "/api/x") [(H_ORIGIN, B "http://localhost")]) = VSame /\
  req_verdict parse_uri CONN_SCHEME ex_cfg (ex_req M_GET (B "/api/x") [(H_ORIGIN, B "null")]) = VRefuse.
Proof. repeat split; vm_compute; reflexivity. Qed.
(* preflight: max-age 1.5 s is reported as 2 *)
Example ex_preflight :
  let r := ex_req M_OPTIONS (B "/api/x") [(H_ORIGIN, B "https://icelk.dev"); (H_ACRM, B "PUT")] in
  pf_shape r = true /\ stable ex_cfg r /\
  snd (respond parse_uri is_part_of_origin CONN_SCHEME ex_cfg (marker_app (cc_handlers ex_cfg)) ([], tt) 0 r)
  = mkWire 204 [(H_ACAM, B "GET, HEAD, OPTIONS"); (H_ACAH, B "content-type"); (H_ACMA, B "2"); (H_ACAO, B "https://icelk.dev")] [] [].
Proof. cbv zeta. repeat split; vm_compute; reflexivity. Qed.
