(** C12 — statements only. *)
From KV Require Import Bytes RustInt Limiter LimiterProofs.
Open Scope N_scope.
