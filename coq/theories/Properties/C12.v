(** C12 — Rate limiting is per client and never stops the server.
    Only statements here; proofs are in Proofs/LimiterProofs.v.
    [decisions checked cfg t0 h]: what [LimitManager::register] (as transcribed in
    Model/Limiter.v) answers along the sequential history [h] of (address, clock reading)
    pairs, for a limiter created at clock [t0]; [checked] = overflow checks on/off.
    [fits n]: n <= (2^64-1)/3 calls — below that no usize of the code can overflow.
    [decisions_ops checked cfg t0 ops]: the same for a history [ops] of [register] calls
    interleaved with the setters ([set_max_requests], [set_check_every], [set_reset_seconds],
    [disable]) on a manager whose first configuration is [cfg] ([new], [Default], a [Host]'s field).
    [accept_loop checked sc t0 evs]: the accept loop of src/lib.rs with every counter and exit
    path it has, over the pre-host limiter / host limiter pair described by [sc]. *)
From KV Require Import Bytes RustInt Limiter LimiterProofs LimiterConc LimiterConcProofs LimiterHosts LimiterHostsProofs.
Open Scope N_scope.

(** For every sequential history and every configuration (max_requests, check_every,
    reset_seconds; disabled included) the decisions are exactly those of the reference counter. *)
Theorem register_refines_reference : forall (checked : bool) (cfg : config) (t0 : N) (h : list event),
  fits (length h) -> decisions checked cfg t0 h = map Ok (reference cfg t0 h).
Proof. exact register_refines. Qed.

(** The reference's ladder has the three zones of the property text. *)
Theorem ladder_zones : forall max n : N,
  (ladder max n = Passed <-> n <= max) /\
  (ladder max n = Send <-> max < n <= 3 * max) /\
  (ladder max n = Drop <-> 3 * max < n).
Proof. intros. split; [apply ladder_passed|split; [apply ladder_send|apply ladder_drop]]. Qed.

(** No call can panic or wrap, whatever the configuration. *)
Theorem register_never_panics : forall (checked : bool) (cfg : config) (t0 : N) (h : list event),
  fits (length h) -> Forall (fun d => exists a, d = Ok a) (decisions checked cfg t0 h).
Proof. exact register_no_panic. Qed.

(** [iteration.fetch_add(1) + 1] cannot overflow: the counter stays below [check_every]. *)
Theorem iteration_never_overflows : forall (checked : bool) (cfg : config) (t0 : N) (h : list event),
  check_every cfg <= usize_max -> iteration (state_after checked cfg t0 h) + 1 <= usize_max.
Proof. exact iteration_bounded. Qed.

(** Isolation: if the counted requests of [b] in the current window (the call at position
    [i] included) are at most the maximum, that call passes — whatever other addresses did. *)
Theorem isolation : forall (checked : bool) (cfg : config) (t0 : N) (h : list event) (i : nat) (b t : N),
  fits (length h) ->
  nth_error h i = Some (b, t) ->
  counted cfg t0 (firstn (S i) h) b <= max_requests cfg ->
  nth_error (decisions checked cfg t0 h) i = Some (Ok Passed).
Proof. exact isolation_model. Qed.

(** Counted requests of [b] are some of [b]'s own calls: an address that makes at most
    [max_requests] calls is never limited. *)
Theorem isolation_own_traffic : forall (checked : bool) (cfg : config) (t0 : N) (h : list event) (i : nat) (b t : N),
  fits (length h) ->
  nth_error h i = Some (b, t) ->
  calls_of b h <= max_requests cfg ->
  nth_error (decisions checked cfg t0 h) i = Some (Ok Passed).
Proof. exact isolation_own_traffic_model. Qed.

(** What others do never makes a verdict harsher than the ladder on the address's own calls so far. *)
Theorem others_never_hurt : forall (checked : bool) (cfg : config) (t0 : N) (h : list event) (i : nat) (b t : N),
  fits (length h) ->
  nth_error h i = Some (b, t) ->
  exists d, nth_error (decisions checked cfg t0 h) i = Some (Ok d) /\
            action_code d <= action_code (ladder (max_requests cfg) (calls_of b (firstn (S i) h))).
Proof. exact others_never_hurt_model. Qed.

(** Without resets, "counted" is: the address's calls at every [check_every]-th position. *)
Theorem counted_without_reset : forall (cfg : config) (t0 : N) (h : list event) (b : N),
  reset_after cfg = None -> check_every cfg <> usize_max ->
  counted cfg t0 h b = sampled_calls_of (check_every cfg) b 0 h.
Proof. exact counted_no_reset_model. Qed.

(** Reset: a sampled call made when the reset time has passed since the start of the window
    passes, and from then on the decisions are those of a limiter newly created at that call. *)
Theorem reset_forgets : forall (checked : bool) (cfg : config) (t0 : N) (h1 : list event) (a t : N) (h2 : list event) (R : N),
  fits (length h1) ->
  reset_after cfg = Some R -> check_every cfg <> usize_max ->
  sampled (check_every cfg) (N.of_nat (length h1)) = true ->
  R <= t - win_start (state_after checked cfg t0 h1) ->
  decisions checked cfg t0 (h1 ++ (a, t) :: h2)
  = decisions checked cfg t0 h1 ++ Ok Passed :: decisions checked cfg t h2.
Proof. exact reset_forgets_model. Qed.

(** Every call made after the reset time passes (in any state), and a sampled one leaves the state of [new]. *)
Theorem after_reset_interval : forall (checked : bool) (cfg : config) (st : lstate) (a t R : N),
  reset_after cfg = Some R -> R <= t - win_start st ->
  snd (register checked cfg st a t) = Ok Passed /\
  (check_every cfg <> usize_max -> check_every cfg <= iteration st + 1 ->
   fst (register checked cfg st a t) = init t).
Proof. exact register_after_interval. Qed.

(** ... and that sampled call is at most [check_every] calls away. *)
Theorem reset_within_check_every : forall (checked : bool) (cfg : config) (t0 : N) (h1 h2 : list event) (R : N),
  reset_after cfg = Some R -> check_every cfg <> usize_max ->
  h2 <> [] -> check_every cfg <= N.of_nat (length h2) ->
  Forall (fun e => R <= snd e - win_start (state_after checked cfg t0 h1)) h2 ->
  exists p a t s, h2 = p ++ (a, t) :: s /\
    state_after checked cfg t0 (h1 ++ p ++ [(a, t)]) = init t /\
    decisions checked cfg t0 (h1 ++ p ++ [(a, t)]) = decisions checked cfg t0 h1 ++ repeat (Ok Passed) (S (length p)) /\
    (p = [] \/ N.of_nat (length p) < check_every cfg).
Proof. exact reset_within_check_every_model. Qed.

(** A disabled limiter never limits and keeps no state. *)
Theorem disabled_never_limits : forall (checked : bool) (cfg : config) (t0 : N) (h : list event),
  decisions checked (disable cfg) t0 h = repeat (Ok Passed) (length h) /\
  state_after checked (disable cfg) t0 h = init t0.
Proof. exact disabled_never_limits_model. Qed.

(** ---- histories with configuration changes ------------------------------------------------ *)

(** For every history of calls and configuration changes, from every first configuration, the
    decisions are those of the reference counter computed from the configuration current at
    each call. *)
Theorem register_ops_refines_reference : forall (checked : bool) (cfg : config) (t0 : N) (ops : list op),
  fits (length ops) -> decisions_ops checked cfg t0 ops = map Ok (reference_ops cfg t0 ops).
Proof. exact register_ops_refines. Qed.

Theorem register_ops_never_panics : forall (checked : bool) (cfg : config) (t0 : N) (ops : list op),
  fits (length ops) -> Forall (fun d => exists a, d = Ok a) (decisions_ops checked cfg t0 ops).
Proof. exact register_ops_no_panic. Qed.

(** Without configuration changes the reference for operation histories ("at least the
    [check_every]-th call since the last sampled one") is the reference of the property text
    ("every [check_every]-th call overall"). *)
Theorem reference_ops_agrees_with_reference : forall (cfg : config) (t0 : N) (h : list event),
  fits (length h) -> reference_ops cfg t0 (map reg_of h) = reference cfg t0 h.
Proof. exact reference_ops_constant. Qed.

(** Every way to arrive at a configuration before the first call gives the same limiter:
    a manager obtained with any first configuration [c0] ([Default], a [Host]'s field, [new]
    with other values) and then changed by setters behaves as [new] with the resulting one. *)
Theorem configuration_paths_agree : forall (checked : bool) (c0 : config) (t0 : N) (pre ops : list op),
  no_reg pre = true ->
  decisions_ops checked c0 t0 (pre ++ ops) = decisions_ops checked (config_after c0 pre) t0 ops.
Proof. exact configuration_paths_agree_model. Qed.

(** ... and the three setters, in any order, establish exactly the three values; [disable] is [set_check_every(usize::MAX)]. *)
Theorem setters_establish_configuration : forall (c : config) (m k : N) (r : option N),
  let target := {| max_requests := m; check_every := k; reset_after := r |} in
  config_after c [SetMax m; SetEvery k; SetReset r] = target /\
  config_after c [SetMax m; SetReset r; SetEvery k] = target /\
  config_after c [SetEvery k; SetMax m; SetReset r] = target /\
  config_after c [SetEvery k; SetReset r; SetMax m] = target /\
  config_after c [SetReset r; SetMax m; SetEvery k] = target /\
  config_after c [SetReset r; SetEvery k; SetMax m] = target /\
  config_after c [Disable] = disable c /\
  config_after c [SetEvery usize_max] = disable c.
Proof. exact setters_establish_model. Qed.

(** Isolation: the call [Reg b t] that follows [ops1] passes when the counted requests of [b]
    in the window (this call included) are at most the maximum configured *at that moment*. *)
Theorem isolation_ops : forall (checked : bool) (cfg : config) (t0 : N) (ops1 : list op) (b t : N) (ops2 : list op),
  fits (length (ops1 ++ Reg b t :: ops2)) ->
  counted_ops cfg t0 (ops1 ++ [Reg b t]) b <= max_requests (config_after cfg ops1) ->
  nth_error (decisions_ops checked cfg t0 (ops1 ++ Reg b t :: ops2)) (length (regs ops1)) = Some (Ok Passed).
Proof. exact isolation_ops_model. Qed.

(** ... in particular when the address's own calls so far are at most the current maximum. *)
Theorem isolation_own_traffic_ops : forall (checked : bool) (cfg : config) (t0 : N) (ops1 : list op) (b t : N) (ops2 : list op),
  fits (length (ops1 ++ Reg b t :: ops2)) ->
  calls_of b (regs (ops1 ++ [Reg b t])) <= max_requests (config_after cfg ops1) ->
  nth_error (decisions_ops checked cfg t0 (ops1 ++ Reg b t :: ops2)) (length (regs ops1)) = Some (Ok Passed).
Proof. exact isolation_own_traffic_ops_model. Qed.

(** Neither other addresses nor configuration changes make a verdict harsher than the ladder of
    the current maximum on the address's own calls so far. *)
Theorem others_never_hurt_ops : forall (checked : bool) (cfg : config) (t0 : N) (ops1 : list op) (b t : N) (ops2 : list op),
  fits (length (ops1 ++ Reg b t :: ops2)) ->
  exists d, nth_error (decisions_ops checked cfg t0 (ops1 ++ Reg b t :: ops2)) (length (regs ops1)) = Some (Ok d) /\
            action_code d <= action_code (ladder (max_requests (config_after cfg ops1))
                                                 (calls_of b (regs (ops1 ++ [Reg b t])))).
Proof. exact others_never_hurt_ops_model. Qed.

(** From [disable()] until the next [set_check_every] every call passes and no counter moves. *)
Theorem disabled_ops_never_limits : forall (checked : bool) (cfg : config) (t0 : N) (ops1 ops2 : list op),
  no_set_every ops2 = true ->
  decisions_ops checked cfg t0 (ops1 ++ Disable :: ops2)
  = decisions_ops checked cfg t0 ops1 ++ repeat (Ok Passed) (length (regs ops2)) /\
  state_after_ops checked cfg t0 (ops1 ++ Disable :: ops2) = state_after_ops checked cfg t0 ops1.
Proof. exact disabled_ops_model. Qed.

(** Reset: a due call made when the current reset time has passed leaves a new limiter with the current configuration. *)
Theorem reset_forgets_ops : forall (checked : bool) (cfg : config) (t0 : N) (ops1 : list op) (a t : N) (ops2 : list op) (R : N),
  let cfg1 := config_after cfg ops1 in
  reset_after cfg1 = Some R -> check_every cfg1 <> usize_max ->
  check_every cfg1 <= iteration (state_after_ops checked cfg t0 ops1) + 1 ->
  R <= t - win_start (state_after_ops checked cfg t0 ops1) ->
  decisions_ops checked cfg t0 (ops1 ++ Reg a t :: ops2)
  = decisions_ops checked cfg t0 ops1 ++ Ok Passed :: decisions_ops checked cfg1 t ops2.
Proof. exact reset_forgets_ops_model. Qed.

(** ... and such a call comes within [check_every] (current value) calls when no setter intervenes. *)
Theorem reset_within_check_every_ops : forall (checked : bool) (cfg : config) (t0 : N) (ops1 : list op) (h2 : list event) (R : N),
  let cfg1 := config_after cfg ops1 in
  reset_after cfg1 = Some R -> check_every cfg1 <> usize_max ->
  h2 <> [] -> check_every cfg1 <= N.of_nat (length h2) ->
  Forall (fun e => R <= snd e - win_start (state_after_ops checked cfg t0 ops1)) h2 ->
  exists p a t s, h2 = p ++ (a, t) :: s /\
    state_after_ops checked cfg t0 (ops1 ++ map reg_of (p ++ [(a, t)])) = init t /\
    decisions_ops checked cfg t0 (ops1 ++ map reg_of (p ++ [(a, t)]))
    = decisions_ops checked cfg t0 ops1 ++ repeat (Ok Passed) (S (length p)) /\
    (p = [] \/ N.of_nat (length p) < check_every cfg1).
Proof. exact reset_within_check_every_ops_model. Qed.

Theorem iteration_never_overflows_ops : forall (checked : bool) (cfg : config) (t0 : N) (ops : list op),
  cfgs_ok cfg ops -> iteration (state_after_ops checked cfg t0 ops) + 1 <= usize_max.
Proof. exact iteration_ops_bounded. Qed.

(** ---- the accept loop --------------------------------------------------------------------- *)

(** Whether and how the accept loop has ended after ANY event list is [loop_spec]: a function
    of the kinds of the accept events alone (shutdown request; more than 100 accept errors in a
    row without an accepted connection).  No address, request count, limiter verdict or limiter
    configuration occurs in it; and while it runs, nobody is refused. *)
Theorem listener_status_is_loop_spec : forall (checked : bool) (sc : sconfig) (t0 : N) (evs : list conn_event),
  fits (ev_calls_bound evs) ->
  snd (accept_loop checked sc t0 evs) = loop_spec 0 evs /\
  (loop_spec 0 evs = Running -> ~ In Refused (fst (accept_loop checked sc t0 evs))).
Proof. exact listener_status_model. Qed.

(** The accept loop is alive after any event list without a shutdown request and without 101
    consecutive accept errors, and no connection was refused. *)
Theorem listener_survives : forall (checked : bool) (sc : sconfig) (t0 : N) (evs : list conn_event),
  fits (ev_calls_bound evs) -> existsb is_shutdown evs = false -> max_err_run 0 evs <= 100 ->
  snd (accept_loop checked sc t0 evs) = Running /\ ~ In Refused (fst (accept_loop checked sc t0 evs)).
Proof. exact listener_survives_model. Qed.

(** ... and these are the only ways in which it ends. *)
Theorem listener_stops_only_on_shutdown_or_errors : forall (checked : bool) (sc : sconfig) (t0 : N) (evs : list conn_event),
  fits (ev_calls_bound evs) -> snd (accept_loop checked sc t0 evs) <> Running ->
  existsb is_shutdown evs = true \/ 100 < max_err_run 0 evs.
Proof. exact listener_stops_only_model. Qed.

(** What every connection receives is decided by the reference counter(s) alone — for the
    pre-host limiter being the clone taken by [insert], a clone with other settings, or a
    separate manager. *)
Theorem server_refines_reference : forall (checked : bool) (sc : sconfig) (t0 : N) (cs : list connection),
  fits (calls_bound cs) -> accept_loop checked sc t0 (map conn_of cs) = (spec_server sc t0 cs, Running).
Proof. exact server_refines_spec_model. Qed.

(** kvarn 0.6.3 ([LimitAction::Drop => return Ok(())]) fails this: witness. *)
Theorem listener_dies_063_refuted :
  let sc := same_limiter {| max_requests := 0; check_every := 1; reset_after := Some 10000 |} in
  accept_loop_063 true sc 0 [Conn 1 0 []; Conn 2 1 [1]] = ([Served [] true; Refused], ReturnedOk) /\
  accept_loop true sc 0 [Conn 1 0 []; Conn 2 1 [1]] = ([Served [] true; Served [] true], Running).
Proof. exact listener_dies_063_witness. Qed.

(** Non-vacuity: concrete histories meeting the hypotheses. *)
Definition ex_cfg : config := {| max_requests := 1; check_every := 1; reset_after := None |}.
Definition ex_h : list event := [(1, 0); (1, 0); (1, 0); (1, 0); (1, 0); (2, 0)].
Example ex_fits : fits (length ex_h).
Proof. vm_compute. discriminate. Qed.
Example ex_decisions :
  decisions true ex_cfg 0 ex_h = [Ok Passed; Ok Send; Ok Send; Ok Drop; Ok Drop; Ok Passed].
Proof. vm_compute. reflexivity. Qed.
Example ex_isolation_hyp :
  nth_error ex_h 5 = Some (2, 0) /\ counted ex_cfg 0 (firstn 6 ex_h) 2 = 1 /\ counted ex_cfg 0 (firstn 6 ex_h) 1 = 5.
Proof. vm_compute. repeat split; reflexivity. Qed.
Example ex_own_traffic_hyp : calls_of 2 ex_h <= max_requests ex_cfg.
Proof. vm_compute. discriminate. Qed.

(** check_every = 3: only every third call is counted (positions 2, 5, 8, ...). *)
Definition ex_cfg3 : config := {| max_requests := 1; check_every := 3; reset_after := None |}.
Example ex_sampling :
  decisions true ex_cfg3 0 (repeat (7, 0) 13)
  = [Ok Passed; Ok Passed; Ok Passed; Ok Passed; Ok Passed; Ok Send; Ok Passed; Ok Passed; Ok Send;
     Ok Passed; Ok Passed; Ok Drop; Ok Passed]
  /\ counted ex_cfg3 0 (repeat (7, 0) 13) 7 = 4
  /\ sampled_calls_of 3 7 0 (repeat (7, 0) 13) = 4.
Proof. vm_compute. repeat split; reflexivity. Qed.

(** reset: window of 10 units, check_every 2; the 4th call (sampled) comes at clock 20. *)
Definition ex_cfg_r : config := {| max_requests := 0; check_every := 2; reset_after := Some 10 |}.
Definition ex_h1 : list event := [(1, 0); (1, 1); (1, 2)].
Example ex_reset_hyp :
  fits (length ex_h1) /\ sampled (check_every ex_cfg_r) (N.of_nat (length ex_h1)) = true /\
  10 <= 20 - win_start (state_after true ex_cfg_r 0 ex_h1) /\
  decisions true ex_cfg_r 0 (ex_h1 ++ (1, 20) :: [(1, 21); (1, 22); (1, 23); (1, 24)])
  = [Ok Passed; Ok Drop; Ok Passed] ++ Ok Passed :: [Ok Passed; Ok Drop; Ok Passed; Ok Drop].
Proof. vm_compute. repeat split; discriminate. Qed.
Example ex_reset_within_hyp :
  Forall (fun e => 10 <= snd e - win_start (state_after true ex_cfg_r 0 ex_h1)) [(1, 20); (2, 21)] /\
  check_every ex_cfg_r <= N.of_nat (length [(1, 20); (2, 21)]).
Proof. split; [repeat constructor; vm_compute; discriminate|vm_compute; discriminate]. Qed.

Example ex_disabled : check_every (disable ex_cfg) = usize_max /\
  decisions true (disable ex_cfg) 0 ex_h = repeat (Ok Passed) 6.
Proof. vm_compute. split; reflexivity. Qed.

(** configuration changes: the [limiter] field of a [Host] (a [Default]: 10, 10, 10 s) set to
    max 2 / every call / never reset with the setters: 429 for counted requests 3..6, dropped
    from 7; raising the maximum to 4 in the middle moves both rungs at once (8..12 are 429). *)
Definition ex_ops : list op :=
  [SetMax 2; SetEvery 1; SetReset None] ++ repeat (Reg 7 0) 8 ++ [SetMax 4] ++ repeat (Reg 7 0) 6 ++ [Reg 9 0].
Example ex_ops_decisions :
  fits (length ex_ops) /\
  decisions_ops true default_config 0 ex_ops
  = [Ok Passed; Ok Passed; Ok Send; Ok Send; Ok Send; Ok Send; Ok Drop; Ok Drop;
     Ok Send; Ok Send; Ok Send; Ok Send; Ok Drop; Ok Drop; Ok Passed] /\
  no_reg [SetMax 2; SetEvery 1; SetReset None] = true /\
  counted_ops default_config 0 ex_ops 9 = 1 /\ counted_ops default_config 0 ex_ops 7 = 14.
Proof. vm_compute. repeat split; discriminate. Qed.
Example ex_ops_own_traffic_hyp :
  let ops1 := [SetMax 2; SetEvery 1; SetReset None] ++ repeat (Reg 7 0) 8 ++ [SetMax 4] ++ repeat (Reg 7 0) 6 in
  ex_ops = ops1 ++ Reg 9 0 :: [] /\ calls_of 9 (regs (ops1 ++ [Reg 9 0])) <= max_requests (config_after default_config ops1) /\
  length (regs ops1) = 14%nat.
Proof. vm_compute. repeat split; discriminate. Qed.
(** [check_every] lowered in the middle: the call is due at once (5 calls since the last sampled one >= 3). *)
Example ex_ops_every :
  decisions_ops true {| max_requests := 0; check_every := 10; reset_after := None |} 0
    (repeat (Reg 1 0) 5 ++ [SetEvery 3; Reg 1 0; Reg 1 0; Reg 1 0; Reg 1 0; Disable; Reg 1 0; SetEvery 1; Reg 1 0])
  = [Ok Passed; Ok Passed; Ok Passed; Ok Passed; Ok Passed; Ok Drop; Ok Passed; Ok Passed; Ok Drop; Ok Passed; Ok Drop]
  /\ no_set_every [Reg 1 0] = true.
Proof. vm_compute. split; reflexivity. Qed.
Example ex_cfgs_ok : cfgs_ok default_config [SetEvery 3; Reg 1 0; Disable].
Proof. split; [vm_compute; discriminate|]. repeat constructor. vm_compute. discriminate. Qed.
Example ex_reset_ops_hyp :
  let ops1 := [Reg 1 0; Reg 1 1; SetReset (Some 5)] in
  reset_after (config_after ex_cfg ops1) = Some 5 /\
  check_every (config_after ex_cfg ops1) <= iteration (state_after_ops true ex_cfg 0 ops1) + 1 /\
  5 <= 20 - win_start (state_after_ops true ex_cfg 0 ops1) /\
  decisions_ops true ex_cfg 0 (ops1 ++ Reg 1 20 :: [Reg 1 21; Reg 1 22]) = [Ok Passed; Ok Send; Ok Passed; Ok Passed; Ok Send].
Proof. vm_compute. repeat split; discriminate. Qed.

Example ex_reset_within_ops_hyp :
  let ops1 := [Reg 1 0; Reg 1 1; SetReset (Some 5); SetEvery 2] in
  Forall (fun e => 5 <= snd e - win_start (state_after_ops true ex_cfg 0 ops1)) [(1, 20); (2, 21)] /\
  check_every (config_after ex_cfg ops1) <= N.of_nat (length [(1, 20); (2, 21)]).
Proof. split; [repeat constructor; vm_compute; discriminate|vm_compute; discriminate]. Qed.

(** accept loop: address 1 is dropped at accept (after an accept error in between);
    address 2 is then served normally. *)
Definition ex_cfg2 : config := {| max_requests := 2; check_every := 1; reset_after := None |}.
Definition ex_evs : list conn_event :=
  [Conn 1 0 [0; 0; 0; 0; 0; 0; 0]; AcceptErr; Conn 1 1 [1]; AcceptTimeout; Other true 3 1; Conn 2 2 [2]; Conn 1 3 []].
Example ex_listener_hyp :
  fits (ev_calls_bound ex_evs) /\ existsb is_shutdown ex_evs = false /\ max_err_run 0 ex_evs <= 100 /\
  accept_loop true (same_limiter ex_cfg2) 0 ex_evs
  = ([Served [Normal; TooMany; TooMany; TooMany; TooMany] true; Served [] true; Served [Normal] false; Served [] true], Running).
Proof. vm_compute. repeat split; discriminate. Qed.
(** a flood: 150 connections of address 1 dropped in a row, with 100 accept errors before and
    after; address 2 is served, the loop runs. *)
Definition ex_flood : list conn_event :=
  [Conn 1 0 [0; 0; 0; 0; 0; 0; 0]] ++ repeat AcceptErr 100 ++ repeat (Conn 1 1 [1]) 150 ++ repeat AcceptErr 100 ++ [Conn 2 2 [2]].
Example ex_flood_survives :
  max_err_run 0 ex_flood = 100 /\ loop_spec 0 ex_flood = Running /\
  snd (accept_loop true (same_limiter ex_cfg2) 0 ex_flood) = Running /\
  last (fst (accept_loop true (same_limiter ex_cfg2) 0 ex_flood)) Refused = Served [Normal] false.
Proof. vm_compute. repeat split; reflexivity. Qed.
Example ex_too_many_errors :
  snd (accept_loop true (same_limiter ex_cfg) 0 (repeat AcceptErr 101 ++ [Conn 1 0 []])) = ReturnedErr /\
  100 < max_err_run 0 (repeat AcceptErr 101 ++ [Conn 1 0 []]) /\
  snd (accept_loop true (same_limiter ex_cfg) 0 [Conn 1 0 []; Shutdown; Conn 1 0 []]) = ReturnedOk.
Proof. vm_compute. repeat split; reflexivity. Qed.
(** a separate pre-host limiter (max 0: every connection of a counted address is dropped at
    accept) in front of a generous host limiter *)
Example ex_separate_pre :
  accept_loop true {| pre_cfg := {| max_requests := 0; check_every := 2; reset_after := None |};
                      host_cfg := ex_cfg2; shared := false |} 0 [Conn 1 0 [0]; Conn 1 0 [0]; Conn 2 0 [0; 0; 0]]
  = ([Served [Normal] false; Served [] true; Served [Normal; Normal; TooMany] false], Running).
Proof. vm_compute. reflexivity. Qed.

(** ---- the server over arbitrary event lists ------------------------------------------------- *)

(** For EVERY event list — connections, failed calls of accept(), QUIC time-outs, shutdown requests,
    calls made by other tasks on the shared limiters — what each connection receives and how the
    loop ends are those of the reference server for event lists: connections are answered from the
    reference counter(s) alone until a shutdown request or the 101st consecutive accept error,
    everybody is refused afterwards. *)
Theorem server_events_refine_reference : forall (checked : bool) (sc : sconfig) (t0 : N) (evs : list conn_event),
  fits (ev_calls_bound evs) -> accept_loop checked sc t0 evs = spec_server_events sc t0 evs.
Proof. exact server_events_model. Qed.

(** The reference server for event lists ends as [loop_spec] says, and on connection lists it is [spec_server]. *)
Theorem reference_server_events_meaning : forall (sc : sconfig) (t0 : N),
  (forall evs, snd (spec_server_events sc t0 evs) = loop_spec 0 evs) /\
  (forall cs, spec_server_events sc t0 (map conn_of cs) = (spec_server sc t0 cs, Running)).
Proof. intros sc t0. split; [intros evs; apply spec_events_status|intros cs; apply spec_events_conns]. Qed.

(** 100 failed calls of accept(), a dropped connection of the flooder, 100 more, and the bystander is
    served; the 101st failure in a row ends the loop and everybody after it is refused. *)
Example ex_events :
  let sc := same_limiter ex_cfg2 in
  fits (ev_calls_bound ([Conn 1 0 [0; 0; 0; 0; 0; 0; 0]] ++ repeat AcceptErr 100 ++ [Conn 1 0 [0]] ++ repeat AcceptErr 100 ++ [Conn 2 0 [0]])) /\
  spec_server_events sc 0 ([Conn 1 0 [0; 0; 0; 0; 0; 0; 0]] ++ repeat AcceptErr 100 ++ [Conn 1 0 [0]] ++ repeat AcceptErr 100 ++ [Conn 2 0 [0]])
  = ([Served [Normal; TooMany; TooMany; TooMany; TooMany] true; Served [] true; Served [Normal] false], Running) /\
  spec_server_events sc 0 ([Conn 1 0 [0]] ++ repeat AcceptErr 101 ++ [Conn 2 0 [0]; Conn 1 0 [0]])
  = ([Served [Normal] false; Refused; Refused], ReturnedErr) /\
  spec_server_events sc 0 [Conn 1 0 [0]; Shutdown; Conn 2 0 [0]] = ([Served [Normal] false; Refused], ReturnedOk).
Proof. vm_compute. repeat split; discriminate. Qed.

(** At the server, in terms of what clients receive: whatever happened before — connections and requests
    of anybody at any level of the ladder, accept errors, calls of other tasks — as long as the listener
    has not been ended (shutdown request, 101 accept errors in a row), a client whose calls so far, this
    connection and its requests included, are at most the smaller configured maximum is accepted and
    every one of its requests is answered normally. *)
Theorem server_bystander_always_served :
  forall (checked : bool) (sc : sconfig) (t0 : N) (evs1 : list conn_event) (b t : N) (reqs : list N) (evs2 : list conn_event),
  fits (ev_calls_bound (evs1 ++ Conn b t reqs :: evs2)) ->
  loop_spec 0 evs1 = Running ->
  ev_calls_of b evs1 + 1 + N.of_nat (length reqs) <= min_max sc ->
  nth_error (fst (accept_loop checked sc t0 (evs1 ++ Conn b t reqs :: evs2))) (length (filter is_conn evs1))
  = Some (Served (repeat Normal (length reqs)) false).
Proof. exact server_bystander_model. Qed.

Example ex_bystander_hyp :
  let evs1 := [Conn 1 0 [0; 0; 0; 0; 0; 0; 0]] ++ repeat AcceptErr 100 ++ repeat (Conn 1 1 [1]) 150 in
  loop_spec 0 evs1 = Running /\ ev_calls_of 2 evs1 + 1 + N.of_nat (length [2]) <= min_max (same_limiter ex_cfg2) /\
  length (filter is_conn evs1) = 151%nat.
Proof. vm_compute. repeat split; discriminate. Qed.

(** ---- concurrent calls of register --------------------------------------------------------- *)
(** [conc_log checked cfg nsh shard t0 progs sch]: the calls that have returned (thread, address,
    verdict; newest first) after the schedule [sch] — a list of (thread, clock reading): that
    thread makes its next access to the shared counters — of threads that make the calls of
    [progs] (one list of addresses per thread) on one manager; Model/LimiterConc.v splits
    [register] into its accesses (fetch_add / store on [iteration], the two halves of the window
    start, the shard-by-shard [clear], the per-key atomic entry update).  [nsh]/[shard]: the
    shards of the map, arbitrary.  [rets b log]: calls of [b] in [log]. *)

(** Under EVERY interleaving, with any other traffic, a call of [b] is never answered more harshly
    than the ladder on the number of [b]'s own calls that have returned so far (this one
    included) — and no call panics. *)
Theorem concurrent_others_never_hurt :
  forall (checked : bool) (cfg : config) (nsh : nat) (shard : N -> nat) (t0 : N) (progs : list (list N))
         (sch : list (nat * N)) (l2 : list ret_entry) (i : nat) (b : N) (d : outcome action) (l1 : list ret_entry),
  fits (length sch) ->
  conc_log checked cfg nsh shard t0 progs sch = l2 ++ (i, b, d) :: l1 ->
  exists act, d = Ok act /\
    action_code act <= action_code (ladder (max_requests cfg) (rets b ((i, b, d) :: l1))).
Proof. exact conc_others_never_hurt. Qed.

(** An address that makes at most [max_requests] calls in all — on whatever threads — is never
    limited, whatever anybody else does concurrently. *)
Theorem concurrent_own_traffic_never_limited :
  forall (checked : bool) (cfg : config) (nsh : nat) (shard : N -> nat) (t0 : N) (progs : list (list N))
         (sch : list (nat * N)) (i : nat) (b : N) (d : outcome action),
  fits (length sch) -> count b (all_calls progs) <= max_requests cfg ->
  In (i, b, d) (conc_log checked cfg nsh shard t0 progs sch) -> d = Ok Passed.
Proof. exact conc_own_traffic. Qed.

(** With every call counted ([check_every] <= 1) and no reset: under every interleaving the k-th
    call of an address to return gets exactly [ladder max k]; when all threads are done that is
    [ladder max 1 .. ladder max (its number of calls)] — independent of the schedule. *)
Theorem concurrent_exact_ladder :
  forall (checked : bool) (cfg : config) (nsh : nat) (shard : N -> nat) (t0 : N) (progs : list (list N))
         (sch : list (nat * N)) (b : N),
  fits (length sch) -> check_every cfg <= 1 -> reset_after cfg = None ->
  verdicts_of b (conc_log checked cfg nsh shard t0 progs sch)
  = map (@Ok action) (ladder_down (max_requests cfg) (N.to_nat (rets b (conc_log checked cfg nsh shard t0 progs sch)))) /\
  (all_done (wrun checked cfg nsh shard (wstart t0 progs) sch) = true ->
   verdicts_of b (conc_log checked cfg nsh shard t0 progs sch)
   = map (@Ok action) (ladder_down (max_requests cfg) (N.to_nat (count b (all_calls progs))))).
Proof.
  intros. split; [apply conc_exact_ladder; assumption|intros; apply conc_exact_ladder_done; assumption].
Qed.

(** ... and the execution is linearisable: the verdicts, in the order in which the calls took
    effect (each inside its call), are those of the sequential reference counter. *)
Theorem concurrent_linearizable :
  forall (checked : bool) (cfg : config) (nsh : nat) (shard : N -> nat) (t0 : N) (progs : list (list N))
         (sch : list (nat * N)) (tm : ret_entry -> N),
  fits (length sch) -> check_every cfg <= 1 -> reset_after cfg = None ->
  map snd (rev (conc_log checked cfg nsh shard t0 progs sch))
  = map (@Ok action) (reference cfg t0 (map (ev_of tm) (rev (conc_log checked cfg nsh shard t0 progs sch)))).
Proof. exact conc_linearizable. Qed.

(** A disabled limiter never limits and touches no shared state under any interleaving. *)
Theorem concurrent_disabled_never_limits :
  forall (checked : bool) (cfg : config) (nsh : nat) (shard : N -> nat) (t0 : N) (progs : list (list N)) (sch : list (nat * N)),
  Forall (fun en => snd en = Ok Passed) (conc_log checked (disable cfg) nsh shard t0 progs sch) /\
  conc_shared checked (disable cfg) nsh shard t0 progs sch = cinit t0.
Proof. exact conc_disabled. Qed.

(** The small-step model run call by call on one thread is the sequential model of [register]
    (the one compared with the code call by call). *)
Theorem concurrent_model_is_sequential_on_one_thread :
  forall (checked : bool) (cfg : config) (nsh : nat) (shard : N -> nat) (t0 : N) (h : list event),
  check_every cfg <= usize_max -> (forall k, (shard k < nsh)%nat) ->
  concseq_decisions checked cfg nsh shard t0 h = decisions checked cfg t0 h.
Proof. exact concseq_is_sequential. Qed.

(** Non-vacuity: two threads on address 1 and one call of address 2, interleaved access by access. *)
Definition ex_progs : list (list N) := [[1; 1; 2]; [1; 1]].
Definition ex_sch : list (nat * N) :=
  map (fun i => (i, 0)) [0; 1; 1; 0; 0; 1; 1; 0; 0; 1; 1; 1; 1; 1; 1; 0; 0; 0; 0; 0; 0; 0; 0; 0; 0; 0]%nat.
Example ex_concurrent :
  fits (length ex_sch) /\ check_every ex_cfg <= 1 /\ reset_after ex_cfg = None /\
  conc_log true ex_cfg 4 conc_shard 0 ex_progs ex_sch
  = [(0%nat, 2, Ok Passed); (0%nat, 1, Ok Drop); (1%nat, 1, Ok Send); (1%nat, 1, Ok Send); (0%nat, 1, Ok Passed)] /\
  all_done (wrun true ex_cfg 4 conc_shard (wstart 0 ex_progs) ex_sch) = true /\
  count 2 (all_calls ex_progs) <= max_requests ex_cfg.
Proof. vm_compute. repeat split; discriminate. Qed.
(** Outside that regime ([check_every] = 2) two concurrent calls can both be sampled, which no
    sequential history allows (there exactly every second call is): the exact-ladder and
    linearisability statements need [check_every] <= 1; the bound of [concurrent_others_never_hurt] still holds. *)
Example ex_sampling_race :
  let cfg := {| max_requests := 0; check_every := 2; reset_after := None |} in
  map snd (conc_log true cfg 4 conc_shard 0 [[1]; [1]; [1]]
             (map (fun i => (i, 0)) [0; 1; 2; 1; 1; 1; 1; 2; 2; 2; 2]%nat))
  = [Ok Drop; Ok Drop; Ok Passed] /\
  reference cfg 0 [(1, 0); (1, 0); (1, 0)] = [Passed; Drop; Passed].
Proof. vm_compute. split; reflexivity. Qed.

(** ---- several hosts, unknown hosts ---------------------------------------------------------- *)
(** [maccept_loop checked mc t0 evs]: the accept loop and [handle_connection] over a collection of
    hosts — every [Host] has its own manager (own counters), the pre-host limiter shares those of
    the first host (or not: [m_base]) — for connections whose requests name a host each
    ([THost i]) or a host that does not exist ([TUnknown]: 409, the connection is closed, no
    host limiter is asked), accept errors and shutdown requests. *)
Theorem hosts_server_refines_reference : forall (checked : bool) (mc : mconfig) (t0 : N) (evs : list mevent),
  fits (mcalls_bound evs) -> maccept_loop checked mc t0 evs = spec_mserver mc t0 evs.
Proof. exact hosts_server_model. Qed.

(** A request for an unknown host asks no limiter; a request to one host leaves the counters of every
    other host (and, for a further host, those of the pre-host limiter) as they are. *)
Theorem hosts_have_their_own_counters :
  forall (checked : bool) (mc : mconfig) (p : mlims) (a t : N),
  ask checked mc p a t TUnknown = None /\
  (forall k, (length (m_extra mc) <= k)%nat -> ask checked mc p a t (THost (S k)) = None) /\
  (forall k p1 d, ask checked mc p a t (THost (S k)) = Some (p1, d) ->
     fst p1 = fst p /\ (forall j, j <> k -> nth_error (snd p1) j = nth_error (snd p) j)) /\
  (forall p1 d, ask checked mc p a t (THost O) = Some (p1, d) -> snd p1 = snd p).
Proof.
  intros. destruct (unknown_host_not_counted checked mc p a t) as [H1 H2].
  refine (conj H1 (conj H2 (conj _ _))).
  - intros k p1 d. apply hosts_have_own_counters.
  - intros p1 d. apply first_host_leaves_others.
Qed.

(** The one-host server of the theorems above is the special case: no further host, every request for the first. *)
Theorem hosts_embedding : forall (checked : bool) (sc : sconfig) (t0 : N) (cs : list connection),
  maccept_loop checked {| m_base := sc; m_extra := [] |} t0 (map m_of cs)
  = (map up (fst (accept_loop checked sc t0 (map conn_of cs))), snd (accept_loop checked sc t0 (map conn_of cs))).
Proof. exact hosts_embedding_model. Qed.

(** two hosts (max 1, counters shared with the pre-host limiter; max 2, own counters): address 1 is counted once
    at accept by host 0's counters, passes twice at host 1 and gets 429 there the third time, 429 at host 0 (its
    second counted call there), 409 for a name nobody has — and that closes the connection; address 2 likewise
    has one call left at host 0, which the accept uses. *)
Example ex_hosts :
  let mc := {| m_base := same_limiter {| max_requests := 1; check_every := 1; reset_after := None |};
               m_extra := [{| max_requests := 2; check_every := 1; reset_after := None |}] |} in
  fits (mcalls_bound [MConn 1 0 [(0, THost 1); (0, THost 1); (0, THost 1); (0, THost 0); (0, TUnknown); (0, THost 0)]; MConn 2 0 [(0, THost 0)]]) /\
  spec_mserver mc 0 [MConn 1 0 [(0, THost 1); (0, THost 1); (0, THost 1); (0, THost 0); (0, TUnknown); (0, THost 0)]; MConn 2 0 [(0, THost 0)]]
  = ([MServed [MNormal; MNormal; MTooMany; MTooMany; MConflict] true; MServed [MTooMany] false], Running).
Proof. vm_compute. split; [discriminate|reflexivity]. Qed.
