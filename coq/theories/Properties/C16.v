(** C16 — Extensions run in priority order and registry edits do what they say.
    Only statements here; proofs are in Proofs/{RustStdProofs,RegistryProofs,PresentLineProofs,RunOrderProofs}.v.

    [run_model l ops] / [run_ref l ops]: the listing after every operation of the history [ops]
    (add, add with [Id::no_override()], remove; a panic is an outcome and leaves the vector as it
    was), computed by the transcription of the macros [add_sorted_list!] / [remove_sorted_list!]
    over rustc 1.95's [binary_search_by], resp. by the reference association list.
    [desc l]: the vector is in strictly descending priority order (true of the empty vector).
    Priorities are [Z]; [i32_min] is the only place where the width of [i32] matters. *)
From KV Require Import Bytes RustStd Registry PresentLine RunOrder
     RustStdProofs RegistryProofs PresentLineProofs RunOrderProofs.
Open Scope N_scope.

(** ---- 1. rustc 1.95's [binary_search_by] ---- *)

(** It terminates within [len] iterations and never indexes outside the slice, for every slice
    and every comparator (also an inconsistent one). *)
Theorem binary_search_total : forall (T : Type) (f : T -> comparison) (l : list T),
  exists r, binary_search_by f l = Some r.
Proof. exact @binary_search_by_total. Qed.

(** On a slice sorted strictly and consistently with the comparator: [Ok i] iff element [i] is the target. *)
Theorem binary_search_ok_iff : forall (T : Type) (f : T -> comparison) (l : list T) (i : nat),
  partitioned f l ->
  (binary_search_by f l = Some (BOk i) <-> exists x, nth_error l i = Some x /\ f x = Eq).
Proof. exact @binary_search_by_ok_iff. Qed.

(** ... and [Err i] iff [i] is the insertion point, which is unique. *)
Theorem binary_search_err_iff : forall (T : Type) (f : T -> comparison) (l : list T) (i : nat),
  partitioned f l ->
  (binary_search_by f l = Some (BErr i) <-> insertion_point f l i).
Proof. exact @binary_search_by_err_iff. Qed.

Theorem binary_search_insertion_point_unique : forall (T : Type) (f : T -> comparison) (l : list T) (i j : nat),
  insertion_point f l i -> insertion_point f l j -> i = j.
Proof. exact @insertion_point_unique. Qed.

Example binary_search_nonvacuous :
  partitioned (cmp_id_probe (A := unit) 5) [(10, tt); (5, tt); (1, tt)]%Z /\
  binary_search_by (cmp_id_probe 5) [(10, tt); (5, tt); (1, tt)]%Z = Some (BOk 1%nat) /\
  binary_search_by (cmp_id_probe 4) [(10, tt); (5, tt); (1, tt)]%Z = Some (BErr 2%nat).
Proof.
  split; [|split; reflexivity].
  exists [(10, tt)]%Z, [(5, tt)]%Z, [(1, tt)]%Z. repeat split; repeat constructor.
Qed.

(** ---- 2. the registry ---- *)

(** Every history of add / add-no_override / remove operations, for all priorities, on a
    descending vector yields exactly the listings (and the panics) of the reference map. *)
Theorem registry_refines_map : forall (A : Type) (ops : list (op A)) (l : list (Z * A)),
  desc l -> run_model l ops = run_ref l ops.
Proof. exact @run_refines. Qed.

Theorem registry_refines_map_from_empty : forall (A : Type) (ops : list (op A)),
  run_model [] ops = run_ref [] ops.
Proof. intros. apply run_refines. constructor. Qed.

(** What the reference is: after every operation the listing is strictly descending (highest
    priority first, no priority twice) ... *)
Theorem reference_descending : forall (A : Type) (ops : list (op A)) (l : list (Z * A)),
  desc l -> Forall (fun r => match r with Ok l' => desc l' | _ => True end) (run_ref l ops).
Proof. exact @run_ref_desc. Qed.

(** ... [add] binds the priority to the new extension (an equal priority is replaced) and touches
    no other priority; [remove] unbinds exactly that priority. *)
Theorem reference_add_is_map_update : forall (A : Type) (l : list (Z * A)) (p : Z) (a : A) (q : Z),
  desc l -> ref_get (ref_add l p a) q = if (q =? p)%Z then Some a else ref_get l q.
Proof. exact @ref_get_add. Qed.

Theorem reference_remove_is_map_remove : forall (A : Type) (l : list (Z * A)) (p q : Z),
  ref_get (ref_remove l p) q = if (q =? p)%Z then None else ref_get l q.
Proof. exact @ref_get_remove. Qed.

(** [no_override]: the extension gets the greatest free priority at or below the requested one;
    the panic ("reached minimum priority") happens exactly when every priority from the
    requested one down to [i32::MIN] is taken. *)
Theorem no_override_takes_greatest_free : forall (A : Type) (l : list (Z * A)) (p : Z),
  desc l ->
  match ref_free_below l p with
  | Some p' => (p' <= p)%Z /\ ref_mem l p' = false /\ (forall q, (p' < q <= p)%Z -> ref_mem l q = true) /\
               ((i32_min <= p)%Z -> (i32_min <= p')%Z)
  | None => forall q, (i32_min <= q <= p)%Z -> ref_mem l q = true
  end.
Proof.
  intros A l p Hd. apply (free_below_spec l Hd (S (count_le l p))). apply Nat.lt_succ_diag_r.
Qed.

(** The whole [Extensions] value (five vectors, three hash maps), from [Extensions::empty()] and
    from [Extensions::new()]: any sequence of edits of any kind gives the reference's listings;
    an edit touches only its own list (the reference updates one component). *)
Theorem extensions_refine_reference : forall (e : extensions) (rs : list request),
  ext_desc e -> ext_run remove_sorted_list e rs = ext_run_ref e rs.
Proof. intros e rs H. apply ext_run_refines. exact H. Qed.

Theorem extensions_new_descending : ext_desc extensions_empty /\ ext_desc extensions_new.
Proof. split; [exact extensions_empty_desc|exact extensions_new_desc]. Qed.

(** The macro as it was before the repair aa785b7 ([probe.0.cmp(&id)]) is refuted: on [10,5,1], remove 10. *)
Theorem remove_sorted_list_v0_refuted :
  exists (l : list (Z * N)) (p : Z), desc l /\ remove_sorted_list_v0 l p <> Ok (ref_remove l p).
Proof. exact remove_v0_refuted. Qed.

Example registry_nonvacuous :
  run_model (A := N) [] [Registry.Add 5%Z false 1; Registry.Add 5%Z true 2; Registry.Add 5%Z false 3; Registry.Remove 4%Z;
                        Registry.Add i32_min false 4; Registry.Add i32_min true 5]
  = [Ok [(5%Z, 1)]; Ok [(5%Z, 1); (4%Z, 2)]; Ok [(5%Z, 3); (4%Z, 2)]; Ok [(5%Z, 3)]; Ok [(5%Z, 3); (i32_min, 4)]; Panic].
Proof. vm_compute. reflexivity. Qed.

(** ---- 3. the [!> ] line ---- *)

(** For arbitrary bytes: [PresentExtensions::new], [split_off(data_start)] and the complete
    iteration over names and arguments never panic; [data_start <= len], and the body handed on
    is the input from [data_start]. (Also used by C02.) *)
Theorem present_never_panics : forall data : bytes,
  exists r, present_parse data = Ok r /\
    match r with
    | Some p => (p_data_start p <= length data)%nat /\ p_body p = skipn (p_data_start p) data
    | None => True
    end.
Proof. exact present_parse_total. Qed.

(** Every line of the grammar: [!> ] then words separated by single spaces (an empty word =
    one more space, so any run of spaces; the word [&>] separates extensions, also as the last
    word), ended by LF or CRLF; words are UTF-8 without space, CR, LF.  The parser returns the
    names and arguments in order, [data_start] is the index just after the LF, the body is the rest. *)
Theorem present_line_spec : forall (ws : list bytes) (crlf : bool) (rest : bytes),
  line_words_ok ws ->
  present_parse (render_line ws crlf ++ rest)
  = Ok (Some {| p_entries := group_words None (nonempty_words ws);
                p_data_start := length (render_line ws crlf);
                p_body := rest |}).
Proof. exact present_line_grammar. Qed.

Example present_line_nonvacuous :
  line_words_ok [B "tmpl"; B "standard.html"; []; B "md.html"; B "&>"; B "allow-ips"; B "10.0.0.16"; B "&>"] /\
  render_line [B "tmpl"; B "standard.html"; []; B "md.html"; B "&>"; B "allow-ips"; B "10.0.0.16"; B "&>"] true
  = B "!> tmpl standard.html  md.html &> allow-ips 10.0.0.16 &>" ++ [13; 10] /\
  group_words None (nonempty_words [B "tmpl"; B "standard.html"; []; B "md.html"; B "&>"; B "allow-ips"; B "10.0.0.16"; B "&>"])
  = [(B "tmpl", [B "standard.html"; B "md.html"]); (B "allow-ips", [B "10.0.0.16"])].
Proof.
  split; [split; [repeat constructor|reflexivity]|split; vm_compute; reflexivity].
Qed.

(** The parser as it was before the repair e1abeb3 ([data_start = pos + 2] after a CR) and the
    argument iterator before ba40b64 ([index == back_index]) are refuted. *)
Theorem present_v0_refuted :
  present_parse_v0 (B "!> a" ++ [13; 10]) = Panic /\
  (exists p, present_parse_v0 (B "!> a" ++ [13; 10] ++ B "body") = Ok (Some p) /\ p_body p = B "ody") /\
  empty_args_next_v0 = Panic /\ empty_args_next = Ok None.
Proof. vm_compute. repeat split; try reflexivity. eexists. split; reflexivity. Qed.

(** ---- 4. run order (for arbitrary extension behaviours) ---- *)

(** Prime extensions run one after the other in list order, each exactly once; the one at
    position [length l1] sees the request as rewritten by the earlier ones (an override URI
    [/./..] does not change the request). *)
Theorem prime_sequential : forall (l1 : list (Z * prime_ext)) (i : Z) (pr : prime_ext) (l2 : list (Z * prime_ext))
                                  (st : bytes * option bytes),
  snd (resolve_prime (l1 ++ (i, pr) :: l2) st)
  = snd (resolve_prime l1 st) ++ EPrime i (fst (prime_state l1 st))
      :: snd (resolve_prime l2 (prime_apply pr (prime_state l1 st)))
  /\ length (snd (resolve_prime l1 st)) = length l1.
Proof. exact prime_sequential_model. Qed.

Theorem prime_all_once_in_order : forall (l : list (Z * prime_ext)) (st : bytes * option bytes),
  map event_prio (snd (resolve_prime l st)) = map (fun e => Some (fst e)) l.
Proof. exact prime_trace_prios. Qed.

(** A path-bound Prepare wins: no predicate is consulted, no predicate-bound extension runs. *)
Theorem prepare_single_first : forall (single : list (bytes * handler)) (fns : list (Z * ((bytes -> bool) * handler)))
                                      (st : bytes * option bytes) (h : handler),
  assoc (prepare_key st) single = Some h ->
  resolve_prepare single fns st = (Some (h (fst st)), [EPrepareSingle (prepare_key st) (fst st)]).
Proof. exact prepare_single_first_model. Qed.

(** Otherwise exactly the first predicate-bound Prepare whose predicate holds runs — later
    matching ones do not —, and none when no predicate holds. *)
Theorem first_predicate_only : forall (single : list (bytes * handler)) (l1 : list (Z * ((bytes -> bool) * handler)))
                                      (i : Z) (pred : bytes -> bool) (h : handler)
                                      (l2 : list (Z * ((bytes -> bool) * handler))) (st : bytes * option bytes),
  assoc (prepare_key st) single = None ->
  Forall (fun e => fst (snd e) (fst st) = false) l1 -> pred (fst st) = true ->
  resolve_prepare single (l1 ++ (i, (pred, h)) :: l2) st = (Some (h (fst st)), [EPrepareFn i (fst st)]).
Proof. exact first_predicate_only_model. Qed.

Theorem no_matching_prepare : forall (single : list (bytes * handler)) (fns : list (Z * ((bytes -> bool) * handler)))
                                     (st : bytes * option bytes),
  assoc (prepare_key st) single = None -> Forall (fun e => fst (snd e) (fst st) = false) fns ->
  resolve_prepare single fns st = (None, []).
Proof. exact no_prepare_model. Qed.

(** Present: for a body that starts with a line of the grammar, the extensions named on the
    line that are registered run in the order of the line with exactly their arguments (after
    the predicate-bound and the file-extension ones), and the body handed on is the rest. *)
Theorem present_line_order : forall (pfns : list (Z * (bytes -> bool))) (pfile pint : list bytes) (path : bytes)
                                    (ws : list bytes) (crlf : bool) (rest : bytes),
  line_words_ok ws ->
  resolve_present present_parse pfns pfile pint path (render_line ws crlf ++ rest) =
  Ok (rest,
      map (fun x => EPresentFn (fst x)) (filter (fun x => snd x path) pfns)
      ++ (match path_extension path with Some e => if bmem e pfile then [EPresentFile e] else [] | None => [] end)
      ++ map (fun e => EPresentInternal (fst e) (snd e))
             (filter (fun e => bmem (fst e) pint) (group_words None (nonempty_words ws)))).
Proof.
  intros. eapply present_line_order_model. apply present_line_grammar. assumption.
Qed.

(** Package and Post: every registered extension, in list order, and — the list being strictly
    descending — each exactly once. *)
Theorem package_post_once : forall (X : Type) (l : list (Z * X)),
  resolve_package l = map (fun e => EPackage (fst e)) l /\
  resolve_post l = map (fun e => EPost (fst e)) l /\
  (desc l -> NoDup (resolve_package l) /\ NoDup (resolve_post l)).
Proof. exact @package_post_once_model. Qed.

(** One request (no response cache, no file system): never a panic; the trace is Prime*,
    Prepare?, Present*, every Package, every Post — in this order. *)
Theorem serve_stages : forall (b : behaviours) (path : bytes),
  exists status body present_tr,
    serve present_parse b path =
    (Ok (status, body),
     snd (resolve_prime (b_prime b) (path, None))
     ++ snd (resolve_prepare (b_single b) (b_prepare_fn b) (prime_state (b_prime b) (path, None)))
     ++ present_tr
     ++ map (fun e => EPackage (fst e)) (b_package b)
     ++ map (fun e => EPost (fst e)) (b_post b))
    /\ Forall is_present_event present_tr.
Proof.
  intros b path. apply serve_stages_model. intros d.
  destruct (present_parse_total d) as (r & E & _). exists r. exact E.
Qed.

(** Edits, then requests: the host built by the macros answers every request with the trace
    of the host built by the reference map, whose five vectors are strictly descending — so
    "list order" above is descending priority order. *)
Theorem run_order_after_edits : forall (parse : bytes -> outcome (option parsed)) (es : list pedit) (paths : list bytes),
  run_scenario model_step parse es paths = run_scenario ref_step parse es paths /\
  pc_desc (pconfig_build ref_step es).
Proof. exact run_order_after_edits_model. Qed.

Example run_order_nonvacuous :
  let es := [ {| pe_kind := 0; pe_code := 0; pe_prio := 1; pe_key := []; pe_payload := PPrime (B "/b") (B "/c"); pe_body := [] |};
              {| pe_kind := 0; pe_code := 0; pe_prio := 9; pe_key := []; pe_payload := PPrime (B "/a") (B "/b"); pe_body := [] |};
              {| pe_kind := 5; pe_code := 0; pe_prio := 0; pe_key := B "/c"; pe_payload := PMark; pe_body := B "!> x 1 &> y" ++ [10] ++ B "B" |};
              {| pe_kind := 6; pe_code := 0; pe_prio := 0; pe_key := B "y"; pe_payload := PMark; pe_body := [] |};
              {| pe_kind := 3; pe_code := 0; pe_prio := 2; pe_key := []; pe_payload := PMark; pe_body := [] |};
              {| pe_kind := 3; pe_code := 1; pe_prio := 2; pe_key := []; pe_payload := PMark; pe_body := [] |} ] in
  scenario_model es [B "/a"] =
  [(Ok (200, B "B"), [EPrime 9 (B "/a"); EPrime 1 (B "/b"); EPrepareSingle (B "/c") (B "/c");
                      EPresentInternal (B "y") []; EPackage 2; EPackage 1])].
Proof. vm_compute. reflexivity. Qed.
