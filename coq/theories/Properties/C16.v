(** C16 — Extensions run in priority order and registry edits do what they say.
    Only statements here; proofs are in Proofs/{RustStdProofs,RegistryProofs,PresentLineProofs,RunOrderProofs}.v.

    [run_model l ops] / [run_ref l ops]: the listing after every operation of the history [ops]
    (add, add with [Id::no_override()], remove; a panic is an outcome and leaves the vector as it
    was), computed by the transcription of the macros [add_sorted_list!] / [remove_sorted_list!]
    over rustc 1.95's [binary_search_by], resp. by the reference association list.
    [desc l]: the vector is in strictly descending priority order (true of the empty vector).
    Priorities are [Z]; [i32_min] is the only place where the width of [i32] matters. *)
From KV Require Import Bytes RustStd Registry PresentLine RunOrder RunSpec
     RustStdProofs RegistryProofs PresentLineProofs RunOrderProofs RunSpecProofs.
Open Scope N_scope.

(** ---- 1. rustc 1.95's [binary_search_by] ---- *)

(** It terminates within [len] iterations and never indexes outside the slice, for every slice
    and every comparator (also an inconsistent one). *)
Theorem binary_search_total : forall (T : Type) (f : T -> comparison) (l : list T),
  exists r, binary_search_by f l = Some r.
Proof. exact @binary_search_by_total. Qed.

(** On a slice sorted strictly and consistently with the comparator: [Ok i] iff element [i] is the target. *)
Theorem binary_search_ok_iff : forall (T : Type) (f : T -> comparison) (l : list T) (i : nat),
  partitioned f l ->
  (binary_search_by f l = Some (BOk i) <-> exists x, nth_error l i = Some x /\ f x = Eq).
Proof. exact @binary_search_by_ok_iff. Qed.

(** ... and [Err i] iff [i] is the insertion point, which is unique. *)
Theorem binary_search_err_iff : forall (T : Type) (f : T -> comparison) (l : list T) (i : nat),
  partitioned f l ->
  (binary_search_by f l = Some (BErr i) <-> insertion_point f l i).
Proof. exact @binary_search_by_err_iff. Qed.

Theorem binary_search_insertion_point_unique : forall (T : Type) (f : T -> comparison) (l : list T) (i j : nat),
  insertion_point f l i -> insertion_point f l j -> i = j.
Proof. exact @insertion_point_unique. Qed.

Example binary_search_nonvacuous :
  partitioned (cmp_id_probe (A := unit) 5) [(10, tt); (5, tt); (1, tt)]%Z /\
  binary_search_by (cmp_id_probe 5) [(10, tt); (5, tt); (1, tt)]%Z = Some (BOk 1%nat) /\
  binary_search_by (cmp_id_probe 4) [(10, tt); (5, tt); (1, tt)]%Z = Some (BErr 2%nat).
Proof.
  split; [|split; reflexivity].
  exists [(10, tt)]%Z, [(5, tt)]%Z, [(1, tt)]%Z. repeat split; repeat constructor.
Qed.

(** ---- 2. the registry ---- *)

(** Every history of add / add-no_override / remove operations, for all priorities, on a
    descending vector yields exactly the listings (and the panics) of the reference map. *)
Theorem registry_refines_map : forall (A : Type) (ops : list (op A)) (l : list (Z * A)),
  desc l -> run_model l ops = run_ref l ops.
Proof. exact @run_refines. Qed.

Theorem registry_refines_map_from_empty : forall (A : Type) (ops : list (op A)),
  run_model [] ops = run_ref [] ops.
Proof. intros. apply run_refines. constructor. Qed.

(** What the reference is: after every operation the listing is strictly descending (highest
    priority first, no priority twice) ... *)
Theorem reference_descending : forall (A : Type) (ops : list (op A)) (l : list (Z * A)),
  desc l -> Forall (fun r => match r with Ok l' => desc l' | _ => True end) (run_ref l ops).
Proof. exact @run_ref_desc. Qed.

(** ... [add] binds the priority to the new extension (an equal priority is replaced) and touches
    no other priority; [remove] unbinds exactly that priority. *)
Theorem reference_add_is_map_update : forall (A : Type) (l : list (Z * A)) (p : Z) (a : A) (q : Z),
  desc l -> ref_get (ref_add l p a) q = if (q =? p)%Z then Some a else ref_get l q.
Proof. exact @ref_get_add. Qed.

Theorem reference_remove_is_map_remove : forall (A : Type) (l : list (Z * A)) (p q : Z),
  ref_get (ref_remove l p) q = if (q =? p)%Z then None else ref_get l q.
Proof. exact @ref_get_remove. Qed.

(** [no_override]: the extension gets the greatest free priority at or below the requested one;
    the panic ("reached minimum priority") happens exactly when every priority from the
    requested one down to [i32::MIN] is taken. *)
Theorem no_override_takes_greatest_free : forall (A : Type) (l : list (Z * A)) (p : Z),
  desc l ->
  match ref_free_below l p with
  | Some p' => (p' <= p)%Z /\ ref_mem l p' = false /\ (forall q, (p' < q <= p)%Z -> ref_mem l q = true) /\
               ((i32_min <= p)%Z -> (i32_min <= p')%Z)
  | None => forall q, (i32_min <= q <= p)%Z -> ref_mem l q = true
  end.
Proof.
  intros A l p Hd. apply (free_below_spec l Hd (S (count_le l p))). apply Nat.lt_succ_diag_r.
Qed.

(** The whole [Extensions] value (five vectors, three hash maps), from [Extensions::empty()] and
    from [Extensions::new()]: any sequence of edits of any kind gives the reference's listings;
    an edit touches only its own list (the reference updates one component). *)
Theorem extensions_refine_reference : forall (e : extensions) (rs : list request),
  ext_desc e -> ext_run remove_sorted_list e rs = ext_run_ref e rs.
Proof. intros e rs H. apply ext_run_refines. exact H. Qed.

Theorem extensions_new_descending : ext_desc extensions_empty /\ ext_desc extensions_new.
Proof. split; [exact extensions_empty_desc|exact extensions_new_desc]. Qed.

(** A start state read from the implementation ([Extensions::new()] as the running code lists it) is
    accepted by the model only when its vectors are strictly descending: the refinement applies to it. *)
Theorem extensions_start_state_descending : forall (x : xval) (e : extensions),
  d_extensions x = Some e -> ext_desc e.
Proof. exact d_extensions_desc. Qed.

(** The three hash maps: an insert adds exactly that key (an equal key is replaced: the value bound
    afterwards is the new one), a remove deletes exactly that key. *)
Theorem registry_key_sets : forall (k : bytes) (m : list bytes) (q : bytes),
  (In q (key_insert k m) <-> q = k \/ In q m) /\ (In q (key_remove k m) <-> q <> k /\ In q m).
Proof. intros. split; [apply key_insert_in|apply key_remove_in]. Qed.

Theorem registry_maps_are_maps : forall (X : Type) (m : list (bytes * X)) (k : bytes) (v : X) (q : bytes),
  assoc q (map_insert k v m) = (if beq k q then Some v else assoc q m) /\
  assoc q (map_remove k m) = (if beq k q then None else assoc q m).
Proof. intros. split; [apply assoc_map_insert|apply assoc_map_remove]. Qed.

(** The macro as it was before the repair aa785b7 ([probe.0.cmp(&id)]) is refuted: on [10,5,1], remove 10. *)
Theorem remove_sorted_list_v0_refuted :
  exists (l : list (Z * N)) (p : Z), desc l /\ remove_sorted_list_v0 l p <> Ok (ref_remove l p).
Proof. exact remove_v0_refuted. Qed.

Example registry_nonvacuous :
  run_model (A := N) [] [Registry.Add 5%Z false 1; Registry.Add 5%Z true 2; Registry.Add 5%Z false 3; Registry.Remove 4%Z;
                        Registry.Add i32_min false 4; Registry.Add i32_min true 5]
  = [Ok [(5%Z, 1)]; Ok [(5%Z, 1); (4%Z, 2)]; Ok [(5%Z, 3); (4%Z, 2)]; Ok [(5%Z, 3)]; Ok [(5%Z, 3); (i32_min, 4)]; Panic].
Proof. vm_compute. reflexivity. Qed.

(** ---- 3. the [!> ] line ---- *)

(** For arbitrary bytes: [PresentExtensions::new], [split_off(data_start)] and the complete
    iteration over names and arguments never panic; [data_start <= len], and the body handed on
    is the input from [data_start]. (Also used by C02.) *)
Theorem present_never_panics : forall data : bytes,
  exists r, present_parse data = Ok r /\
    match r with
    | Some p => (p_data_start p <= length data)%nat /\ p_body p = skipn (p_data_start p) data
    | None => True
    end.
Proof. exact present_parse_total. Qed.

(** Every line of the grammar: [!> ] then words separated by single spaces (an empty word =
    one more space, so any run of spaces; the word [&>] separates extensions, also as the last
    word), ended by LF or CRLF; words are UTF-8 without space, CR, LF.  The parser returns the
    names and arguments in order, [data_start] is the index just after the LF, the body is the rest. *)
Theorem present_line_spec : forall (ws : list bytes) (crlf : bool) (rest : bytes),
  line_words_ok ws ->
  present_parse (render_line ws crlf ++ rest)
  = Ok (Some {| p_entries := group_words None (nonempty_words ws);
                p_data_start := length (render_line ws crlf);
                p_body := rest |}).
Proof. exact present_line_grammar. Qed.

Example present_line_nonvacuous :
  line_words_ok [B "tmpl"; B "standard.html"; []; B "md.html"; B "&>"; B "allow-ips"; B "10.0.0.16"; B "&>"] /\
  render_line [B "tmpl"; B "standard.html"; []; B "md.html"; B "&>"; B "allow-ips"; B "10.0.0.16"; B "&>"] true
  = B "!> tmpl standard.html  md.html &> allow-ips 10.0.0.16 &>" ++ [13; 10] /\
  group_words None (nonempty_words [B "tmpl"; B "standard.html"; []; B "md.html"; B "&>"; B "allow-ips"; B "10.0.0.16"; B "&>"])
  = [(B "tmpl", [B "standard.html"; B "md.html"]); (B "allow-ips", [B "10.0.0.16"])].
Proof.
  split; [split; [repeat constructor|reflexivity]|split; vm_compute; reflexivity].
Qed.

(** The parser as it was before the repair e1abeb3 ([data_start = pos + 2] after a CR) and the
    argument iterator before ba40b64 ([index == back_index]) are refuted. *)
Theorem present_v0_refuted :
  present_parse_v0 (B "!> a" ++ [13; 10]) = Panic /\
  (exists p, present_parse_v0 (B "!> a" ++ [13; 10] ++ B "body") = Ok (Some p) /\ p_body p = B "ody") /\
  empty_args_next_v0 = Panic /\ empty_args_next = Ok None.
Proof. vm_compute. repeat split; try reflexivity. eexists. split; reflexivity. Qed.

(** [PresentArgumentsIter] is double-ended (kvarn_extensions' templates read [arguments.iter().rev()]):
    reading from the back yields the arguments of the forward reading in reverse order, ... *)
Theorem args_rev_is_reverse : forall (data : bytes) (exts : list posdata) (pa : span) (l : list bytes),
  pa_args args_end data exts pa = Ok l -> pa_args_back data exts pa = Ok (rev l).
Proof. exact args_rev_is_reverse_model. Qed.

(** ... any interleaving of [next] and [next_back] behaves as a deque on the list of arguments (in
    particular it never panics where the forward reading does not), ... *)
Theorem args_double_ended : forall (data : bytes) (exts : list posdata) (pa : span) (l : list bytes) (sched : list bool),
  pa_args args_end data exts pa = Ok l -> pa_args_drive data exts pa sched = Ok (deque_drive sched l).
Proof. exact args_double_ended_model. Qed.

(** ... which yields every argument at most once, from both ends in order, and all of them once the
    schedule is as long as the list. *)
Theorem deque_each_once : forall (sched : list bool) (l : list bytes),
  exists mid, l = fst (deque_drive sched l) ++ mid ++ rev (snd (deque_drive sched l)) /\
              (length l <= length sched -> mid = [])%nat.
Proof. exact deque_each_once_model. Qed.

(** For arbitrary bytes: reading every extension's arguments from the back never panics and gives the
    reversed lists. *)
Theorem present_rev_never_panics : forall data : bytes,
  present_parse_rev data =
  match present_parse data with
  | Ok (Some p) => Ok (Some (map (fun e => (fst e, snd e, rev (snd e))) (p_entries p)))
  | Ok None => Ok None
  | Err e => Err e
  | Panic => Panic
  end.
Proof. intros. apply (present_parse_de_char pa_args_back (@rev bytes)). intros. apply args_rev_is_reverse_model. assumption. Qed.

Theorem present_sched_never_panics : forall (sched : list bool) (data : bytes),
  present_parse_sched sched data =
  match present_parse data with
  | Ok (Some p) => Ok (Some (map (fun e => (fst e, snd e, deque_drive sched (snd e))) (p_entries p)))
  | Ok None => Ok None
  | Err e => Err e
  | Panic => Panic
  end.
Proof.
  intros. apply (present_parse_de_char (fun d e pa => pa_args_drive d e pa sched) (deque_drive sched)).
  intros. apply args_double_ended_model. assumption.
Qed.

Example args_double_ended_nonvacuous :
  present_parse_sched [true; false; false; true; true] (B "!> tmpl a b c d &> x" ++ [10])
  = Ok (Some [(B "tmpl", [B "a"; B "b"; B "c"; B "d"], ([B "a"; B "b"], [B "d"; B "c"])); (B "x", [], ([], []))]) /\
  present_parse_rev (B "!> tmpl a b c" ++ [13; 10]) = Ok (Some [(B "tmpl", [B "a"; B "b"; B "c"], [B "c"; B "b"; B "a"])]) /\
  empty_args_drive [false; true; false] = Ok ([], []).
Proof. vm_compute. repeat split; reflexivity. Qed.

(** ---- 4. run order (for arbitrary extension behaviours) ---- *)

(** Prime extensions run one after the other in list order, each exactly once; the one at
    position [length l1] sees the request as rewritten by the earlier ones (an override URI
    [/./..] does not change the request). *)
Theorem prime_sequential : forall (l1 : list (Z * prime_ext)) (i : Z) (pr : prime_ext) (l2 : list (Z * prime_ext))
                                  (st : bytes * option bytes),
  snd (resolve_prime (l1 ++ (i, pr) :: l2) st)
  = snd (resolve_prime l1 st) ++ EPrime i (fst (prime_state l1 st))
      :: snd (resolve_prime l2 (prime_apply pr (prime_state l1 st)))
  /\ length (snd (resolve_prime l1 st)) = length l1.
Proof. exact prime_sequential_model. Qed.

Theorem prime_all_once_in_order : forall (l : list (Z * prime_ext)) (st : bytes * option bytes),
  map event_prio (snd (resolve_prime l st)) = map (fun e => Some (fst e)) l.
Proof. exact prime_trace_prios. Qed.

(** A path-bound Prepare (looked up by the PATH of the override URI, else of the request URI — a
    query does not matter) wins: no predicate-bound extension runs.  For any response type [R]. *)
Theorem prepare_single_first : forall (R : Type) (single : list (bytes * (bytes -> R)))
                                      (fns : list (Z * ((bytes -> bool) * (bytes -> R))))
                                      (st : bytes * option bytes) (h : bytes -> R),
  assoc (prepare_key st) single = Some h ->
  resolve_prepare single fns st = (Some (h (fst st)), [EPrepareSingle (prepare_key st) (fst st)]).
Proof. exact @prepare_single_first_model. Qed.

(** Otherwise exactly the first predicate-bound Prepare whose predicate holds runs — later
    matching ones do not —, and none when no predicate holds. *)
Theorem first_predicate_only : forall (R : Type) (single : list (bytes * (bytes -> R)))
                                      (l1 : list (Z * ((bytes -> bool) * (bytes -> R))))
                                      (i : Z) (pred : bytes -> bool) (h : bytes -> R)
                                      (l2 : list (Z * ((bytes -> bool) * (bytes -> R)))) (st : bytes * option bytes),
  assoc (prepare_key st) single = None ->
  Forall (fun e => fst (snd e) (fst st) = false) l1 -> pred (fst st) = true ->
  resolve_prepare single (l1 ++ (i, (pred, h)) :: l2) st = (Some (h (fst st)), [EPrepareFn i (fst st)]).
Proof. exact @first_predicate_only_model. Qed.

Theorem no_matching_prepare : forall (R : Type) (single : list (bytes * (bytes -> R)))
                                     (fns : list (Z * ((bytes -> bool) * (bytes -> R))))
                                     (st : bytes * option bytes),
  assoc (prepare_key st) single = None -> Forall (fun e => fst (snd e) (fst st) = false) fns ->
  resolve_prepare single fns st = (None, []).
Proof. exact @no_prepare_model. Qed.

(** Present: for a body that starts with a line of the grammar, the extensions named on the
    line that are registered run in the order of the line with exactly their arguments (after
    the predicate-bound and the file-extension ones), and the body handed on is the rest. *)
Theorem present_line_order : forall (pfns : list (Z * (bytes -> bool))) (pfile pint : list bytes) (uri : bytes)
                                    (ws : list bytes) (crlf : bool) (rest : bytes),
  line_words_ok ws ->
  resolve_present present_parse pfns pfile pint uri (render_line ws crlf ++ rest) =
  Ok (rest,
      map (fun x => EPresentFn (fst x)) (filter (fun x => snd x uri) pfns)
      ++ (match path_extension (uri_path uri) with Some e => if bmem e pfile then [EPresentFile e] else [] | None => [] end)
      ++ map (fun e => EPresentInternal (fst e) (snd e))
             (filter (fun e => bmem (fst e) pint) (group_words None (nonempty_words ws)))).
Proof.
  intros. eapply present_line_order_model. apply present_line_grammar. assumption.
Qed.

(** Package and Post: every registered extension, in list order, and — the list being strictly
    descending — each exactly once. *)
Theorem package_post_once : forall (X : Type) (l : list (Z * X)),
  resolve_package l = map (fun e => EPackage (fst e)) l /\
  resolve_post l = map (fun e => EPost (fst e)) l /\
  (desc l -> NoDup (resolve_package l) /\ NoDup (resolve_post l)).
Proof. exact @package_post_once_model. Qed.

(** EVERY response — generated or served from the response cache, to GET, HEAD or another
    method, for a safe or an unsafe path, with or without a (satisfiable or not) range, from a
    Prepare extension, a file or an error page — is answered (never a panic) with the trace:
    every Prime, then (only when the response is generated) at most one Prepare and the Present
    extensions, then every Package, then every Post extension. *)
Theorem package_post_every_response : forall (h : hostcfg) (c : cache) (r : creq),
  exists status body prep pres,
    fst (serve present_parse h c r) =
    (Ok (status, body),
     snd (resolve_prime (b_prime (h_b h)) (q_uri r, None)) ++ prep ++ pres
     ++ map (fun e => EPackage (fst e)) (b_package (h_b h))
     ++ map (fun e => EPost (fst e)) (b_post (h_b h)))
    /\ Forall is_prepare_event prep /\ (length prep <= 1)%nat /\ Forall is_present_event pres.
Proof.
  intros h c r. apply package_post_every_response_model. intros d.
  destruct (present_parse_total d) as (x & E & _). exists x. exact E.
Qed.

(** A response served from the cache runs neither Prepare nor Present (and the cache stays as it is);
    all Prime, Package and Post extensions run all the same. *)
Theorem cache_hit_skips_prepare_present : forall (h : hostcfg) (c : cache) (r : creq) (st : bytes * option bytes) (sb : centry),
  fst (resolve_prime (b_prime (h_b h)) (q_uri r, None)) = st ->
  cache_hit h c (sanitize r) (q_method r) (key_uri st) = Some sb ->
  serve present_parse h c r =
  ((Ok (respond (q_method r) (sanitize r) 1 sb),
    snd (resolve_prime (b_prime (h_b h)) (q_uri r, None))
    ++ map (fun e => EPackage (fst e)) (b_package (h_b h)) ++ map (fun e => EPost (fst e)) (b_post (h_b h))), c).
Proof. intros h c r st sb H1 H2. apply (cache_hit_skips_model present_parse h c r st sb H1 H2). Qed.

(** Edits, then a history of requests: the host built by the macros answers every request with the
    trace of the host built by the reference map, whose five vectors are strictly descending — so
    "list order" above is descending priority order. *)
Theorem run_order_after_edits : forall (parse : bytes -> outcome (option parsed)) (es : list pedit) (o : hostopts) (rs : list creq),
  run_scenario model_step parse es o rs = run_scenario ref_step parse es o rs /\
  pc_desc (pconfig_build ref_step es).
Proof. exact run_order_after_edits_model. Qed.

(** ---- 5. the run order against the DECLARATIVE specification of Model/RunSpec.v ----
    [serve_spec line h c r out]: a predicate on the answer, the trace and the cache that reads the
    registry as maps (priority -> extension, key -> extension) and states the clauses of the
    property on the trace; it mentions neither [serve] nor the [resolve_*] drivers nor the
    order of the vectors. *)

(** What the specification says, spelled out (these equivalences pin the definitions of Model/RunSpec.v:
    a weaker definition no longer matches the statement). *)
Theorem spec_all_once_desc_is : forall (X : Type) (l : list (Z * X)) (ps : list Z),
  all_once_desc l ps <->
  (StronglySorted (fun a c => (c < a)%Z) ps /\ forall p, In p ps <-> ref_mem l p = true).
Proof. intros. apply iff_refl. Qed.

Theorem spec_stage_is : forall (X : Type) (mk : Z -> event) (l : list (Z * X)) (tr : list event),
  stage_spec mk l tr <-> exists ps, tr = map mk ps /\ all_once_desc l ps.
Proof. intros. apply iff_refl. Qed.

Theorem spec_prime_is : forall (b : behaviours) (st : bytes * option bytes) (tr : list event) (st' : bytes * option bytes),
  (prime_chain b st tr st' <->
   match tr with
   | [] => st' = st
   | e :: tr' => exists i pr, e = EPrime i (fst st) /\ ref_get (b_prime b) i = Some pr /\ prime_chain b (prime_apply pr st) tr' st'
   end) /\
  (prime_spec b st tr st' <->
   prime_chain b st tr st' /\ exists ps, map event_prio tr = map Some ps /\ all_once_desc (b_prime b) ps).
Proof.
  intros. split; [|apply iff_refl]. split.
  - intros H. inversion H; subst; [reflexivity|]. eexists. eexists. repeat split; eassumption.
  - destruct tr as [|e tr']; [intros ->; constructor|]. intros (i & pr & -> & Hg & Hc). econstructor; eassumption.
Qed.

Theorem spec_prepare_is : forall (b : behaviours) (st : bytes * option bytes) (resp : option presp) (tr : list event),
  prepare_spec b st resp tr <->
  match assoc (prepare_key st) (b_single b) with
  | Some h => resp = Some (h (fst st)) /\ tr = [EPrepareSingle (prepare_key st) (fst st)]
  | None =>
      (exists i pred h,
         ref_get (b_prepare_fn b) i = Some (pred, h) /\ pred (fst st) = true /\
         (forall j pred' h', ref_get (b_prepare_fn b) j = Some (pred', h') -> pred' (fst st) = true -> (j <= i)%Z) /\
         resp = Some (h (fst st)) /\ tr = [EPrepareFn i (fst st)])
      \/ ((forall j pred' h', ref_get (b_prepare_fn b) j = Some (pred', h') -> pred' (fst st) = false) /\
          resp = None /\ tr = [])
  end.
Proof. intros. apply iff_refl. Qed.

Theorem spec_present_is : forall (line : bytes -> option parsed) (b : behaviours) (uri body body' : bytes) (tr : list event),
  present_spec line b uri body body' tr <->
  exists ps,
    StronglySorted (fun a c => (c < a)%Z) ps /\
    (forall p, In p ps <-> exists pred, ref_get (b_present_fn b) p = Some pred /\ pred uri = true) /\
    tr = map EPresentFn ps
         ++ (match path_extension (uri_path uri) with
             | Some e => if bmem e (b_present_file b) then [EPresentFile e] else []
             | None => []
             end)
         ++ map (fun e => EPresentInternal (fst e) (snd e))
                (filter (fun e => bmem (fst e) (b_present_internal b))
                        (match line body with Some p => p_entries p | None => [] end)) /\
    body' = match line body with Some p => p_body p | None => body end.
Proof. intros. apply iff_refl. Qed.

Theorem spec_serve_is : forall (line : bytes -> option parsed) (h : hostcfg) (c : cache) (r : creq)
                               (out : (outcome (N * bytes) * list event) * cache),
  serve_spec line h c r out <->
  exists tr1 st pk po,
    prime_spec (h_b h) (q_uri r, None) tr1 st /\
    stage_spec EPackage (b_package (h_b h)) pk /\
    stage_spec EPost (b_post (h_b h)) po /\
    match cache_hit h c (sanitize r) (q_method r) (key_uri st) with
    | Some sb => out = ((Ok (respond (q_method r) (sanitize r) 1 sb), tr1 ++ pk ++ po), c)
    | None =>
        exists status body pref tr2 body' tr3,
          match sanitize r with
          | SanOk _ => exists resp, prepare_spec (h_b h) st resp tr2 /\ (status, body, pref) = response_of h (q_method r) (fst st) resp
          | SanUnsafe => (status, body, pref) = (400, [], 1) /\ tr2 = []
          | SanRange => (status, body, pref) = (416, [], 1) /\ tr2 = []
          end /\
          present_spec line (h_b h) (fst st) body body' tr3 /\
          out = ((Ok (respond (q_method r) (sanitize r) pref (status, body')), tr1 ++ tr2 ++ tr3 ++ pk ++ po),
                 cache_store h c (q_method r) (key_uri st) pref status body')
    end.
Proof. intros. apply iff_refl. Qed.

(** The model satisfies it on every host whose vectors are strictly descending, for every cache
    state and every request; [parsed_line] is what [PresentExtensions::new] and its iterators
    return ([present_line_spec]: on a line of the grammar, the names and arguments in order). *)
Theorem run_order_meets_spec : forall (h : hostcfg) (c : cache) (r : creq),
  host_desc (h_b h) -> serve_spec parsed_line h c r (serve present_parse h c r).
Proof. intros. apply serve_meets_spec_gen; [exact parse_is_parsed_line|assumption]. Qed.

(** The specification is not loose: it determines the answer, the trace and the next cache. *)
Theorem run_order_spec_determines : forall (line : bytes -> option parsed) (h : hostcfg) (c : cache) (r : creq)
                                           (o1 o2 : (outcome (N * bytes) * list event) * cache),
  serve_spec line h c r o1 -> serve_spec line h c r o2 -> o1 = o2.
Proof. exact serve_spec_unique. Qed.

(** Whole histories on the host built by the real macros' model (binary search included) from
    any sequence of edits: every answer of the history meets the specification, the cache threaded
    through — so every Package and Post runs once per RESPONSE, not once per cache entry. *)
Theorem run_order_history_meets_spec : forall (es : list pedit) (o : hostopts) (rs : list creq),
  history_spec parsed_line (host_of (pconfig_build model_step es) o) [] rs (snd (scenario_model es o rs)).
Proof.
  intros es o rs. unfold scenario_model, run_scenario. cbn [snd].
  apply history_meets_spec_gen; [exact parse_is_parsed_line|].
  unfold pconfig_build. destruct (pconfig_build_refines_from (number 0 es) pconfig_empty pconfig_empty_desc) as [E Hd].
  rewrite E. apply behaviours_of_desc. exact Hd.
Qed.

(** The executable specification the implementation is compared with on every run (reference map +
    token-level reading of the line) meets the declarative one too, with [spec_present] as the reading. *)
Theorem run_order_executable_spec_meets_spec : forall (es : list pedit) (o : hostopts) (rs : list creq),
  history_spec spec_present (host_of (pconfig_build ref_step es) o) [] rs (snd (scenario_spec es o rs)).
Proof.
  intros es o rs. unfold scenario_spec, run_scenario. cbn [snd].
  apply history_meets_spec_gen; [reflexivity|].
  unfold pconfig_build. destruct (pconfig_build_refines_from (number 0 es) pconfig_empty pconfig_empty_desc) as [_ Hd].
  apply behaviours_of_desc. exact Hd.
Qed.

Theorem run_order_history_spec_determines : forall (line : bytes -> option parsed) (h : hostcfg) (rs : list creq) (c : cache)
                                                   (l1 l2 : list (outcome (N * bytes) * list event)),
  history_spec line h c rs l1 -> history_spec line h c rs l2 -> l1 = l2.
Proof. intros line h. exact (history_spec_unique line h). Qed.

(** the reading of the line used by the specification, on the grammar of the property *)
Theorem parsed_line_on_grammar : forall (ws : list bytes) (crlf : bool) (rest : bytes),
  line_words_ok ws ->
  parsed_line (render_line ws crlf ++ rest)
  = Some {| p_entries := group_words None (nonempty_words ws);
            p_data_start := length (render_line ws crlf);
            p_body := rest |}.
Proof. intros. unfold parsed_line. rewrite present_line_grammar by assumption. reflexivity. Qed.

Definition nv_edit k c p key pl body pref :=
  {| pe_kind := k; pe_code := c; pe_prio := p; pe_key := key; pe_payload := pl; pe_body := body; pe_pref := pref |}.
Example run_order_nonvacuous :
  let es := [ nv_edit 0 0 1 [] (PPrime (B "/b") (B "/c")) [] 0;
              nv_edit 0 0 9 [] (PPrime (B "/a") (B "/b")) [] 0;
              nv_edit 5 0 0 (B "/c") PMark (B "!> x 1 &> y 2 3" ++ [10] ++ B "BODY") 1;
              nv_edit 6 0 0 (B "y") PMark [] 0;
              nv_edit 5 0 0 (B "/s") PMark (B "!> y" ++ [10] ++ B "S") 3;
              nv_edit 3 0 2 [] PMark [] 0;
              nv_edit 3 1 2 [] PMark [] 0;
              nv_edit 4 0 7 [] PMark [] 0 ] in
  let o := {| o_cache := true; o_files := None |} in
  let get u := {| q_method := 0; q_uri := u; q_range := None |} in
  snd (scenario_model es o [get (B "/a?q=1"); get (B "/c"); {| q_method := 1; q_uri := B "/c"; q_range := None |};
                            {| q_method := 0; q_uri := B "/c"; q_range := Some (1, 2) |}; get (B "/a/../c");
                            {| q_method := 0; q_uri := B "/s"; q_range := Some (1, 2) |}; {| q_method := 1; q_uri := B "/s"; q_range := None |}]) =
  [ (* generated: Prime 9 rewrites /a?q=1 to /b, Prime 1 sees /b and rewrites to /c; path-bound Prepare; Present y; cached under /c *)
    (Ok (200, B "BODY"), [EPrime 9 (B "/a?q=1"); EPrime 1 (B "/b"); EPrepareSingle (B "/c") (B "/c");
                          EPresentInternal (B "y") [B "2"; B "3"]; EPackage 2; EPackage 1; EPost 7]);
    (* served from the cache: no Prepare, no Present; every Package and Post *)
    (Ok (200, B "BODY"), [EPrime 9 (B "/c"); EPrime 1 (B "/c"); EPackage 2; EPackage 1; EPost 7]);
    (Ok (200, []), [EPrime 9 (B "/c"); EPrime 1 (B "/c"); EPackage 2; EPackage 1; EPost 7]);
    (Ok (206, B "OD"), [EPrime 9 (B "/c"); EPrime 1 (B "/c"); EPackage 2; EPackage 1; EPost 7]);
    (* unsafe path: no Prepare; Package and Post all the same *)
    (Ok (400, []), [EPrime 9 (B "/a/../c"); EPrime 1 (B "/a/../c"); EPackage 2; EPackage 1; EPost 7]);
    (* a streamed answer (future): Present on the body before the stream, no range, never cached *)
    (Ok (200, B "S+streamed"), [EPrime 9 (B "/s"); EPrime 1 (B "/s"); EPrepareSingle (B "/s") (B "/s"); EPresentInternal (B "y") [];
                                EPackage 2; EPackage 1; EPost 7]);
    (Ok (200, []), [EPrime 9 (B "/s"); EPrime 1 (B "/s"); EPrepareSingle (B "/s") (B "/s"); EPresentInternal (B "y") [];
                    EPackage 2; EPackage 1; EPost 7]) ]
  /\ host_desc (behaviours_of (pconfig_build model_step es)).
Proof.
  intros es o get. split; [vm_compute; reflexivity|].
  unfold pconfig_build. destruct (pconfig_build_refines_from (number 0 es) pconfig_empty pconfig_empty_desc) as [E Hd].
  rewrite E. apply behaviours_of_desc. exact Hd.
Qed.
