(** C16 — stub, filled in later. *)
From KV Require Import Bytes RustStd Registry PresentLine.
