(** C18 — Buffer and stream helpers return exactly the bytes produced.
    Only statements here; proofs are in Proofs/BuffersProofs.v.
    [grow] (allocation policy, only assumed to hand out at least what is asked: [grow_ok])
    and [junk] (contents of uninitialised memory) are universally quantified everywhere. *)
From KV Require Import Bytes RustInt Buffers BuffersProofs BuffersHttp1Link.
Open Scope N_scope.

(** WriteableBytes: for every constructor (new / with_capacity c / From<BytesMut> with any
    contents and spare capacity) and every sequence of writes, [into_inner] holds the initial
    contents followed by the concatenation of the writes; no panic, no [set_len] past the capacity. *)
Theorem writeable_is_append : forall grow junk (c : wctor) (writes : list bytes),
  grow_ok grow -> wb_session grow junk c writes = Ok (wctor_init c ++ concat writes).
Proof. exact wb_session_spec. Qed.

(** ... and the same for an arbitrary well-formed [BytesMut] handed to [From]. *)
Theorem writeable_from_any_buffer : forall grow junk (b : buf) (writes : list bytes),
  grow_ok grow -> wf b ->
  exists w w' b', wb_from b = Ok w /\ wb_writes grow junk w writes = Ok w' /\ wb_into_inner w' = Ok b' /\
                  wf b' /\ contents b' = contents b ++ concat writes.
Proof. exact wb_from_session_spec. Qed.

(** ... and the counts [write] returns add up to the number of bytes handed in (what
    [write_all], [io::copy] and the encoders rely on). *)
Theorem writeable_counts : forall grow junk (c : wctor) (writes : list bytes),
  grow_ok grow -> wb_session_n grow junk c writes = Ok (wctor_init c ++ concat writes, length (concat writes)).
Proof. exact wb_session_n_spec. Qed.

(** BytesCow::replace on an in-bounds range is the splice, for every body, spare capacity,
    replacement and both arithmetic modes. *)
Theorem replace_is_splice : forall grow junk (checked : bool) (b : buf) (s e : N) (rep : bytes),
  grow_ok grow -> wf b -> fits b rep -> s <= e -> e <= N.of_nat (b_len b) ->
  exists b', cow_replace grow junk checked b s e rep = Ok b' /\ wf b' /\
             contents b' = splice (N.to_nat s) (N.to_nat e) rep (contents b).
Proof. exact replace_in_bounds. Qed.

(** The exact panic condition: the end of the range lies beyond the body (whatever the start). *)
Theorem replace_panics_iff : forall grow junk (checked : bool) (b : buf) (s e : N) (rep : bytes),
  grow_ok grow -> wf b -> fits b rep ->
  (cow_replace grow junk checked b s e rep = Panic <-> N.of_nat (b_len b) < e).
Proof. exact replace_panics_iff_lemma. Qed.

(** Complete behaviour, reversed ranges included (they act as the empty range at [end]). *)
Theorem replace_complete : forall grow junk (checked : bool) (b : buf) (s e : N) (rep : bytes),
  grow_ok grow -> wf b -> fits b rep ->
  if e <=? N.of_nat (b_len b) then
    exists b', cow_replace grow junk checked b s e rep = Ok b' /\ wf b' /\
               contents b' = splice (N.to_nat (N.min s e)) (N.to_nat e) rep (contents b)
  else cow_replace grow junk checked b s e rep = Panic.
Proof. exact replace_total. Qed.

(** The same on the [BytesCow] itself, in both representations ([Ref]: the slice is copied
    into an exact-size [BytesMut] first; [Mut]: edited in place), the result being [Mut]. *)
Theorem replace_both_representations : forall grow junk (checked : bool) (c : cow) (s e : N) (rep : bytes),
  grow_ok grow -> cow_wf c -> fits_bytes (cow_bytes c) rep ->
  if e <=? N.of_nat (length (cow_bytes c)) then
    exists c', cow_replace_c grow junk checked c s e rep = Ok c' /\ cow_wf c' /\
               cow_bytes c' = splice (N.to_nat (N.min s e)) (N.to_nat e) rep (cow_bytes c)
  else cow_replace_c grow junk checked c s e rep = Panic.
Proof. exact cow_replace_c_total. Qed.

(** A chain of edits on the same [BytesCow] (one Present extension after the other) is the
    chain of splices; it panics exactly when one of the splices is out of bounds. *)
Theorem replace_chain_is_splice_chain : forall grow junk (checked : bool) (es : list edit) (c : cow),
  grow_ok grow -> cow_wf c -> fits_edits (cow_bytes c) es ->
  match splice_edits (cow_bytes c) es with
  | Ok d => exists c', cow_edits grow junk checked c es = Ok c' /\ cow_wf c' /\ cow_bytes c' = d
  | Panic => cow_edits grow junk checked c es = Panic
  | Err _ => False
  end.
Proof. exact cow_edits_spec. Qed.

(** read_to_end_or_max (repaired code), for every initial buffer, every stream and every
    chunking: the buffer afterwards is its old contents followed by a prefix [taken] of the
    stream, the reader keeps the rest, and either everything was taken or the buffer is at
    least [max] long. *)
Theorem read_all_or_prefix : forall grow junk (b : buf) (chunks : list bytes) (max : N),
  grow_ok grow -> wf b ->
  exists b' rest taken,
    read_to_end_or_max grow junk false b (data_stream chunks) max = RDone b' rest /\
    contents b' = contents b ++ taken /\
    concat chunks = taken ++ fst (pre_fail rest) /\
    (taken = concat chunks \/ max <= N.of_nat (length (contents b'))).
Proof. exact read_data_stream. Qed.

(** The same with readers that may fail: see [read_spec] in Model/Buffers.v
    ([Err e] = first failure of the stream, buffer = old contents + every byte before it). *)
Theorem read_with_failures : forall grow junk (b : buf) (cs : stream) (max : N),
  grow_ok grow -> wf b ->
  read_spec (contents b) cs max (read_to_end_or_max grow junk false b cs max).
Proof. exact read_to_end_or_max_spec. Qed.

(** The helper at the level of polls: the reader may answer [Pending] any number of times, and
    the caller may drop the future at any of them ([patience = Some k]: at the [(k+1)]-th;
    a timeout).  See [poll_spec]: a dropped future leaves the buffer well formed, holding its
    old contents followed by exactly the bytes delivered up to that point -- nothing else --
    and the reader keeps everything behind that point; every other answer obeys [read_spec]. *)
Theorem read_cancel_safe : forall grow junk (b : buf) (cs : stream) (max : N) (patience : option nat),
  grow_ok grow -> wf b ->
  poll_spec (contents b) cs max patience (read_poll grow junk false true b cs max patience).
Proof. exact read_poll_spec. Qed.

(** A caller that awaits to the end is never told "cancelled", and for it the drop guard is invisible. *)
Theorem read_awaited : forall grow junk (legacy : bool) (b : buf) (cs : stream) (max : N),
  (forall guard b' rest, read_poll grow junk legacy guard b cs max None <> RCancelled b' rest) /\
  read_poll grow junk legacy false b cs max None = read_poll grow junk legacy true b cs max None.
Proof. exact read_awaited_lemma. Qed.

(** The code before the drop guard: every cancellation leaves the buffer's length at its capacity,
    and behind the bytes delivered so far the caller sees at least one byte that nobody wrote. *)
Theorem unguarded_cancel_shows_junk : forall grow junk (b : buf) (cs : stream) (max : N) (patience : option nat) b' rest,
  grow_ok grow -> wf b ->
  read_poll grow junk false false b cs max patience = RCancelled b' rest ->
  exists k pre, patience = Some k /\ before_stall k cs = Some (pre, rest) /\
    b_len b' = capacity b' /\
    firstn (length (contents b) + length pre) (contents b') = contents b ++ pre /\
    (length (contents b) + length pre < length (contents b'))%nat.
Proof. exact BuffersProofs.unguarded_cancel_shows_junk. Qed.

Theorem unguarded_cancel_refuted :
  exists b cs max k, wf b /\
    ~ poll_spec (contents b) cs max (Some k) (read_poll grow_vec (junk_of []) false false b cs max (Some k)).
Proof. exact BuffersProofs.unguarded_cancel_refuted. Qed.

(** [read_to_end_or_max] is transcribed a second time in Model/Http1Read.v ([rtem_reserve], [rtem_loop]:
    the buffer as (bytes, capacity), the reader as a byte string with a delivery schedule behind [Take]),
    where C02/C07/C20 use it.  The two transcriptions are the same function: the inner [reserve] picks
    the same capacity, ... *)
Theorem read_reserve_transcriptions_agree : forall growH growB junk (read : nat) (b : buf),
  grows_agree growH growB -> grow_ok growB -> b_len b = capacity b -> (read <= capacity b)%nat ->
  exists b2, rtm_reserve growB junk read b = Ok b2 /\
             capacity b2 = Http1Read.rtem_reserve growH read (capacity b) /\
             b_len b2 = capacity b2 /\ (read + 32 <= capacity b2)%nat /\
             firstn (capacity b) (b_data b2) = b_data b.
Proof. exact rtem_reserve_is_rtm_reserve. Qed.

(** ... the loops give the same answer from corresponding states, whatever the fuel, the reader's
    data, its schedule (every burst delivers something) and the way it ends (closes / stalls until
    the caller's timeout / fails), ... *)
Theorem read_loop_transcriptions_agree : forall growH growB junk mode (max : nat),
  grows_agree growH growB -> grow_ok growB ->
  forall fuel buf cap tl d sched b cs,
  Http1Read.sched_pos sched ->
  b_len b = capacity b -> capacity b = cap -> firstn (length buf) (b_data b) = buf -> (length buf < cap)%nat ->
  translates cs mode d sched tl ->
  same_answer (Http1Read.rtem_loop growH fuel mode max buf cap tl (Http1Read.mk_reader d sched))
              (rtm_loop growB junk true fuel (N.of_nat max) (length buf) b cs (Some 0%nat)).
Proof. exact loops_in_lockstep. Qed.

(** ... and what [Http1Body::read_to_bytes] does with the helper -- [with_capacity(len)], the bytes read
    with the head copied in, [read_to_end_or_max(.., take(left), len)] under a timeout -- is [read_poll]
    on the translated reader with a caller that drops the future at the first [Pending]. *)
Theorem read_to_bytes_uses_read_poll : forall growH growB junk mode early cl limit d sched,
  grows_agree growH growB -> grow_ok growB -> Http1Read.sched_pos sched ->
  let len := N.to_nat (N.min cl limit) in
  let buf := firstn len early in
  (length buf < len)%nat ->
  same_answer (Http1Read.read_to_bytes growH mode early cl limit (Http1Read.mk_reader d sched))
              (read_poll growB junk false true (bm_of junk buf (len - length buf))
                 (strm mode d sched (len - length buf)) (N.of_nat len) (Some 0%nat)).
Proof. exact read_to_bytes_is_read_poll. Qed.

(** kvarn::read::file: the whole file for every chunking; [None] exactly when a read fails. *)
Theorem read_file_whole : forall grow junk (chunks : list bytes),
  grow_ok grow -> N.of_nat (length (concat chunks)) < u64_max ->
  read_file grow junk (data_stream chunks) = Ok (concat chunks).
Proof. exact read_file_chunking. Qed.

Theorem read_file_complete : forall grow junk (cs : stream),
  grow_ok grow -> N.of_nat (stream_len cs) < u64_max ->
  read_file grow junk cs =
  match snd (pre_fail cs) with None => Ok (fst (pre_fail cs)) | Some _ => Err 0 end.
Proof. exact read_file_spec. Qed.

(** [file] / [file_cached] / [file_cached_with_mtime] over any history of file changes and reads
    through one [FileCache] or past it: reading through [read_to_end_or_max] into a [BytesMut]
    answers exactly as reading the files' contents directly would ... *)
Theorem files_transparent : forall grow junk now (ops : list fop),
  grow_ok grow -> Forall op_small ops ->
  files_run (fs_read grow junk) now [] [] ops = files_run fs_content now [] [] ops.
Proof. exact files_transparent_lemma. Qed.

(** ... and every answer is what the file held (bytes and modification time) at some moment of the
    history up to the read -- at the moment of the read itself when no cache is passed. *)
Theorem files_answers_are_file_contents : forall grow junk now (ops : list fop) (rs : list fres),
  grow_ok grow -> Forall op_small ops ->
  files_run (fs_read grow junk) now [] [] ops = Ok rs -> answers_ok [] [] ops rs.
Proof. exact files_history_spec. Qed.

(** One call: a cached entry answers whatever the file holds now; a miss of the caching variants
    answers with the file as it is now and caches exactly that ([None] exactly when it could not be read). *)
Theorem file_cached_hit : forall reader now v fs p c opt,
  alookup p c = Some opt ->
  fc_read reader now v fs p (Some c) =
  Ok (match opt with
      | None => None
      | Some (m, d) => Some (d, match v with VCachedMtime => Some m | _ => None end)
      end, Some c).
Proof. exact fc_read_hit. Qed.

Theorem file_cached_miss : forall now v fs p c,
  alookup p c = None -> v <> VFile ->
  exists m0,
  fc_read fs_content now v fs p (Some c) =
  Ok (match content_of fs p with
      | None => (None, Some ((p, None) :: c))
      | Some d => (Some (d, match v with VCachedMtime => Some m0 | _ => None end), Some ((p, Some (m0, d)) :: c))
      end) /\ (forall d, content_of fs p = Some d -> fs_stat fs p = Some m0).
Proof. exact fc_read_miss. Qed.

(** None of the results depends on uninitialised memory: neither on fresh allocations
    ([j1] vs [j2]) nor on what lies behind the length of the buffers handed in
    ([b1] vs [b2] with equal visible contents) -- for the stream helper also when the reader
    pends and when the caller drops the future. *)
Theorem no_junk : forall grow j1 j2, grow_ok grow ->
  (forall c writes, wb_session grow j1 c writes = wb_session grow j2 c writes) /\
  (forall checked b1 b2 s e rep, wf b1 -> wf b2 -> fits b1 rep -> contents b1 = contents b2 ->
     match cow_replace grow j1 checked b1 s e rep, cow_replace grow j2 checked b2 s e rep with
     | Ok r1, Ok r2 => contents r1 = contents r2
     | Panic, Panic => True
     | _, _ => False
     end) /\
  (forall b1 b2 cs max patience, wf b1 -> wf b2 -> contents b1 = contents b2 -> capacity b1 = capacity b2 ->
     same_obs (read_poll grow j1 false true b1 cs max patience) (read_poll grow j2 false true b2 cs max patience)) /\
  (forall cs, N.of_nat (stream_len cs) < u64_max -> read_file grow j1 cs = read_file grow j2 cs).
Proof. exact no_junk_lemma. Qed.

(** The code before the repair ([reserve(0, buffer)]): correct when the buffer has spare room
    or is shorter than 32 bytes, wrong on a full buffer (nothing is read). *)
Theorem legacy_read_ok_with_room : forall grow junk (b : buf) (cs : stream) (max : N),
  grow_ok grow -> wf b -> (b_len b < capacity b \/ capacity b < 32)%nat ->
  read_spec (contents b) cs max (read_to_end_or_max grow junk true b cs max).
Proof. exact legacy_spec_when_room. Qed.

Theorem legacy_read_refuted :
  exists b cs max, wf b /\
    ~ read_spec (contents b) cs max (read_to_end_or_max grow_vec (junk_of []) true b cs max).
Proof. exact legacy_refuted. Qed.

(** Non-vacuity: concrete instances meeting the hypotheses. *)
Example grow_vec_meets_hypothesis : grow_ok grow_vec.
Proof. exact grow_vec_ok. Qed.

Example writeable_ex :
  wb_session grow_vec (junk_of (B "JUNK")) (WCap 3) [B "ab"; B "cde"; []; B "f"] = Ok (B "abcdef").
Proof. vm_compute. reflexivity. Qed.
Example writeable_ex_from :
  wb_session grow_vec (junk_of (B "JUNK")) (WFrom (B "init") 1) [B "xy"] = Ok (B "initxy").
Proof. vm_compute. reflexivity. Qed.

Example replace_ex_grow :
  option_map contents
    (match cow_replace grow_vec (junk_of (B "JUNK")) true (bm_of (junk_of (B "JUNK")) (B "0123456") 0) 2 4 (B "XXXXX")
     with Ok b => Some b | _ => None end) = Some (B "01XXXXX456").
Proof. vm_compute. reflexivity. Qed.
Example replace_ex_shrink :
  option_map contents
    (match cow_replace grow_vec (junk_of (B "JUNK")) false (bm_of (junk_of (B "JUNK")) (B "0123456") 3) 1 6 (B "-")
     with Ok b => Some b | _ => None end) = Some (B "0-6").
Proof. vm_compute. reflexivity. Qed.
Example replace_ex_fits : wf (bm_of (junk_of []) (B "0123456") 0) /\ fits (bm_of (junk_of []) (B "0123456") 0) (B "XXXXX").
Proof. split; [apply bm_of_wf|]. vm_compute. discriminate. Qed.
Example replace_ex_panic :
  cow_replace grow_vec (junk_of []) true (bm_of (junk_of []) (B "0123456") 0) 5 8 (B "XX") = Panic.
Proof. vm_compute. reflexivity. Qed.
Example replace_ex_reversed :
  option_map contents
    (match cow_replace grow_vec (junk_of []) true (bm_of (junk_of []) (B "0123456") 0) 5 2 (B "XX")
     with Ok b => Some b | _ => None end) = Some (B "01XX23456").
Proof. vm_compute. reflexivity. Qed.

Example read_ex_whole :
  match read_to_end_or_max grow_vec (junk_of (B "JUNK")) false (bm_of (junk_of (B "JUNK")) (B "in") 0)
          (data_stream [B "abc"; []; B "de"]) 1000 with
  | RDone b rest => (contents b, fst (pre_fail rest)) = (B "inabcde", [])
  | _ => False
  end.
Proof. vm_compute. reflexivity. Qed.
Example read_ex_max :
  match read_to_end_or_max grow_vec (junk_of (B "JUNK")) false (bm_of (junk_of (B "JUNK")) [] 2)
          (data_stream [B "abc"; B "de"]) 4 with
  | RDone b rest => (contents b, fst (pre_fail rest)) = (B "abcde", [])
  | _ => False
  end.
Proof. vm_compute. reflexivity. Qed.
Example read_ex_failure :
  match read_to_end_or_max grow_vec (junk_of []) false (bm_of (junk_of []) (B "in") 0)
          [Data (B "abc"); Fail 5; Data (B "de")] 1000 with
  | RIoErr e b rest => (e, contents b) = (5, B "inabc")
  | _ => False
  end.
Proof. vm_compute. reflexivity. Qed.
(** the input on which the unrepaired code failed: a full 32-byte buffer *)
Example read_ex_full_buffer :
  match read_to_end_or_max grow_vec (junk_of []) false (bm_of (junk_of []) (repeat 65 32) 0) [Data [66]] 100 with
  | RDone b rest => contents b = repeat 65 32 ++ [66] /\ fst (pre_fail rest) = []
  | _ => False
  end.
Proof. vm_compute. split; reflexivity. Qed.
Example read_file_ex : read_file grow_vec (junk_of []) (data_stream [B "hel"; B "lo"]) = Ok (B "hello").
Proof. vm_compute. reflexivity. Qed.

Example vec_growth_policies_agree : grows_agree Http1Read.vec_grow grow_vec.
Proof. exact vec_grows_agree. Qed.
Example read_to_bytes_link_ex :
  same_answer (Http1Read.read_to_bytes Http1Read.vec_grow 1 (B "he") 9 100 (Http1Read.mk_reader (B "llo") [2%nat; 1%nat]))
              (read_poll grow_vec (junk_of []) false true (bm_of (junk_of []) (B "he") 7)
                 (strm 1 (B "llo") [2%nat; 1%nat] 7) 9 (Some 0%nat))
  /\ Http1Read.read_to_bytes Http1Read.vec_grow 1 (B "he") 9 100 (Http1Read.mk_reader (B "llo") [2%nat; 1%nat]) = Err Http1Read.E_TIMEDOUT.
Proof. vm_compute. auto. Qed.

Example writeable_counts_ex :
  wb_session_n grow_vec (junk_of (B "JUNK")) (WCap 3) [B "ab"; B "cde"; []; B "f"] = Ok (B "abcdef", 6%nat).
Proof. vm_compute. reflexivity. Qed.
Example replace_ex_ref :
  option_map cow_bytes
    (match cow_replace_c grow_vec (junk_of (B "JUNK")) true (CRef (B "0123456")) 2 4 (B "XXXXX")
     with Ok c => Some c | _ => None end) = Some (B "01XXXXX456").
Proof. vm_compute. reflexivity. Qed.
Example replace_chain_ex :
  option_map cow_bytes
    (match cow_edits grow_vec (junk_of (B "JUNK")) true (CRef (B "0123456")) [(2, 4, B "XXXXX"); (0, 1, []); (9, 9, B "!")]
     with Ok c => Some c | _ => None end) = Some (B "1XXXXX456!")
  /\ cow_wf (CRef (B "0123456")) /\ fits_edits (B "0123456") [(2, 4, B "XXXXX"); (0, 1, []); (9, 9, B "!")].
Proof. split; [vm_compute; reflexivity|]. split; [exact I|]. vm_compute. repeat split; intros; discriminate. Qed.
(** a reader that pends twice and a caller that waits: everything arrives *)
Example read_ex_pending :
  match read_poll grow_vec (junk_of (B "JUNK")) false true (bm_of (junk_of (B "JUNK")) (B "in") 0)
          [Data (B "abc"); Pend; Pend; Data (B "de")] 1000 None with
  | RDone b rest => (contents b, fst (pre_fail rest)) = (B "inabcde", [])
  | _ => False
  end.
Proof. vm_compute. reflexivity. Qed.
(** a caller whose patience ends at the second Pending: the buffer holds what was delivered, nothing else *)
Example read_ex_cancelled :
  match read_poll grow_vec (junk_of (B "JUNK")) false true (bm_of (junk_of (B "JUNK")) (B "in") 0)
          [Data (B "abc"); Pend; Data (B "d"); Pend; Data (B "e")] 1000 (Some 1%nat) with
  | RCancelled b rest => (contents b, rest) = (B "inabcd", [Data (B "e")])
  | _ => False
  end.
Proof. vm_compute. reflexivity. Qed.
(** the same input on the code before the drop guard: 1026 bytes are visible, 1020 of them were never written *)
Example read_ex_cancelled_unguarded :
  match read_poll grow_vec (junk_of (B "JUNK")) false false (bm_of (junk_of (B "JUNK")) (B "in") 0)
          [Data (B "abc"); Pend; Data (B "d"); Pend; Data (B "e")] 1000 (Some 1%nat) with
  | RCancelled b rest => (length (contents b), firstn 8 (contents b)) = (1026%nat, B "inabcd" ++ B "NN")
  | _ => False
  end.
Proof. vm_compute. reflexivity. Qed.
Example files_ex :
  files_run (fs_read grow_vec (junk_of [])) 0 [] []
    [FWrite 1 [Data (B "one")] 10; FRead VCachedMtime 1 true; FWrite 1 [Data (B "two")] 20; FRead VCached 1 true;
     FRead VCachedMtime 1 false; FRead VFile 2 true; FWrite 3 [Fail 21] 5; FRead VCached 3 true]
  = Ok [Some (B "one", Some 10); Some (B "one", None); Some (B "two", Some 20); None; None].
Proof. vm_compute. reflexivity. Qed.
Example files_ex_small :
  Forall op_small [FWrite 1 [Data (B "one")] 10; FRead VCachedMtime 1 true; FWrite 3 [Fail 21] 5; FRead VCached 3 true].
Proof. repeat constructor; vm_compute; reflexivity. Qed.
