(** C18 — Buffer and stream helpers return exactly the bytes produced.
    Only statements here; proofs are in Proofs/BuffersProofs.v.
    [grow] (allocation policy, only assumed to hand out at least what is asked: [grow_ok])
    and [junk] (contents of uninitialised memory) are universally quantified everywhere. *)
From KV Require Import Bytes RustInt Buffers BuffersProofs.
Open Scope N_scope.

(** WriteableBytes: for every constructor (new / with_capacity c / From<BytesMut> with any
    contents and spare capacity) and every sequence of writes, [into_inner] holds the initial
    contents followed by the concatenation of the writes; no panic, no [set_len] past the capacity. *)
Theorem writeable_is_append : forall grow junk (c : wctor) (writes : list bytes),
  grow_ok grow -> wb_session grow junk c writes = Ok (wctor_init c ++ concat writes).
Proof. exact wb_session_spec. Qed.

(** ... and the same for an arbitrary well-formed [BytesMut] handed to [From]. *)
Theorem writeable_from_any_buffer : forall grow junk (b : buf) (writes : list bytes),
  grow_ok grow -> wf b ->
  exists w w' b', wb_from b = Ok w /\ wb_writes grow junk w writes = Ok w' /\ wb_into_inner w' = Ok b' /\
                  wf b' /\ contents b' = contents b ++ concat writes.
Proof. exact wb_from_session_spec. Qed.

(** BytesCow::replace on an in-bounds range is the splice, for every body, spare capacity,
    replacement and both arithmetic modes. *)
Theorem replace_is_splice : forall grow junk (checked : bool) (b : buf) (s e : N) (rep : bytes),
  grow_ok grow -> wf b -> fits b rep -> s <= e -> e <= N.of_nat (b_len b) ->
  exists b', cow_replace grow junk checked b s e rep = Ok b' /\ wf b' /\
             contents b' = splice (N.to_nat s) (N.to_nat e) rep (contents b).
Proof. exact replace_in_bounds. Qed.

(** The exact panic condition: the end of the range lies beyond the body (whatever the start). *)
Theorem replace_panics_iff : forall grow junk (checked : bool) (b : buf) (s e : N) (rep : bytes),
  grow_ok grow -> wf b -> fits b rep ->
  (cow_replace grow junk checked b s e rep = Panic <-> N.of_nat (b_len b) < e).
Proof. exact replace_panics_iff_lemma. Qed.

(** Complete behaviour, reversed ranges included (they act as the empty range at [end]). *)
Theorem replace_complete : forall grow junk (checked : bool) (b : buf) (s e : N) (rep : bytes),
  grow_ok grow -> wf b -> fits b rep ->
  if e <=? N.of_nat (b_len b) then
    exists b', cow_replace grow junk checked b s e rep = Ok b' /\ wf b' /\
               contents b' = splice (N.to_nat (N.min s e)) (N.to_nat e) rep (contents b)
  else cow_replace grow junk checked b s e rep = Panic.
Proof. exact replace_total. Qed.

(** read_to_end_or_max (repaired code), for every initial buffer, every stream and every
    chunking: the buffer afterwards is its old contents followed by a prefix [taken] of the
    stream, the reader keeps the rest, and either everything was taken or the buffer is at
    least [max] long. *)
Theorem read_all_or_prefix : forall grow junk (b : buf) (chunks : list bytes) (max : N),
  grow_ok grow -> wf b ->
  exists b' rest taken,
    read_to_end_or_max grow junk false b (data_stream chunks) max = RDone b' rest /\
    contents b' = contents b ++ taken /\
    concat chunks = taken ++ fst (pre_fail rest) /\
    (taken = concat chunks \/ max <= N.of_nat (length (contents b'))).
Proof. exact read_data_stream. Qed.

(** The same with readers that may fail: see [read_spec] in Model/Buffers.v
    ([Err e] = first failure of the stream, buffer = old contents + every byte before it). *)
Theorem read_with_failures : forall grow junk (b : buf) (cs : stream) (max : N),
  grow_ok grow -> wf b ->
  read_spec (contents b) cs max (read_to_end_or_max grow junk false b cs max).
Proof. exact read_to_end_or_max_spec. Qed.

(** kvarn::read::file: the whole file for every chunking; [None] exactly when a read fails. *)
Theorem read_file_whole : forall grow junk (chunks : list bytes),
  grow_ok grow -> N.of_nat (length (concat chunks)) < u64_max ->
  read_file grow junk (data_stream chunks) = Ok (concat chunks).
Proof. exact read_file_chunking. Qed.

Theorem read_file_complete : forall grow junk (cs : stream),
  grow_ok grow -> N.of_nat (stream_len cs) < u64_max ->
  read_file grow junk cs =
  match snd (pre_fail cs) with None => Ok (fst (pre_fail cs)) | Some _ => Err 0 end.
Proof. exact read_file_spec. Qed.

(** None of the results depends on uninitialised memory: neither on fresh allocations
    ([j1] vs [j2]) nor on what lies behind the length of the buffers handed in
    ([b1] vs [b2] with equal visible contents). *)
Theorem no_junk : forall grow j1 j2, grow_ok grow ->
  (forall c writes, wb_session grow j1 c writes = wb_session grow j2 c writes) /\
  (forall checked b1 b2 s e rep, wf b1 -> wf b2 -> fits b1 rep -> contents b1 = contents b2 ->
     match cow_replace grow j1 checked b1 s e rep, cow_replace grow j2 checked b2 s e rep with
     | Ok r1, Ok r2 => contents r1 = contents r2
     | Panic, Panic => True
     | _, _ => False
     end) /\
  (forall b1 b2 cs max, wf b1 -> wf b2 -> contents b1 = contents b2 -> capacity b1 = capacity b2 ->
     same_obs (read_to_end_or_max grow j1 false b1 cs max) (read_to_end_or_max grow j2 false b2 cs max)) /\
  (forall cs, N.of_nat (stream_len cs) < u64_max -> read_file grow j1 cs = read_file grow j2 cs).
Proof. exact no_junk_lemma. Qed.

(** The code before the repair ([reserve(0, buffer)]): correct when the buffer has spare room
    or is shorter than 32 bytes, wrong on a full buffer (nothing is read). *)
Theorem legacy_read_ok_with_room : forall grow junk (b : buf) (cs : stream) (max : N),
  grow_ok grow -> wf b -> (b_len b < capacity b \/ capacity b < 32)%nat ->
  read_spec (contents b) cs max (read_to_end_or_max grow junk true b cs max).
Proof. exact legacy_spec_when_room. Qed.

Theorem legacy_read_refuted :
  exists b cs max, wf b /\
    ~ read_spec (contents b) cs max (read_to_end_or_max grow_vec (junk_of []) true b cs max).
Proof. exact legacy_refuted. Qed.

(** Non-vacuity: concrete instances meeting the hypotheses. *)
Example grow_vec_meets_hypothesis : grow_ok grow_vec.
Proof. exact grow_vec_ok. Qed.

Example writeable_ex :
  wb_session grow_vec (junk_of (B "JUNK")) (WCap 3) [B "ab"; B "cde"; []; B "f"] = Ok (B "abcdef").
Proof. vm_compute. reflexivity. Qed.
Example writeable_ex_from :
  wb_session grow_vec (junk_of (B "JUNK")) (WFrom (B "init") 1) [B "xy"] = Ok (B "initxy").
Proof. vm_compute. reflexivity. Qed.

Example replace_ex_grow :
  option_map contents
    (match cow_replace grow_vec (junk_of (B "JUNK")) true (bm_of (junk_of (B "JUNK")) (B "0123456") 0) 2 4 (B "XXXXX")
     with Ok b => Some b | _ => None end) = Some (B "01XXXXX456").
Proof. vm_compute. reflexivity. Qed.
Example replace_ex_shrink :
  option_map contents
    (match cow_replace grow_vec (junk_of (B "JUNK")) false (bm_of (junk_of (B "JUNK")) (B "0123456") 3) 1 6 (B "-")
     with Ok b => Some b | _ => None end) = Some (B "0-6").
Proof. vm_compute. reflexivity. Qed.
Example replace_ex_fits : wf (bm_of (junk_of []) (B "0123456") 0) /\ fits (bm_of (junk_of []) (B "0123456") 0) (B "XXXXX").
Proof. split; [apply bm_of_wf|]. vm_compute. discriminate. Qed.
Example replace_ex_panic :
  cow_replace grow_vec (junk_of []) true (bm_of (junk_of []) (B "0123456") 0) 5 8 (B "XX") = Panic.
Proof. vm_compute. reflexivity. Qed.
Example replace_ex_reversed :
  option_map contents
    (match cow_replace grow_vec (junk_of []) true (bm_of (junk_of []) (B "0123456") 0) 5 2 (B "XX")
     with Ok b => Some b | _ => None end) = Some (B "01XX23456").
Proof. vm_compute. reflexivity. Qed.

Example read_ex_whole :
  match read_to_end_or_max grow_vec (junk_of (B "JUNK")) false (bm_of (junk_of (B "JUNK")) (B "in") 0)
          (data_stream [B "abc"; []; B "de"]) 1000 with
  | RDone b rest => (contents b, fst (pre_fail rest)) = (B "inabcde", [])
  | _ => False
  end.
Proof. vm_compute. reflexivity. Qed.
Example read_ex_max :
  match read_to_end_or_max grow_vec (junk_of (B "JUNK")) false (bm_of (junk_of (B "JUNK")) [] 2)
          (data_stream [B "abc"; B "de"]) 4 with
  | RDone b rest => (contents b, fst (pre_fail rest)) = (B "abcde", [])
  | _ => False
  end.
Proof. vm_compute. reflexivity. Qed.
Example read_ex_failure :
  match read_to_end_or_max grow_vec (junk_of []) false (bm_of (junk_of []) (B "in") 0)
          [Data (B "abc"); Fail 5; Data (B "de")] 1000 with
  | RIoErr e b rest => (e, contents b) = (5, B "inabc")
  | _ => False
  end.
Proof. vm_compute. reflexivity. Qed.
(** the input on which the unrepaired code failed: a full 32-byte buffer *)
Example read_ex_full_buffer :
  match read_to_end_or_max grow_vec (junk_of []) false (bm_of (junk_of []) (repeat 65 32) 0) [Data [66]] 100 with
  | RDone b rest => contents b = repeat 65 32 ++ [66] /\ fst (pre_fail rest) = []
  | _ => False
  end.
Proof. vm_compute. split; reflexivity. Qed.
Example read_file_ex : read_file grow_vec (junk_of []) (data_stream [B "hel"; B "lo"]) = Ok (B "hello").
Proof. vm_compute. reflexivity. Qed.
