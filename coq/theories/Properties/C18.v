(** C18 — Buffer and stream helpers return exactly the bytes produced. *)
From KV Require Import Bytes RustInt Buffers BuffersProofs.
