(** C02 — placeholder while the proofs are written. *)
From KV Require Import Bytes Panics.
