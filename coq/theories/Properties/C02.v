(** C02 — No client input can panic a connection task.
    Only statements here; proofs are in Proofs/PanicsProofs.v and in the proof files of the properties
    whose models are re-used.

    C02 is the union of panic-freedom statements over all parser / decision models: every model uses
    [outcome := Ok | Err e | Panic] with every slice, index, [unwrap]/[expect], checked arithmetic and
    [assert!] of the transcribed function explicit, and the correspondence run requires a panic to be
    predicted exactly.  Partial operations reachable from client bytes and what covers them
    (the full table is in the evidence, coverage.inventory):

      async read_more/read_headers (window arithmetic, assert)         Http1Read.read_headers   head_never_panics
      async read::request (method[..], version[..], slice(header_end-1..),
        buffer[path_start..path_end])                                  Http1Read.req_loop/req_finish   request_line_never_panics
      parse::headers (bytes[pos..], bytes[pos-1], slice(value_start..value_end))   Http1Read.hdr_loop   headers_never_panics
      get_body_length_request, Http1Body::read_to_bytes                 Http1Read.serve          head_never_panics
      sanitize_request (path; range: get(6..sep), saturating_add)       PathSan / Range          sanitize_never_panics, range_never_panics
      get_response: parse::uri(&decoded).unwrap()                       PathSan.request_fs_path  fs_path_never_panics (C01)
      apply_to_response (range_end - 1, body.slice)                     Range.apply_range        range_never_panics (C09)
      handle_cache + SendKind::send                                     RangeConn.conn_step      conn_never_panics (C09)
      PathQuery (string[..query_start], string[query_start..])          Panics.pq_*              pathquery_never_panics
      list_header (get x4)                                              Negotiate.list_header    list_header_never_panics (C06)
      parse::query, Query::insert/index_of/iterate_to_*                 Panics.query             query_never_panics
      QueryPairIter (unwrap x5, -= 1, pairs[..index])                   Panics.qi_*              query_iter_never_panics; REPAIRED (55bc7f7),
                                                                                                 query_get_last_v0_refuted
      Collection::get_from_request, get_host(..).unwrap()               Hosts.choose_host_uri    host_choice_never_panics (C15)
      limiting::register (max_requests * 3, iteration + 1)              Limiter                  limiter_never_panics (C12)
      stream_body (end - start, read - (pos - end))                     Panics.stream_*          stream_window_never_panics, stream_chunk_never_panics
      PresentExtensions::new + split_off(data_start) (file content)     PresentLine              present_line_never_panics (C16)
      nonce rewriter (file content)                                     Nonce                    nonce_rewriter_never_panics (C14)
      from_kvarn_cache_control (integer * multiplier; RESPONSE header,
        not client input)                                               CacheControl             kvarn_cache_control_unchecked_never_panics,
                                                                                                 kvarn_cache_control_checked_refuted (known class)
      handle_cache: if-modified-since (time crate's parser, creation - 1 s)  Ims.ims_fresh        if_modified_since_never_panics, _rule,
                                                                                                 if_modified_since_plus_variant_refuted
      stream_body: the whole loop (pos += read, &buf[..buf_end])        Panics.stream_loop       stream_body_never_panics
      url_crawl::LinkIter (data[pos+1..], quote[..ending], data[..=pos],
        data[advance..]; file / upstream content)                        UrlCrawl.link_iter       link_iter_never_panics; REPAIRED (4e78a7d),
                                                                                                 link_iter_v0_refuted
      kvarn-extensions templates: extract_templates / handle_template (file.slice x2,
        unwrap x5, file[start..position - 1]; file content)             Templates.render         template_engine_never_panics; REPAIRED (176c67e),
                                                                                                 template_engine_v0_refuted
      clone_preferred: the weights of accept-encoding members (f32::from_str: nan, inf, 1e400, -0 ...;
        only == 0.0 / != 0.0 / == 1.0, never ordered)                   Panics.ae_answer         accept_encoding_always_answered;
                                                                                                 weight_order_variant_refuted (a sort by
                                                                                                 partial_cmp(..).unwrap() would panic)
      is_part_of_origin / check_cors_request                            Cors (total functions)   stage of request_path
      http, time, moka, tokio, compressors, other extensions            not modelled             exploration run only *)
From Coq Require Import ZArith.
From KV Require Import Bytes RustInt RustStd Panics PanicsProofs Ims ImsProofs UrlCrawl UrlCrawlProofs Templates TemplatesProofs.
From KV Require PathSan PathSanProofs Range RangeProofs RangeConn RangeConnProofs Http1Read Hosts HostsProofs
  Negotiate ListHeaderProofs Limiter LimiterProofs Nonce NonceProofs PresentLine PresentLineProofs CacheControl Cors.
Open Scope N_scope.

(** ** The reader: every head, every read schedule, every end mode, every buffer growth policy *)

Theorem head_never_panics : forall (grow : nat -> nat -> nat -> nat) (mode : N) (https : bool) (dh : option bytes)
    (max_len : nat) (limit : N) (stream : bytes) (sched : list nat),
  Http1Read.serve grow mode https dh max_len limit stream sched <> Panic.
Proof. exact Reader.serve_no_panic. Qed.

Theorem request_line_never_panics : forall (https : bool) (dh : option bytes) (buffer : bytes),
  Http1Read.parse_request https dh buffer <> Panic.
Proof. exact Reader.parse_request_no_panic. Qed.

Theorem headers_never_panics : forall b : bytes, Http1Read.parse_headers b <> Panic.
Proof. exact Reader.parse_headers_no_panic. Qed.

(** ** Header values, paths, query strings *)

Theorem range_never_panics : forall (checked : bool) (hdr : option bytes) (body : bytes),
  N.of_nat (length body) <= u64_max -> Range.serve_range checked hdr 200 body <> Panic.
Proof. exact RangeProofs.serve_range_no_panic. Qed.

Theorem sanitize_never_panics : forall p : bytes, PathSan.sanitize_path p <> Panic.
Proof. exact sanitize_path_no_panic. Qed.

Theorem fs_path_never_panics : forall host public p : bytes,
  PathSan.sanitize_path p = Ok tt -> PathSan.request_fs_path host public p <> Panic.
Proof. exact PathSanProofs.request_fs_path_no_panic. Qed.

(** ** Weighted lists: whatever [f32::from_str] makes of a weight text, the page is answered

    [parse_q] is ANY function from weight texts to the three classes the code tests for (zero, one, other): "nan", "inf",
    "-inf", "1e400", "-0", ".5", "1." are in one of them.  The answer is the 406 page exactly when identity is refused and nothing
    else applies; else the page's own status with identity or a coding the list names with a weight that is not zero; a page
    under the 50-byte floor is never compressed. *)
Theorem accept_encoding_always_answered : forall (parse_q : bytes -> option Negotiate.qclass) (status : N) (big : bool) (ae : option bytes),
  let values := Negotiate.header_values parse_q ae in
  (ae_answer parse_q status big ae = (406, Some Negotiate.s_identity) /\ Negotiate.disable_identity values = true)
  \/ (ae_answer parse_q status big ae = (status, Some Negotiate.s_identity) /\ Negotiate.disable_identity values = false)
  \/ (exists a, ae_answer parse_q status big ae = (status, Some (Negotiate.alg_name a)) /\ big = true /\
                Negotiate.contains values (Negotiate.alg_name a) = true).
Proof. exact ae_answer_cases. Qed.

(** The code never orders the client's weights.  A variant that does — [accepted.sort_by(|a, b| b.quality.partial_cmp(&a.quality)
    .unwrap())] — panics for exactly the lists of two or more members with a NaN among the weights, e.g. "gzip;q=nan, br". *)
Theorem weight_order_variant_refuted : forall (A : Type) (l : list (A * fweight)),
  sort_weights l = Panic <-> (2 <= length l)%nat /\ Exists (fun m => snd m = FNan) l.
Proof. exact weight_order_variant. Qed.

(** [list_header] has no partial operation (every slice is the [get] form); it yields at most one value
    per ',' plus one, the capacity of its vector. *)
Theorem list_header_never_panics : forall (parse_q : bytes -> option Negotiate.qclass) (h : bytes),
  exists l, Negotiate.list_header parse_q h = l /\ (length l <= S (ListHeaderProofs.commas h))%nat.
Proof. intros parse_q h. eexists. split; [reflexivity|apply ListHeaderProofs.list_header_length_l]. Qed.

(** [If-Modified-Since] on a cache hit ([handle_cache]): [to_str], the [time] crate's parser for [HTTP_DATE]
    (fixed-width fields, names from fixed lists, literals, nothing after " GMT", the date must exist) and
    [timestamp >= creation - 1.seconds()].  The only arithmetic is on the entry's creation time (the server's
    clock), so NO header value can panic it — as long as the entry was not made in the first second of the year
    -9999.  [creation] is the instant (seconds from 1970) the entry was made. *)
Theorem if_modified_since_never_panics : forall (creation : Z) (hdr : option bytes),
  (odt_min + 1 <= creation <= odt_max)%Z -> ims_fresh false creation hdr <> Panic.
Proof. exact ims_fresh_no_panic. Qed.

(** What it decides: "not modified" exactly for a value that is text, is an HTTP date and is not older than the
    entry's creation minus one second; otherwise the page. *)
Theorem if_modified_since_rule : forall (creation : Z) (hdr : option bytes),
  (odt_min + 1 <= creation <= odt_max)%Z ->
  (ims_fresh false creation hdr = Ok true <->
   exists v ts, hdr = Some v /\ Http1Read.hv_to_str_ok v = true /\ parse_http_date v = Some ts /\ (creation - 1 <= ts)%Z) /\
  (ims_fresh false creation hdr = Ok true \/ ims_fresh false creation hdr = Ok false).
Proof. exact ims_fresh_spec. Qed.

(** The equivalent-looking rewrite [timestamp + 1.seconds() >= creation] does its arithmetic on the CLIENT's date:
    "Fri, 31 Dec 9999 23:59:59 GMT" panics the connection task on every cache hit, whenever the entry was made. *)
Theorem if_modified_since_plus_variant_refuted : forall creation : Z,
  ims_fresh true creation (Some last_second) = Panic.
Proof. exact ims_plus_variant_panics. Qed.

Theorem query_never_panics : forall q : bytes, query q <> Panic.
Proof. exact query_no_panic. Qed.

(** Every script of [next] / [next_back] calls on [Query::get_all(name)] ([get], [get_first], [get_last]
    are scripts of length 2, 1, 1), for every query string and name. *)
Theorem query_iter_never_panics : forall (q name : bytes) (script : list bool),
  query_script false q name script <> Panic.
Proof. exact query_script_no_panic. Qed.

(** The code as it was: [Query::get_last] panicked for every query string and every name. *)
Theorem query_get_last_v0_refuted : forall q name : bytes, query_script true q name [true] = Panic.
Proof. exact query_get_last_v0_panics. Qed.

Theorem pathquery_never_panics : forall (path : bytes) (query : option bytes),
  pq_path (pq_from path query) = Ok path /\ exists r, pq_query (pq_from path query) = Ok r.
Proof. intros path query. split; [apply pq_path_ok|apply pq_query_ok]. Qed.

Theorem host_choice_never_panics : forall (ops : list Hosts.op) (c : Hosts.collection) (b : bool) (sni : option bytes) (hh : list bytes) (authority : option bytes),
  Hosts.build ops = Ok c -> Hosts.choose_host_uri b Hosts.V1 c sni hh authority <> Panic.
Proof. exact choose_host_no_panic. Qed.

Theorem limiter_never_panics : forall (checked : bool) (cfg : Limiter.config) (t0 : N) (h : list Limiter.event),
  Limiter.fits (length h) -> Forall (fun d => exists a, d = Ok a) (Limiter.decisions checked cfg t0 h).
Proof. exact LimiterProofs.register_no_panic. Qed.

(** ** After the handler: range, cache, send; streamed files *)

Theorem conn_never_panics : forall (checked caching : bool) (pg : RangeConn.page) (cache : option RangeConn.page) (q : RangeConn.creq),
  RangeConn.page_fits pg -> RangeConn.cache_ok pg cache ->
  fst (RangeConn.conn_step checked caching pg cache q) <> Panic.
Proof. exact conn_step_no_panic. Qed.

Theorem stream_window_never_panics : forall (checked : bool) (hdr : option bytes) (range : option (N * N)) (file_len : N),
  Range.sanitize_range hdr = Ok range -> stream_window checked range file_len <> Panic.
Proof. exact stream_window_no_panic. Qed.

Theorem stream_chunk_never_panics : forall (checked : bool) (pos read end_ : N),
  pos < end_ -> pos + read <= u64_max -> stream_chunk checked pos read end_ <> Panic.
Proof. exact stream_chunk_no_panic. Qed.

(** The whole of [stream_body]: for every Range header [sanitize_request] accepts, every file length and every
    sequence of results of [file.read] (each at most the 64 KiB buffer; file offsets stay below 2^63, as the
    kernel keeps them) the loop ends without panic — [pos += read], [read - (pos - end)], [&buf[..buf_end]]
    included —, never sends more than the announced [content-length], and sends exactly it when the file
    delivers that much.  The hypotheses of [stream_chunk_never_panics] are invariants of the loop. *)
Theorem stream_body_never_panics : forall (checked : bool) (hdr : option bytes) (range : option (N * N)) (file_len : N)
    (reads : list N) (start end_ len : N),
  Range.sanitize_range hdr = Ok range -> stream_window checked range file_len = Ok (start, end_, len) ->
  Forall (fun r => r <= stream_buf) reads -> start + nsum (live_reads reads) <= 9223372036854775807 ->
  exists sent, stream_loop checked start end_ reads = Ok sent /\
               nsum sent = N.min len (nsum (live_reads reads)) /\ nsum sent <= len.
Proof. exact stream_body_no_panic. Qed.

(** ** Served files that start with an extension line (not request bytes; part of the property's text) *)

Theorem present_line_never_panics : forall data : bytes,
  exists r, PresentLine.present_parse data = Ok r /\
    match r with
    | Some p => (PresentLine.p_data_start p <= length data)%nat /\ PresentLine.p_body p = skipn (PresentLine.p_data_start p) data
    | None => True
    end.
Proof. exact PresentLineProofs.present_parse_total. Qed.

Theorem nonce_rewriter_never_panics : forall nonce body : bytes,
  Nonce.nonce_rewrite nonce body <> Panic /\ forall e, Nonce.nonce_rewrite nonce body <> Err e.
Proof. exact NonceProofs.nonce_rewrite_total. Qed.

(** ** [url_crawl::LinkIter] (anchor url-crawl/src/lib.rs; file / upstream content): the repaired iterator never panics,
    for every filter function, both settings of [interdomain_links] and every text. *)
Theorem link_iter_never_panics : forall (filter : bytes -> nat -> bool) (interdomain : bool) (data : bytes),
  link_iter false filter interdomain data <> Panic.
Proof. exact link_iter_no_panic. Qed.

(** The code as it was ([&self.data[advance..]]): a quote that is not closed before the end of the data panics, under
    both filters of the crate; the repaired code yields the link. *)
Theorem link_iter_v0_refuted :
  link_iter true filter_resource false unclosed = Panic /\ link_iter true filter_absolute false unclosed = Panic /\
  link_iter false filter_resource false unclosed = Ok [IPath (B "/abc") (B "<img src=" ++ [34]) 1].
Proof. exact link_iter_v0_panics. Qed.

(** ** The template engine of kvarn-extensions ([!> tmpl <file>]: [handle_template] on the served page,
    [extract_templates] on the operator's template file; file content): repaired, it never panics — for every
    template file (or none) and every page body. *)
Theorem template_engine_never_panics : forall (tfile : option bytes) (body : bytes), render false tfile body <> Panic.
Proof. exact render_no_panic. Qed.

(** [extract_templates] as it was ([file.slice(start..len - trim)]): a template file whose last template is empty and
    ends in a line feed panics — on every request for a page that asks for a template (a page without a complete
    placeholder never reads the file); the repaired code renders the empty template. *)
Theorem template_engine_v0_refuted :
  extract_templates true empty_last = Panic /\ render true (Some empty_last) (B "<p>$[a]</p>") = Panic /\
  render false (Some empty_last) (B "<p>$[a]</p>") = Ok (B "<p></p>") /\
  render true (Some empty_last) (B "<p>no placeholder $[</p>") = Ok (B "<p>no placeholder ").
Proof. exact render_v0_panics. Qed.

(** ** [kvarn-cache-control] (a RESPONSE header of a handler / upstream server, not client input) *)

Theorem kvarn_cache_control_unchecked_never_panics : forall h : bytes,
  CacheControl.from_kvarn_cache_control false h <> Panic.
Proof. exact cc_kvarn_unchecked_no_panic. Qed.

(** With overflow checks (debug builds) [integer * multiplier] panics: known class kvarn-cache-control-overflow. *)
Theorem kvarn_cache_control_checked_refuted :
  CacheControl.from_kvarn_cache_control true (B "4294967295d") = Panic.
Proof. vm_compute. reflexivity. Qed.

(** ** The request path, in the code's order: reader (head, body) -> host choice (409) -> request limiter (drop, 429) ->
    sanitize (path: 400; range with start > end: 416, before any Prime result counts) -> CORS gate (403, preflight 204; the
    range stage of send applies to its pages)
    -> cache key -> file path -> query parsing -> negotiation -> cache -> range -> send; for every head, every read
    schedule and end mode, every host collection the builder accepts, every limiter configuration and every history
    of earlier registrations on it (within usize::MAX / 3 calls), every page that fits in memory, every state of the
    response cache that is absent or holds this page, both arithmetic modes. *)
Theorem request_path_never_panics :
  forall (grow : nat -> nat -> nat -> nat) (parse_q : bytes -> option Negotiate.qclass) (checked : bool) (mode : N) (https : bool)
    (ops : list Hosts.op) (c : Hosts.collection) (dh : option bytes) (max_len : nat) (limit : N)
    (lcfg : Limiter.config) (t0 : N) (lh : list Limiter.event) (addr now : N) (public : bytes)
    (cors_default_deny caching : bool) (pg : RangeConn.page) (cache : option RangeConn.page) (stream : bytes) (sched : list nat),
  Hosts.build ops = Ok c -> Limiter.fits (S (length lh)) -> RangeConn.page_fits pg -> RangeConn.cache_ok pg cache ->
  request_path grow parse_q checked mode https c dh max_len limit lcfg t0 lh addr now public cors_default_deny caching pg cache stream sched <> Panic.
Proof. exact request_path_no_panic. Qed.

(** ** Non-vacuity *)

Definition ex_ops : list Hosts.op :=
  [(true, {| Hosts.h_name := B "localhost"; Hosts.h_alts := [] |});
   (false, {| Hosts.h_name := B "b.example"; Hosts.h_alts := [B "alias.example"] |})].
Definition ex_coll : Hosts.collection :=
  match Hosts.build ex_ops with Ok c => c | _ => Hosts.empty_collection end.
Example ex_build : Hosts.build ex_ops = Ok ex_coll.
Proof. vm_compute. reflexivity. Qed.
Definition ex_page : RangeConn.page :=
  [ {| RangeConn.rp_encoding := Some (B "identity"); RangeConn.rp_body := B "0123456789" |};
    {| RangeConn.rp_encoding := Some (B "gzip"); RangeConn.rp_body := B "GZIPPEDBYTES" |} ].
Example ex_page_fits : RangeConn.page_fits ex_page.
Proof. repeat constructor; vm_compute; discriminate. Qed.

(** A ranged request with a query string, delivered in three segments, reaches the last stage. *)
Example ex_request_path_reply :
  match request_path Http1Read.vec_grow Negotiate.parse_q_dec true 0 false ex_coll (Some (B "localhost")) (N.to_nat 16384) 65536
          (Limiter.disable Limiter.default_config) 0 [] 1 0 (B "public") true true ex_page None
          (B "GET /a?x=1&y=2&x=3 HTTP/1.1" ++ [13; 10] ++ B "Host: b.example" ++ [13; 10] ++ B "Range: bytes=2-5" ++ [13; 10]
             ++ B "Accept-Encoding: gzip" ++ [13; 10; 13; 10]) [5; 40; 100]%nat with
  | Ok (PReply (RangeConn.WResp w) (Some _) qs (Some fs)) =>
      RangeConn.w_status w = 206 /\ RangeConn.w_body w = B "IPPE" /\ q_values qs (B "x") = [B "1"; B "3"] /\
      fs = B "b.example/public/a"
  | _ => False
  end.
Proof. vm_compute. repeat split. Qed.
(** The inputs of the repaired defects: a header line ended by a bare LF, the largest range end. *)
Example ex_bare_lf : Http1Read.parse_headers (B "A: " ++ [10; 13; 10]) = Ok ([(B "a", [])], 6%nat).
Proof. vm_compute. reflexivity. Qed.
Example ex_range_max :
  match request_path Http1Read.vec_grow Negotiate.parse_q_dec true 0 false ex_coll (Some (B "localhost")) (N.to_nat 16384) 65536 (Limiter.disable Limiter.default_config) 0 [] 1 0 (B "public") true false ex_page None
          (B "GET / HTTP/1.1" ++ [13; 10] ++ B "Range: bytes=0-18446744073709551615" ++ [13; 10; 13; 10]) [1000]%nat with
  | Ok (PReply (RangeConn.WResp w) _ _ _) => RangeConn.w_status w = 206 /\ RangeConn.w_content_range w = Some (B "bytes 0-9/10")
  | _ => False
  end.
Proof. vm_compute. repeat split. Qed.
(** Unsafe path, unknown host without default, a head cut off by EOF. *)
Example ex_unsafe :
  request_path Http1Read.vec_grow Negotiate.parse_q_dec true 0 false ex_coll (Some (B "localhost")) (N.to_nat 16384) 65536 (Limiter.disable Limiter.default_config) 0 [] 1 0 (B "public") true false ex_page None
    (B "GET /../x HTTP/1.1" ++ [13; 10; 13; 10]) [1000]%nat = Ok P400.
Proof. vm_compute. reflexivity. Qed.
Example ex_closed :
  request_path Http1Read.vec_grow Negotiate.parse_q_dec true 0 false ex_coll None (N.to_nat 16384) 65536 (Limiter.disable Limiter.default_config) 0 [] 1 0 (B "public") true false ex_page None
    (B "GET / HTTP/1.1") [1000]%nat = Ok (PClosed Http1Read.E_UNEXPECTED_END).
Proof. vm_compute. reflexivity. Qed.
(** The order of the stages: an unsafe path wins over a foreign Origin (400), a refused range too (416); a foreign Origin is
    403, also for a preflight; a same-origin preflight is answered 204 by the default gate; a limiter that allows one
    request per window answers the second 429 and drops the fifth. *)
Definition ex_head (lines : list bytes) : bytes := concat (map (fun l => l ++ [13; 10]) lines) ++ [13; 10].
Definition ex_path (lcfg : Limiter.config) (lh : list Limiter.event) (lines : list bytes) : outcome path_result :=
  request_path Http1Read.vec_grow Negotiate.parse_q_dec true 0 false ex_coll (Some (B "localhost")) (N.to_nat 16384) 65536
    lcfg 0 lh 1 5 (B "public") true false ex_page None (ex_head lines) [1000]%nat.
Definition ex_status (o : outcome path_result) : option N :=
  match o with
  | Ok (PGate Range.R416) => Some 416
  | Ok (PGate (Range.RResp r)) => Some (Range.r_status r)
  | _ => None
  end.
Definition ex_lim : Limiter.config := {| Limiter.max_requests := 1; Limiter.check_every := 1; Limiter.reset_after := Some 300 |}.
Example ex_order :
  ex_path (Limiter.disable Limiter.default_config) [] [B "GET /../x HTTP/1.1"; B "Origin: http://evil"] = Ok P400 /\
  (match ex_path (Limiter.disable Limiter.default_config) [] [B "GET /x HTTP/1.1"; B "Origin: http://evil"; B "Range: bytes=5-2"] with
   | Ok (PReply RangeConn.W416 _ _ _) => True | _ => False end) /\
  ex_status (ex_path (Limiter.disable Limiter.default_config) [] [B "GET /x HTTP/1.1"; B "Origin: http://evil"]) = Some 403 /\
  ex_status (ex_path (Limiter.disable Limiter.default_config) [] [B "OPTIONS /x HTTP/1.1"; B "Origin: http://evil"; B "Access-Control-Request-Method: PUT"]) = Some 403 /\
  ex_status (ex_path (Limiter.disable Limiter.default_config) [] [B "OPTIONS /x HTTP/1.1"; B "Origin: http://localhost"; B "Access-Control-Request-Method: PUT"]) = Some 204 /\
  (* the range stage of send applies to the gate's pages too: 19 bytes of denial, an empty preflight answer *)
  ex_status (ex_path (Limiter.disable Limiter.default_config) [] [B "GET /x HTTP/1.1"; B "Origin: http://evil"; B "Range: bytes=19-30"]) = Some 416 /\
  ex_status (ex_path (Limiter.disable Limiter.default_config) [] [B "GET /x HTTP/1.1"; B "Origin: http://evil"; B "Range: bytes=18-30"]) = Some 403 /\
  ex_path ex_lim [(1, 1)] [B "GET /x HTTP/1.1"] = Ok P429 /\
  ex_path ex_lim [(1, 1); (1, 2); (1, 3); (1, 4)] [B "GET /x HTTP/1.1"] = Ok PDropped.
Proof. vm_compute. repeat split. Qed.
(** "gzip;q=nan, br": f32::from_str reads a NaN, which is neither 0.0 nor 1.0 — gzip is acceptable, but zstd is not and br comes
    first in the server's order; identity refused by a weight of -0 (== 0.0), accepted by "inf" and by "nan"; under the floor only
    identity or 406; ordering the same weights would panic. *)
Example ex_weights :
  Negotiate.parse_q_dec (B "nan") = Some Negotiate.QOther /\ Negotiate.parse_q_dec (B "-0") = Some Negotiate.QZero /\
  Negotiate.parse_q_dec (B "1e400") = Some Negotiate.QOther /\ Negotiate.parse_q_dec (B "1.") = Some Negotiate.QOne /\
  Negotiate.parse_q_dec (B "0x1p-1") = None /\
  ae_answer Negotiate.parse_q_dec 200 true (Some (B "gzip;q=nan, br")) = (200, Some (B "br")) /\
  ae_answer Negotiate.parse_q_dec 200 true (Some (B "gzip;q=nan")) = (200, Some (B "gzip")) /\
  ae_answer Negotiate.parse_q_dec 200 true (Some (B "identity;q=-0, gzip;q=0")) = (406, Some (B "identity")) /\
  ae_answer Negotiate.parse_q_dec 404 true (Some (B "identity;q=nan, gzip;q=0")) = (404, Some (B "identity")) /\
  ae_answer Negotiate.parse_q_dec 200 false (Some (B "gzip;q=inf, br")) = (200, Some (B "identity")) /\
  sort_weights [(B "gzip", FNan); (B "br", FVal 1)] = Panic /\
  sort_weights [(B "gzip", FVal 1); (B "br", FVal 3); (B "zstd", FVal 1)] = Ok [(B "br", FVal 3); (B "gzip", FVal 1); (B "zstd", FVal 1)].
Proof. vm_compute. repeat split. Qed.
Example ex_get_last : query_script false (B "a=1&b=2&a=3") (B "a") [true; false; false] = Ok [Some (B "3"); Some (B "1"); None].
Proof. vm_compute. reflexivity. Qed.
(** A date in the past: the page; the same date a few hundred years on: not modified; a day that does not exist,
    a 61st second, a fifth digit in the year, a lower-case month: no date at all. *)
Example ex_ims :
  ims_fresh false 1790000000 (Some (B "Tue, 27 Jul 2021 14:08:15 GMT")) = Ok false /\
  ims_fresh false 1790000000 (Some (B "Fri, 27 Jul 2421 14:08:15 GMT")) = Ok true /\
  ims_fresh false 1790000000 (Some (B "Xxx, 27 Jul 2421 14:08:15 GMT")) = Ok false /\
  parse_http_date (B "Mon, 27 Jul +2421 14:08:15 GMT") = parse_http_date (B "Fri, 27 Jul 2421 14:08:15 GMT") /\
  parse_http_date (B "Thu, 01 Jan 1970 00:00:00 GMT") = Some 0%Z /\
  parse_http_date (B "Tue, 31 Jun 2021 00:00:00 GMT") = None /\ parse_http_date (B "Tue, 27 Jul 2021 23:59:60 GMT") = None /\
  parse_http_date (B "Tue, 27 Jul 99999 14:08:15 GMT") = None /\ parse_http_date (B "Tue, 27 jul 2021 14:08:15 GMT") = None /\
  parse_http_date (B "Sat, 29 Feb 2020 12:00:00 GMT") = Some 1582977600%Z /\ parse_http_date (B "Mon, 29 Feb 2100 12:00:00 GMT") = None.
Proof. vm_compute. repeat split. Qed.
(** Templates: placeholders, an escaped one, an escaped escape, an unknown name, the tmpl-ignore line. *)
Example ex_render :
  render false (Some (B "$[head]" ++ [10] ++ B "<h1>" ++ [10] ++ B "$[x] X" ++ [10]))
         (B "<!-- tmpl-ignore -->" ++ [10] ++ B "$[head]|$[x]|\$[x]|\\$[x]|$[none]|$[") =
  Ok (B "<h1>|X|$[x]|\X||").
Proof. vm_compute. reflexivity. Qed.
Example ex_stream_window : stream_window true (Some (2, 6)) 10 = Ok (2, 6, 4).
Proof. vm_compute. reflexivity. Qed.
(** A 70000-byte file, the window 65535..65537 straddles the first buffer: two reads, chunks of 1 and 1 byte. *)
Example ex_stream_loop : stream_loop true 65535 65537 [1; 4464; 0] = Ok [1; 1]
  /\ stream_reply true (Some (65535, 65537)) 70000 = Ok (2, 2) /\ stream_reply true None 200000 = Ok (200000, 200000)
  /\ stream_reply true (Some (5, 2001)) 1000 = Ok (995, 995).
Proof. vm_compute. repeat split. Qed.
