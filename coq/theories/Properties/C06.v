(** C06 — Compression is lossless, correctly labelled and only what the client accepts.
    Only statements here; proofs are in Proofs/NegotiateProofs.v and Proofs/ListHeaderProofs.v.

    Every theorem quantifies over the three external functions
      [parse_q]    : [f32::from_str] + the tests [== 0.0] / [== 1.0] made on its result,
      [parse_mime] : [Mime::from_str],
      [enc]        : the encoders (algorithm, level, body),
    so it holds for the real ones whatever they do; only [lossless_partial] assumes something about [enc]
    (a decoder inverts it and its output is never empty) — that part is validated on every run by
    the standard decoders of flate2 / brotli / zstd, not proved (partial).

    The model describes kvarn after the repairs 7270dfd (OWS in list_header), 0cd8927 / cb78127 / 644c245
    (refusal of identity: under the floor and for opted-out handlers, "*;q=0", any case) and 37d7eb3 (memo
    cells written once across threads); what each repaired is kept as a [_v0_refuted] theorem. *)
From KV Require Import Bytes RustInt Range Negotiate NegotiateProofs ListHeaderProofs.
Open Scope N_scope.

Section C06.
  Variable parse_q : bytes -> option qclass.
  Variable parse_mime : bytes -> option mime.
  Variable enc : alg -> N -> bytes -> bytes.
  Notation clone := (clone_preferred parse_q parse_mime enc).

  (** The coding chosen is identity, or one of gzip / br / zstd that [list_header] found in the
      Accept-Encoding value with a quality that is not 0.0. *)
  Theorem chosen_is_listed : forall c ae o l b ch c',
    clone c ae o = (Sent l b ch, c') ->
    ch = Identity \/
    exists a h q, ch = Alg a /\ ae = Some h /\ to_str_ok h = true /\
                  In (alg_name a, q) (list_header parse_q h) /\ q <> QZero.
  Proof. exact (chosen_is_listed_l parse_q parse_mime enc). Qed.

  (** Safety form for arbitrary header text: the name of a chosen algorithm occurs in the header. *)
  Theorem chosen_occurs_in_header : forall c ae o l b a c',
    clone c ae o = (Sent l b (Alg a), c') -> exists h, ae = Some h /\ substr (alg_name a) h.
  Proof.
    intros c ae o l b a c' H. destruct (chosen_is_listed _ _ _ _ _ _ _ H) as [E|[a' [h [q [E [-> [_ [Hin _]]]]]]]]; [discriminate|].
    inversion E; subst a'. exists h. split; [reflexivity|].
    pose proof (list_header_values_substr_l parse_q true h) as Hall. rewrite Forall_forall in Hall. exact (Hall _ Hin).
  Qed.

  (** A coding whose every occurrence in the list has quality 0.0 is never chosen.  (Listed twice,
      once with q=0 and once without, it may be chosen: [contains] is an [any].) *)
  Theorem never_refused : forall c ae o l b a c',
    clone c ae o = (Sent l b (Alg a), c') ->
    ~ (forall q, In (alg_name a, q) (header_values parse_q ae) -> q = QZero).
  Proof. exact (never_refused_l parse_q parse_mime enc). Qed.

  (** What "the client forbids identity" means, read off the parsed list (RFC 7231 5.3.4): identity — in any
      case — listed with quality 0.0, or identity not listed at all and "*" listed with quality 0.0. *)
  Theorem refuses_identity_iff : forall values,
    disable_identity values = true <->
    ((exists v, In (v, QZero) values /\ lower v = s_identity) \/
     (In (s_star, QZero) values /\ forall v q, In (v, q) values -> lower v <> s_identity)).
  Proof. exact disable_identity_iff. Qed.

  (** Identity is never sent to a client that forbids it: whatever the body (also under 50 bytes), the
      handler's preference (also opted out) and the content type. *)
  Theorem identity_refusal_honoured : forall c ae o r c',
    disable_identity (header_values parse_q ae) = true ->
    clone c ae o = (r, c') -> forall l b, r <> Sent l b Identity.
  Proof.
    intros c ae o r c' H. apply disable_identity_iff in H. exact (identity_refusal_l parse_q parse_mime enc c ae o r c' H).
  Qed.

  (** Body under 50 bytes or handler opted out: never a compressed body and no memo cell touched — the
      identity body, labelled [identity] (for an empty body: the headers as the handler set them), or 406
      for a client that forbids identity. *)
  Theorem floors : forall body ct hce compress ae o,
    (length body < 50)%nat \/ compress = false ->
    clone (cresp_new body ct hce compress) ae o =
    (if disable_identity (header_values parse_q ae) then NotAcceptable
     else Sent (match body with [] => hce | _ => Some s_identity end) body Identity,
     cresp_new body ct hce compress).
  Proof. exact (floors_l parse_q parse_mime enc). Qed.

  (** Content type absent, unparsable or filtered by [do_compress]: never a compressed body — the
      identity body, or 406 when the client refuses identity. *)
  Theorem floors_content_type : forall c ae o r c',
    compressible parse_mime c = false -> clone c ae o = (r, c') ->
    c' = c /\ (r = NotAcceptable \/
               r = Sent (match cr_body c with [] => cr_hce c | _ => Some s_identity end) (cr_body c) Identity).
  Proof. exact (floors_ctype_l parse_q parse_mime enc). Qed.

  (** The label names exactly the coding whose bytes are sent: identity <-> the identity body,
      algorithm a <-> an output of a's encoder on the identity body, which is also what a's memo
      cell holds afterwards; for an empty body no label is set (the handler's own headers stay). *)
  Theorem label_matches_body : forall c ae o l b ch c',
    cells_ok enc c -> clone c ae o = (Sent l b ch, c') ->
    l = match b with [] => cr_hce c | _ => Some (coding_name ch) end /\
    match ch with
    | Identity => b = cr_body c /\ c' = c
    | Alg a => (exists level, b = enc a level (cr_body c)) /\ cell_get a c' = Some b
    end /\
    cells_ok enc c' /\ cr_body c' = cr_body c /\ cr_compress c' = cr_compress c /\ cr_ctype c' = cr_ctype c /\
    cr_hce c' = cr_hce c.
  Proof. exact (label_matches_body_l parse_q parse_mime enc). Qed.

  (** A content-encoding header set by the handler itself never reaches the client with a non-empty body:
      the label is the one of the coding chosen here (the handler's bytes are the identity body). *)
  Theorem handler_coding_overwritten : forall c ae o l b ch c',
    clone c ae o = (Sent l b ch, c') -> b <> [] -> l = Some (coding_name ch).
  Proof. exact (handler_coding_overwritten_l parse_q parse_mime enc). Qed.

  (** A filled cell is what every later request of that algorithm gets (no second encoder run). *)
  Theorem memoised_bytes_reused : forall a level c b, cell_get a c = Some b -> get_alg enc a level c = (b, c).
  Proof. exact (get_alg_memo enc). Qed.

  (** ... inside [handle_cache]: a reply flagged as memoised carries exactly the bytes an earlier request left in
      the entry's cell, and the cell still holds them afterwards. *)
  Theorem memoised_reply : forall pg e rq r e',
    handle parse_q parse_mime enc pg e rq = (r, e') -> was_memoised e rq r = true ->
    exists c a l b, visible e (fst rq) = Some c /\ r = Sent l b (Alg a) /\ cell_get a c = Some b /\
                    exists c', e' = Some c' /\ cell_get a c' = Some b.
  Proof. exact (memoised_reply_l parse_q parse_mime enc). Qed.

  (** Every reply of every history of a page (any status, GET / HEAD / other methods, cached or not, single
      requests and groups of concurrent ones, from a cold cache) is one the specification [spec_verdict]
      allows: 406 exactly when it has to be, identity only if not forbidden, a coding only if the server may
      compress this page and the client lists the coding with a non-zero quality. *)
  Theorem serve_meets_spec : forall pg groups,
    Forall2 (fun g rs => Forall (fun r => reply_allowed (spec_verdict parse_q parse_mime pg (snd (fst g))) r = true) (map fst rs))
            groups (serve_groups parse_q parse_mime enc pg None groups).
  Proof. exact (serve_meets_spec_l parse_q parse_mime enc). Qed.

  (** Losslessness over every such history: each reply is 406 or decodes — with the decoder of the algorithm its
      label names — to the page's body.  PARTIAL: relative to the two hypotheses on the encoders.  ([hce_harmless]:
      a handler that sets content-encoding on an EMPTY body keeps that header, as a HEAD-like response should.) *)
  Theorem lossless_partial : forall dec : alg -> bytes -> bytes,
    (forall a level b, dec a (enc a level b) = b) -> (forall a level b, enc a level b <> []) ->
    forall pg groups,
      (pg_body pg <> [] \/ pg_hce pg = None \/ pg_hce pg = Some s_identity) ->
      Forall (fun rs => Forall (fun r => r = NotAcceptable \/
                                         exists l b ch, r = Sent l b ch /\ decode_label dec l b = Some (pg_body pg))
                               (map fst rs))
             (serve_groups parse_q parse_mime enc pg None groups).
  Proof. exact (lossless_l parse_q parse_mime enc). Qed.

  (** 406 <=> the client forbids identity and nothing else applies: the response is not compressed at all (under
      the floor, opted out, content type not compressible) or none of zstd / br / gzip is listed with non-zero quality. *)
  Theorem not_acceptable_iff : forall c ae o,
    fst (clone c ae o) = NotAcceptable <->
    disable_identity (header_values parse_q ae) = true /\
    (cr_compress c = false \/ compressible parse_mime c = false \/
     forall a, contains (header_values parse_q ae) (alg_name a) = false).
  Proof.
    intros c ae o. rewrite (disable_identity_iff (header_values parse_q ae)).
    exact (not_acceptable_iff_l parse_q parse_mime enc c ae o).
  Qed.

  (** Which algorithm: the preferred one whenever the client lists it, otherwise zstd, br, gzip. *)
  Theorem preference_order : forall p cz cb cg,
    pick p cz cb cg =
    match p with
    | PZstd => if cz then Some Zstd else if cb then Some Br else if cg then Some Gzip else None
    | PBr => if cb then Some Br else if cz then Some Zstd else if cg then Some Gzip else None
    | PGzip => if cg then Some Gzip else if cz then Some Zstd else if cb then Some Br else None
    | PNone => if cz then Some Zstd else if cb then Some Br else if cg then Some Gzip else None
    end.
  Proof. exact pick_order. Qed.

  (** On the RFC 7231 grammar — members [OWS name [OWS ";" OWS "q=" qvalue] OWS] separated by "," —
      [list_header] is the reference parse (name, value of the weight or 1.0), provided number
      parsing only accepts number characters (true of [f32::from_str]) and no name consists of
      number characters only (a weightless member is given the value of the text before it). *)
  Theorem list_header_wf :
    (forall s c, parse_q s <> None -> In c s -> numberish c = true) ->
    forall ms, ms <> [] -> forallb member_ok ms = true ->
    list_header parse_q (members_text ms) = map (member_ref parse_q) ms.
  Proof. exact (list_header_wf_l parse_q). Qed.

  (** For C02: [list_header] returns for every byte string (every slice is the [get] form, the model
      has no panic to reach) and yields at most one value per ',' plus one ([Vec::with_capacity]). *)
  Theorem list_header_total : forall h,
    exists l, list_header parse_q h = l /\ (length l <= S (commas h))%nat.
  Proof. intros h. exists (list_header parse_q h). split; [reflexivity|apply list_header_length_l]. Qed.
End C06.

(** The memo cell ([tokio::sync::OnceCell<Bytes>], [get_or_init]: fast-path check; take the permit; compress;
    store and give the permit up; read) under every interleaving of n tasks inside the same [get_x], from an
    empty or a filled cell: the cell only ever holds a value satisfying P (instantiate P b := b = enc a level
    body), and every task that has returned returned such a value — never a panic.  (Before fix 37d7eb3: an
    [UnsafeCell] with a separate check and write, see [memo_double_write_v0_refuted].) *)
Theorem memo_invariant : forall (P : bytes -> Prop) (vals : list bytes) (n : nat) (cell : option bytes) (sched : list nat),
  (forall i, (i < n)%nat -> P (nth i vals [])) -> (forall b, cell = Some b -> P b) ->
  let st := mrun vals (minit cell n) sched in
  (forall b, m_cell st = Some b -> P b) /\
  (forall i r, nth_error (m_pcs st) i = Some (PDone r) -> exists b, r = Ok b /\ P b).
Proof. intros P vals n cell sched Hv Hc. exact (memo_invariant_l P vals n Hv cell sched Hc). Qed.

(** written once: whatever the cell holds at some point of a run it holds for the rest of the run *)
Theorem memo_write_once : forall vals n cell sched1 sched2 b,
  m_cell (mrun vals (minit cell n) sched1) = Some b -> m_cell (mrun vals (minit cell n) (sched1 ++ sched2)) = Some b.
Proof. exact memo_write_once_l. Qed.

(** no deadlock, termination: after any schedule either every task has returned or some task can move (a task
    waiting for the permit cannot, the one holding it can), and every move uses up one of the 4n steps there are *)
Theorem memo_completes : forall vals cell n sched,
  let st := mrun vals (minit cell n) sched in
  (total_left (minit cell n) = 4 * n)%nat /\
  (forallb pc_done (m_pcs st) = true \/
   exists i st', mstep vals st i = Some st' /\ (total_left st' < total_left st)%nat).
Proof. exact memo_completes_l. Qed.

(** kvarn 0.6.3 ([UnsafeCell<Option<Bytes>>], second check and write not one step) with tasks on different worker
    threads: two tasks both see the empty cell at their second check and both write; the bytes task 0 has already
    returned are not the ones the cell holds in the end (and the first buffer is dropped by [Option::replace]
    while references into the cell are out).  Replayed on the real code (component neg.stress: 2-3 replies in
    a million carry another buffer than the first reply). *)
Theorem memo_double_write_v0_refuted :
  exists vals sched1 sched2 b b',
    b <> b' /\
    m0_cell (mrun0 vals (minit0 2) sched1) = Some b /\
    nth_error (m0_pcs (mrun0 vals (minit0 2) sched1)) 0 = Some (P0Done (Ok b)) /\
    m0_cell (mrun0 vals (minit0 2) (sched1 ++ sched2)) = Some b'.
Proof.
  exists [B "a"; B "b"], [0; 1; 0; 1; 0; 1; 0; 0; 0]%nat, [1]%nat, (B "a"), (B "b").
  split; [discriminate|]. vm_compute. repeat split; reflexivity.
Qed.

(** kvarn 0.6.3 before the repair (values and quality texts not trimmed): a header of the grammar on
    which [list_header] is not the reference parse — the refused gzip gets quality 1.0. *)
Theorem list_header_ows_v0_refuted :
  exists ms, ms <> [] /\ forallb member_ok ms = true /\
             list_header_gen parse_q_dec false (members_text ms) <> map (member_ref parse_q_dec) ms /\
             In (B "gzip", QOne) (list_header_gen parse_q_dec false (members_text ms)).
Proof.
  exists [mkMember [] (B "gzip") (Some ([], [], B "0")) (B " "); mkMember (B " ") (B "br") None []].
  split; [discriminate|]. split; [reflexivity|]. split; [vm_compute; discriminate|vm_compute; auto].
Qed.

(** kvarn 0.6.3 before the three repairs of the refusal of identity: to each a client that forbids identity
    (in the sense of [refuses_identity_iff]) and is sent the identity body all the same. *)
Definition html (n : N) : cresp := cresp_new (N.iter n (cons 97) []) (Some (B "text/html")) None true.
Definition opts (p : pref) : options := mkOptions p 4 4 2.
Notation clone_v := (clone_preferred_gen parse_q_dec parse_mime_std enc_tag).
Notation values_std := (header_values parse_q_dec).

(** a 49-byte body (under the floor): fix 0cd8927 *)
Theorem identity_refusal_floor_v0_refuted :
  exists c ae o l b, disable_identity (values_std ae) = true /\
                     fst (clone_v (mkFixes false true true) c ae o) = Sent l b Identity.
Proof. exists (html 49), (Some (B "identity;q=0, gzip")), (opts PZstd). eexists. eexists. split; vm_compute; reflexivity. Qed.
(** a handler that opted out: the same commit *)
Theorem identity_refusal_optout_v0_refuted :
  exists body ae o l b, (50 <= length body)%nat /\ disable_identity (values_std ae) = true /\
    fst (clone_v (mkFixes false true true) (cresp_new body (Some (B "text/html")) None false) ae o) = Sent l b Identity.
Proof.
  exists (N.iter 60 (cons 97) []), (Some (B "identity;q=0")), (opts PZstd). eexists. eexists.
  split; [vm_compute; repeat constructor|]. split; vm_compute; reflexivity.
Qed.
(** "*;q=0": fix cb78127 *)
Theorem identity_refusal_star_v0_refuted :
  exists c ae o l b, disable_identity (values_std ae) = true /\
                     fst (clone_v (mkFixes true false true) c ae o) = Sent l b Identity.
Proof. exists (html 60), (Some (B "*;q=0")), (opts PZstd). eexists. eexists. split; vm_compute; reflexivity. Qed.
(** "Identity;q=0": fix 644c245 *)
Theorem identity_refusal_case_v0_refuted :
  exists c ae o l b, disable_identity (values_std ae) = true /\
                     fst (clone_v (mkFixes true true false) c ae o) = Sent l b Identity.
Proof. exists (html 60), (Some (B "Identity;q=0")), (opts PZstd). eexists. eexists. split; vm_compute; reflexivity. Qed.

(* ------------------------------------------------------------------------------------ *)
(** * Non-vacuity *)
Notation clone_std := (clone_preferred parse_q_dec parse_mime_std enc_tag).

Example ex_chosen_preferred :
  fst (clone_std (html 60) (Some (B "gzip, br;q=0.5, zstd;q=0")) (opts PZstd))
  = Sent (Some (B "br")) (enc_tag Br 4 (cr_body (html 60))) (Alg Br).
Proof. vm_compute. reflexivity. Qed.
Example ex_refused_after_ows :
  fst (clone_std (html 60) (Some (B "gzip;q=0 , br")) (opts PGzip))
  = Sent (Some (B "br")) (enc_tag Br 4 (cr_body (html 60))) (Alg Br).
Proof. vm_compute. reflexivity. Qed.
Example ex_406 :
  fst (clone_std (html 60) (Some (B "identity;q=0, deflate")) (opts PZstd)) = NotAcceptable.
Proof. vm_compute. reflexivity. Qed.
Example ex_star_refuses_identity :
  fst (clone_std (html 60) (Some (B "*;q=0")) (opts PZstd)) = NotAcceptable /\
  fst (clone_std (html 60) (Some (B "*;q=0, gzip")) (opts PZstd)) = Sent (Some (B "gzip")) (enc_tag Gzip 2 (cr_body (html 60))) (Alg Gzip) /\
  fst (clone_std (html 60) (Some (B "*;q=0, identity;q=0.5")) (opts PZstd)) = Sent (Some (B "identity")) (cr_body (html 60)) Identity.
Proof. vm_compute. repeat split; reflexivity. Qed.
Example ex_refusal_beats_floor :
  fst (clone_std (html 49) (Some (B "identity;q=0, gzip")) (opts PZstd)) = NotAcceptable /\
  fst (clone_std (html 49) (Some (B "gzip")) (opts PZstd)) = Sent (Some (B "identity")) (cr_body (html 49)) Identity.
Proof. vm_compute. split; reflexivity. Qed.
Example ex_exotic_qualities :
  fst (clone_std (html 60) (Some (B "gzip;q=0e0, br;q=-0, zstd;q=1e-50, identity;q=+0.0")) (opts PZstd)) = NotAcceptable /\
  fst (clone_std (html 60) (Some (B "gzip;q=0e0, br;q=1e-3")) (opts PGzip)) = Sent (Some (B "br")) (enc_tag Br 4 (cr_body (html 60))) (Alg Br).
Proof. vm_compute. split; reflexivity. Qed.
Example ex_floor_50_compresses :
  fst (clone_std (html 50) (Some (B "gzip")) (opts PZstd))
  = Sent (Some (B "gzip")) (enc_tag Gzip 2 (cr_body (html 50))) (Alg Gzip).
Proof. vm_compute. reflexivity. Qed.
Example ex_image_not_compressed :
  fst (clone_std (cresp_new (N.iter 60 (cons 97) []) (Some (B "image/png")) None true) (Some (B "gzip")) (opts PZstd))
  = Sent (Some (B "identity")) (N.iter 60 (cons 97) []) Identity.
Proof. vm_compute. reflexivity. Qed.
(** a handler that labels its body gzip itself: its bytes are the identity body, the label is replaced *)
Example ex_handler_label_replaced :
  fst (clone_std (cresp_new (N.iter 60 (cons 97) []) (Some (B "text/html")) (Some (B "gzip")) true) (Some (B "br")) (opts PZstd))
  = Sent (Some (B "br")) (enc_tag Br 4 (N.iter 60 (cons 97) [])) (Alg Br) /\
  fst (clone_std (cresp_new [] (Some (B "text/html")) (Some (B "gzip")) true) (Some (B "br")) (opts PZstd))
  = Sent (Some (B "gzip")) [] Identity.
Proof. vm_compute. split; reflexivity. Qed.
Definition ex_page (status : N) : page :=
  mkPage (N.iter 60 (cons 97) []) (Some (B "text/html")) None status true true (mkOptions PZstd 1 3 1) (opts PZstd).
Example ex_memo_second_request :
  serve_groups parse_q_dec parse_mime_std enc_tag (ex_page 200) None
    [((MGet, Some (B "identity")), 1%nat); ((MHead, Some (B "gzip")), 1%nat); ((MGet, Some (B "gzip, br")), 1%nat);
     ((MGet, Some (B "gzip")), 3%nat); ((MOther, Some (B "gzip")), 1%nat)]
  = let b := pg_body (ex_page 200) in
    [[(Sent (Some (B "identity")) b Identity, false)];
     [(Sent (Some (B "gzip")) (enc_tag Gzip 2 b) (Alg Gzip), false)];
     [(Sent (Some (B "br")) (enc_tag Br 4 b) (Alg Br), false)];
     [(Sent (Some (B "gzip")) (enc_tag Gzip 2 b) (Alg Gzip), true); (Sent (Some (B "gzip")) (enc_tag Gzip 2 b) (Alg Gzip), true);
      (Sent (Some (B "gzip")) (enc_tag Gzip 2 b) (Alg Gzip), true)];
     [(Sent (Some (B "gzip")) (enc_tag Gzip 1 b) (Alg Gzip), false)]].
Proof. vm_compute. reflexivity. Qed.
(** a status that is not admitted to the cache (403): nothing is memoised; 404 is *)
Example ex_status_and_cache :
  map (map snd) (serve_groups parse_q_dec parse_mime_std enc_tag (ex_page 403) None
                   [((MGet, Some (B "gzip")), 1%nat); ((MGet, Some (B "gzip")), 1%nat)]) = [[false]; [false]] /\
  map (map snd) (serve_groups parse_q_dec parse_mime_std enc_tag (ex_page 404) None
                   [((MGet, Some (B "gzip")), 1%nat); ((MGet, Some (B "gzip")), 1%nat)]) = [[false]; [true]].
Proof. vm_compute. split; reflexivity. Qed.
(** the specification: what it demands for the three kinds of answer *)
Example ex_spec_verdicts :
  let sv := spec_verdict parse_q_dec parse_mime_std (ex_page 200) in
  sv (Some (B "identity;q=0, deflate")) = mkVerdict true false [] /\
  sv (Some (B "identity;q=0, br, gzip;q=0")) = mkVerdict false false [Br] /\
  sv (Some (B "gzip, zstd")) = mkVerdict false true [Zstd; Gzip] /\
  sv None = mkVerdict false true [].
Proof. vm_compute. repeat split; reflexivity. Qed.
(** hypotheses of [lossless_partial] and [list_header_wf] are satisfiable *)
Example ex_encoder_hypotheses :
  (forall a level b, dec_tag a (enc_tag a level b) = b) /\ (forall a level b, enc_tag a level b <> []).
Proof. split; [reflexivity|discriminate]. Qed.
Example ex_parse_q_numberish : forall s c, parse_q_dec s <> None -> In c s -> numberish c = true.
Proof. exact parse_q_dec_numberish. Qed.
Example ex_wf_members :
  let ms := [mkMember [] (B "gzip") (Some (B " ", B "  ", B "0.000")) (B " ");
             mkMember [32; 9] (B "br") None [];
             mkMember [] (B "identity") (Some ([], B " ", B "0.5")) [9]] in
  forallb member_ok ms = true /\
  list_header parse_q_dec (members_text ms) = [(B "gzip", QZero); (B "br", QOne); (B "identity", QOther)].
Proof. vm_compute. split; reflexivity. Qed.
(** three tasks race on an empty cell: task 0 takes the permit, task 1 finds it taken and waits (its turns are
    skipped), task 0 compresses and stores, tasks 2 and 1 find the cell filled *)
Example ex_memo_race :
  let st := mrun [B "v"; B "w"; B "x"] (minit None 3) [0; 1; 0; 1; 1; 0; 2; 0; 1; 2; 1]%nat in
  m_cell st = Some (B "v") /\ m_pcs st = [PDone (Ok (B "v")); PDone (Ok (B "v")); PDone (Ok (B "v"))] /\ m_lock st = false.
Proof. vm_compute. repeat split; reflexivity. Qed.
