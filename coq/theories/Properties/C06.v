(** C06 — Compression is lossless, correctly labelled and only what the client accepts.
    Only statements here; proofs are in Proofs/NegotiateProofs.v and Proofs/ListHeaderProofs.v.

    Every theorem quantifies over the three external functions
      [parse_q]    : [f32::from_str] + the tests [== 0.0] / [== 1.0] made on its result,
      [parse_mime] : [Mime::from_str],
      [enc]        : the encoders (algorithm, level, body),
    so it holds for the real ones whatever they do; only [lossless] assumes something about [enc]
    (a decoder inverts it and its output is never empty) — that part is validated on every run by
    the standard decoders of flate2 / brotli / zstd, not proved (partial). *)
From KV Require Import Bytes RustInt Range Negotiate NegotiateProofs ListHeaderProofs.
Open Scope N_scope.

Section C06.
  Variable parse_q : bytes -> option qclass.
  Variable parse_mime : bytes -> option mime.
  Variable enc : alg -> N -> bytes -> bytes.
  Notation clone := (clone_preferred parse_q parse_mime enc).

  (** The coding chosen is identity, or one of gzip / br / zstd that [list_header] found in the
      Accept-Encoding value with a quality that is not 0.0. *)
  Theorem chosen_is_listed : forall c ae o l b ch c',
    clone c ae o = (Sent l b ch, c') ->
    ch = Identity \/
    exists a h q, ch = Alg a /\ ae = Some h /\ to_str_ok h = true /\
                  In (alg_name a, q) (list_header parse_q h) /\ q <> QZero.
  Proof. exact (chosen_is_listed_l parse_q parse_mime enc). Qed.

  (** Safety form for arbitrary header text: the name of a chosen algorithm occurs in the header. *)
  Theorem chosen_occurs_in_header : forall c ae o l b a c',
    clone c ae o = (Sent l b (Alg a), c') -> exists h, ae = Some h /\ substr (alg_name a) h.
  Proof.
    intros c ae o l b a c' H. destruct (chosen_is_listed _ _ _ _ _ _ _ H) as [E|[a' [h [q [E [-> [_ [Hin _]]]]]]]]; [discriminate|].
    inversion E; subst a'. exists h. split; [reflexivity|].
    pose proof (list_header_values_substr_l parse_q true h) as Hall. rewrite Forall_forall in Hall. exact (Hall _ Hin).
  Qed.

  (** A coding whose every occurrence in the list has quality 0.0 is never chosen.  (Listed twice,
      once with q=0 and once without, it may be chosen: [contains] is an [any].) *)
  Theorem never_refused : forall c ae o l b a c',
    clone c ae o = (Sent l b (Alg a), c') ->
    ~ (forall q, In (alg_name a, q) (header_values parse_q ae) -> q = QZero).
  Proof. exact (never_refused_l parse_q parse_mime enc). Qed.

  (** [identity;q=0]: once past the opt-out / size floor, identity is never sent to a client that
      lists identity with quality 0.0.  ([*;q=0] is not interpreted and the floor comes first: see the
      examples [star_is_not_interpreted] and [floor_beats_refusal] below.) *)
  Theorem identity_refusal_honoured : forall c ae o r c',
    cr_compress c = true -> In (s_identity, QZero) (header_values parse_q ae) ->
    clone c ae o = (r, c') -> forall l b, r <> Sent l b Identity.
  Proof. exact (identity_refusal_l parse_q parse_mime enc). Qed.

  (** Body under 50 bytes or handler opted out: the identity body, labelled [identity]
      (unlabelled when empty), whatever the client sent; no memo cell is touched. *)
  Theorem floors : forall body ct compress ae o,
    (length body < 50)%nat \/ compress = false ->
    clone (cresp_new body ct compress) ae o =
    (Sent (match body with [] => None | _ => Some s_identity end) body Identity, cresp_new body ct compress).
  Proof. exact (floors_l parse_q parse_mime enc). Qed.

  (** Content type absent, unparsable or filtered by [do_compress]: never a compressed body — the
      identity body, or 406 when the client refuses identity. *)
  Theorem floors_content_type : forall c ae o r c',
    compressible parse_mime c = false -> clone c ae o = (r, c') ->
    c' = c /\ (r = NotAcceptable \/
               r = Sent (match cr_body c with [] => None | _ => Some s_identity end) (cr_body c) Identity).
  Proof. exact (floors_ctype_l parse_q parse_mime enc). Qed.

  (** The label names exactly the coding whose bytes are sent: identity <-> the identity body,
      algorithm a <-> an output of a's encoder on the identity body, which is also what a's memo
      cell holds afterwards; the label is omitted only for an empty body. *)
  Theorem label_matches_body : forall c ae o l b ch c',
    cells_ok enc c -> clone c ae o = (Sent l b ch, c') ->
    l = match b with [] => None | _ => Some (coding_name ch) end /\
    match ch with
    | Identity => b = cr_body c /\ c' = c
    | Alg a => (exists level, b = enc a level (cr_body c)) /\ cell_get a c' = Some b
    end /\
    cells_ok enc c' /\ cr_body c' = cr_body c /\ cr_compress c' = cr_compress c /\ cr_ctype c' = cr_ctype c.
  Proof. exact (label_matches_body_l parse_q parse_mime enc). Qed.

  (** A filled cell is what every later request of that algorithm gets (no second encoder run). *)
  Theorem memoised_bytes_reused : forall a level c b, cell_get a c = Some b -> get_alg enc a level c = (b, c).
  Proof. exact (get_alg_memo enc). Qed.

  (** Losslessness over every history of requests of a page, cached or not, from a cold cache:
      each reply is 406 or decodes — with the decoder of the algorithm its label names — to the
      page's body.  PARTIAL: relative to the two hypotheses on the encoders. *)
  Theorem lossless_partial : forall dec : alg -> bytes -> bytes,
    (forall a level b, dec a (enc a level b) = b) -> (forall a level b, enc a level b <> []) ->
    forall pg reqs,
      Forall (fun r => r = NotAcceptable \/
                       exists l b ch, r = Sent l b ch /\ decode_label dec l b = Some (pg_body pg))
             (serve parse_q parse_mime enc pg None reqs).
  Proof. exact (lossless_l parse_q parse_mime enc). Qed.

  (** 406 <=> past the floor/opt-out, identity listed with quality 0.0, and nothing else applies
      (content type not compressible, or none of zstd / br / gzip listed with non-zero quality). *)
  Theorem not_acceptable_iff : forall c ae o,
    fst (clone c ae o) = NotAcceptable <->
    cr_compress c = true /\ In (s_identity, QZero) (header_values parse_q ae) /\
    (compressible parse_mime c = false \/ forall a, contains (header_values parse_q ae) (alg_name a) = false).
  Proof. exact (not_acceptable_iff_l parse_q parse_mime enc). Qed.

  (** Which algorithm: the preferred one whenever the client lists it, otherwise zstd, br, gzip. *)
  Theorem preference_order : forall p cz cb cg,
    pick p cz cb cg =
    match p with
    | PZstd => if cz then Some Zstd else if cb then Some Br else if cg then Some Gzip else None
    | PBr => if cb then Some Br else if cz then Some Zstd else if cg then Some Gzip else None
    | PGzip => if cg then Some Gzip else if cz then Some Zstd else if cb then Some Br else None
    | PNone => if cz then Some Zstd else if cb then Some Br else if cg then Some Gzip else None
    end.
  Proof. exact pick_order. Qed.

  (** On the RFC 7231 grammar — members [OWS name [OWS ";" OWS "q=" qvalue] OWS] separated by "," —
      [list_header] is the reference parse (name, value of the weight or 1.0), provided number
      parsing only accepts number characters (true of [f32::from_str]) and no name consists of
      number characters only (a weightless member is given the value of the text before it). *)
  Theorem list_header_wf :
    (forall s c, parse_q s <> None -> In c s -> numberish c = true) ->
    forall ms, ms <> [] -> forallb member_ok ms = true ->
    list_header parse_q (members_text ms) = map (member_ref parse_q) ms.
  Proof. exact (list_header_wf_l parse_q). Qed.

  (** For C02: [list_header] returns for every byte string (every slice is the [get] form, the model
      has no panic to reach) and yields at most one value per ',' plus one ([Vec::with_capacity]). *)
  Theorem list_header_total : forall h,
    exists l, list_header parse_q h = l /\ (length l <= S (commas h))%nat.
  Proof. intros h. exists (list_header parse_q h). split; [reflexivity|apply list_header_length_l]. Qed.
End C06.

(** The memo cell ([UnsafeCell<Option<Bytes>>]: check; compute; check-and-write; read) under every
    sequentially consistent interleaving of n tasks inside the same [get_x], from an empty or a filled
    cell: the cell only ever holds a value satisfying P (instantiate P b := b = enc a level body), and
    every task that has returned returned such a value — never the unwrap panic.  The unsynchronised
    write is a data race in Rust's memory model; nothing is claimed about weaker executions. *)
Theorem memo_invariant : forall (P : bytes -> Prop) (vals : list bytes) (n : nat) (cell : option bytes) (sched : list nat),
  (forall i, (i < n)%nat -> P (nth i vals [])) -> (forall b, cell = Some b -> P b) ->
  let st := mrun vals (minit cell n) sched in
  (forall b, m_cell st = Some b -> P b) /\
  (forall i r, nth_error (m_pcs st) i = Some (PDone r) -> exists b, r = Ok b /\ P b).
Proof. intros P vals n cell sched Hv Hc. exact (memo_invariant_l P vals n Hv cell sched Hc). Qed.

Theorem memo_write_once : forall vals sched st b, m_cell st = Some b -> m_cell (mrun vals st sched) = Some b.
Proof. exact memo_write_once_l. Qed.

(** no task waits for another: four turns complete a task, so every fair schedule completes all *)
Theorem memo_completes : forall vals cell n sched,
  (forall i, (i < n)%nat -> (4 <= count_occ Nat.eq_dec sched i)%nat) ->
  forallb pc_done (m_pcs (mrun vals (minit cell n) sched)) = true.
Proof. exact memo_completes_l. Qed.

(** kvarn 0.6.3 before the repair (values and quality texts not trimmed): a header of the grammar on
    which [list_header] is not the reference parse — the refused gzip gets quality 1.0. *)
Theorem list_header_ows_v0_refuted :
  exists ms, ms <> [] /\ forallb member_ok ms = true /\
             list_header_gen parse_q_dec false (members_text ms) <> map (member_ref parse_q_dec) ms /\
             In (B "gzip", QOne) (list_header_gen parse_q_dec false (members_text ms)).
Proof.
  exists [mkMember [] (B "gzip") (Some ([], [], B "0")) (B " "); mkMember (B " ") (B "br") None []].
  split; [discriminate|]. split; [reflexivity|]. split; [vm_compute; discriminate|vm_compute; auto].
Qed.

(* ------------------------------------------------------------------------------------ *)
(** * Non-vacuity *)
Definition opts (p : pref) : options := mkOptions p 4 4 2.
Definition html (n : N) : cresp := cresp_new (N.iter n (cons 97) []) (Some (B "text/html")) true.
Notation clone_std := (clone_preferred parse_q_dec parse_mime_std enc_tag).

Example ex_chosen_preferred :
  fst (clone_std (html 60) (Some (B "gzip, br;q=0.5, zstd;q=0")) (opts PZstd))
  = Sent (Some (B "br")) (enc_tag Br 4 (cr_body (html 60))) (Alg Br).
Proof. vm_compute. reflexivity. Qed.
Example ex_refused_after_ows :
  fst (clone_std (html 60) (Some (B "gzip;q=0 , br")) (opts PGzip))
  = Sent (Some (B "br")) (enc_tag Br 4 (cr_body (html 60))) (Alg Br).
Proof. vm_compute. reflexivity. Qed.
Example ex_406 :
  fst (clone_std (html 60) (Some (B "identity;q=0, deflate")) (opts PZstd)) = NotAcceptable.
Proof. vm_compute. reflexivity. Qed.
Example star_is_not_interpreted :
  fst (clone_std (html 60) (Some (B "*;q=0")) (opts PZstd))
  = Sent (Some (B "identity")) (cr_body (html 60)) Identity.
Proof. vm_compute. reflexivity. Qed.
Example floor_beats_refusal :
  fst (clone_std (html 49) (Some (B "identity;q=0, gzip")) (opts PZstd))
  = Sent (Some (B "identity")) (cr_body (html 49)) Identity.
Proof. vm_compute. reflexivity. Qed.
Example ex_floor_50_compresses :
  fst (clone_std (html 50) (Some (B "gzip")) (opts PZstd))
  = Sent (Some (B "gzip")) (enc_tag Gzip 2 (cr_body (html 50))) (Alg Gzip).
Proof. vm_compute. reflexivity. Qed.
Example ex_image_not_compressed :
  fst (clone_std (cresp_new (N.iter 60 (cons 97) []) (Some (B "image/png")) true) (Some (B "gzip")) (opts PZstd))
  = Sent (Some (B "identity")) (N.iter 60 (cons 97) []) Identity.
Proof. vm_compute. reflexivity. Qed.
Example ex_memo_second_request :
  let pg := mkPage (N.iter 60 (cons 97) []) (Some (B "text/html")) true true (mkOptions PZstd 1 3 1) (opts PZstd) in
  serve parse_q_dec parse_mime_std enc_tag pg None [Some (B "identity"); Some (B "gzip"); Some (B "gzip, br")]
  = [Sent (Some (B "identity")) (pg_body pg) Identity;
     Sent (Some (B "gzip")) (enc_tag Gzip 2 (pg_body pg)) (Alg Gzip);
     Sent (Some (B "br")) (enc_tag Br 4 (pg_body pg)) (Alg Br)].
Proof. vm_compute. reflexivity. Qed.
(** hypotheses of [lossless_partial] and [list_header_wf] are satisfiable *)
Example ex_encoder_hypotheses :
  (forall a level b, dec_tag a (enc_tag a level b) = b) /\ (forall a level b, enc_tag a level b <> []).
Proof. split; [reflexivity|discriminate]. Qed.
Example ex_parse_q_numberish : forall s c, parse_q_dec s <> None -> In c s -> numberish c = true.
Proof. exact parse_q_dec_numberish. Qed.
Example ex_wf_members :
  let ms := [mkMember [] (B "gzip") (Some (B " ", B "  ", B "0.000")) (B " ");
             mkMember [32; 9] (B "br") None [];
             mkMember [] (B "identity") (Some ([], B " ", B "0.5")) [9]] in
  forallb member_ok ms = true /\
  list_header parse_q_dec (members_text ms) = [(B "gzip", QZero); (B "br", QOne); (B "identity", QOther)].
Proof. vm_compute. split; reflexivity. Qed.
(** three tasks race on an empty cell: interleaved checks, two encoder runs, one write wins,
    the third task finds the cell filled *)
Example ex_memo_race :
  let st := mrun [B "v"; B "v"; B "v"] (minit None 3) [0; 1; 0; 1; 1; 0; 2; 0; 1; 2; 2]%nat in
  m_cell st = Some (B "v") /\ m_pcs st = [PDone (Ok (B "v")); PDone (Ok (B "v")); PDone (Ok (B "v"))].
Proof. vm_compute. split; reflexivity. Qed.
