(** C06 — Compression is lossless, correctly labelled and only what the client accepts. *)
From KV Require Import Bytes RustInt Range Negotiate NegotiateProofs.
Open Scope N_scope.
