(** Proofs about Model/Ims.v: the [If-Modified-Since] test of [handle_cache] never panics for any header value
    (its only arithmetic is on the server's own clock), while the rewrite that does the arithmetic on the client's
    date panics for the last second of the year 9999. *)
From Coq Require Import ZArith Lia Bool List.
From KV Require Import Bytes RustInt Ims.
From KV Require Http1Read.
Import ListNotations.
Open Scope Z_scope.

Lemma odt_shift_in_range t delta : odt_min <= t + delta <= odt_max -> odt_shift t delta = Ok (t + delta).
Proof.
  intros [H1 H2]. unfold odt_shift.
  destruct (Z.leb_spec odt_min (t + delta)); [|lia]. destruct (Z.leb_spec (t + delta) odt_max); [|lia]. reflexivity.
Qed.

(** Every header value (absent, not text, not a date, any date): no panic, as long as the entry was not made in
    the very first second the [time] crate can represent. *)
Lemma ims_fresh_no_panic creation hdr :
  odt_min + 1 <= creation <= odt_max -> ims_fresh false creation hdr <> Panic.
Proof.
  intros Hc. unfold ims_fresh. destruct hdr as [v|]; [|discriminate].
  destruct (negb (Http1Read.hv_to_str_ok v)); [discriminate|].
  destruct (parse_http_date v) as [ts|]; [|discriminate].
  rewrite odt_shift_in_range by lia. cbn [obind]. discriminate.
Qed.

(** What the test decides: 304 exactly for a value that is text, parses as an HTTP date and is not older than the
    entry's creation minus one second. *)
Lemma ims_fresh_spec creation hdr :
  odt_min + 1 <= creation <= odt_max ->
  (ims_fresh false creation hdr = Ok true <->
   exists v ts, hdr = Some v /\ Http1Read.hv_to_str_ok v = true /\ parse_http_date v = Some ts /\ creation - 1 <= ts) /\
  (ims_fresh false creation hdr = Ok true \/ ims_fresh false creation hdr = Ok false).
Proof.
  intros Hc. unfold ims_fresh. destruct hdr as [v|].
  - destruct (Http1Read.hv_to_str_ok v) eqn:Ev; cbn [negb].
    + destruct (parse_http_date v) as [ts|] eqn:Ep.
      * rewrite odt_shift_in_range by lia. cbn [obind]. replace (creation + -1) with (creation - 1) by lia.
        destruct (Z.leb_spec (creation - 1) ts) as [Hle|Hgt].
        -- split; [|left; reflexivity]. split; [intros _; exists v, ts; repeat split; assumption|reflexivity].
        -- split; [|right; reflexivity]. split; [discriminate|].
           intros (v' & ts' & Hv & _ & Hp & Hle). inversion Hv; subst v'. rewrite Ep in Hp. inversion Hp; subst. lia.
      * split; [|right; reflexivity]. split; [discriminate|].
        intros (v' & ts' & Hv & _ & Hp & _). inversion Hv; subst v'. rewrite Ep in Hp. discriminate.
    + split; [|right; reflexivity]. split; [discriminate|].
      intros (v' & ts' & Hv & Hok & _). inversion Hv; subst v'. rewrite Ev in Hok. discriminate.
  - split; [|right; reflexivity]. split; [discriminate|]. intros (v' & ts' & Hv & _). discriminate.
Qed.

Definition last_second : bytes := Eval vm_compute in B "Fri, 31 Dec 9999 23:59:59 GMT".
Lemma parse_last_second : parse_http_date last_second = Some odt_max.
Proof. vm_compute. reflexivity. Qed.

(** The rewrite [timestamp + 1.seconds() >= creation]: the client's date is the operand; the largest date the
    format can express panics the connection task on a cache hit, whenever the entry was made. *)
Lemma ims_plus_variant_panics creation : ims_fresh true creation (Some last_second) = Panic.
Proof.
  unfold ims_fresh. replace (Http1Read.hv_to_str_ok last_second) with true by (vm_compute; reflexivity).
  cbn [negb]. rewrite parse_last_second. unfold odt_shift.
  destruct (Z.leb_spec (odt_max + 1) odt_max) as [H|_]; [lia|]. rewrite andb_false_r. reflexivity.
Qed.
