(** C10 — the start-up program of [execute] interleaved with traffic refines Model/Shutdown.v. *)
From Coq Require Import ZifyBool ZifyNat ZifyN.
From KV Require Import Shutdown ShutdownProofs ShutdownBoot.
Open Scope nat_scope.

(** ** Lists extended at the end *)
Lemma nth_error_app_l {A} (l p : list A) i x : nth_error l i = Some x -> nth_error (l ++ p) i = Some x.
Proof. intros H. rewrite nth_error_app1; [exact H|]. apply nth_error_Some. congruence. Qed.
Lemma upd_app_l {A} (l p : list A) i x y : nth_error l i = Some x -> upd i y (l ++ p) = upd i y l ++ p.
Proof.
  revert i; induction l as [|a l IH]; intros [|i] H; cbn [nth_error] in H; try discriminate; cbn [upd app]; [reflexivity|].
  rewrite (IH _ H). reflexivity.
Qed.
Lemma nth_error_app_mid {A} (l r : list A) a : nth_error (l ++ a :: r) (length l) = Some a.
Proof. induction l as [|b l IH]; cbn [length app nth_error]; auto. Qed.
Lemma upd_app_mid {A} (l r : list A) a y : upd (length l) y (l ++ a :: r) = l ++ y :: r.
Proof. induction l as [|b l IH]; cbn [length app upd]; [reflexivity|]. rewrite IH. reflexivity. Qed.

(** ** What holds of the manager and its threads while [execute] has not returned *)
Definition l_early (l : listener) : bool :=
  match l_pc l with LTop | LFlag | LWaker | LChecked | LParked | LGot | LCounted => true | _ => false end.

Lemma early_tok l : l_early l = true -> (1 <= ltok l)%Z.
Proof. unfold l_early, ltok. destruct (l_pc l) as [| | | | | | | |[]|]; intros H; try discriminate H; lia. Qed.

Lemma early_sum l : forallb l_early l = true -> l <> [] -> (1 <= sumZ (map ltok l))%Z.
Proof.
  destruct l as [|a l]; [congruence|]. cbn [forallb map sumZ]. intros H _. apply andb_true_iff in H as [H1 H2].
  pose proof (early_tok _ H1). pose proof (sumZ_nonneg ltok l ltok_nonneg). lia.
Qed.

Record innerJ (s : state) : Prop := {
  ij_S : gS s = false;
  ij_early : forallb l_early (ls s) = true;
  ij_conn : cs s <> [] -> ls s <> [] }.

Record bJ (w : bstate) : Prop := {
  bj_in : innerJ (b_in w);
  bj_count : (sumZ (map ltok (ls (b_in w))) + sumZ (map ctok (cs (b_in w))) + (match b_ph w with BCount => 0 | _ => 1 end)
              = gC (b_in w))%Z;
  bj_ph : b_ph w <> BCount -> b_k w < b_nl w }.

(** ** [extend] commutes with every step a thread can take before [execute] has returned *)
Lemma swapD_extend s p u : swapD (extend s p u) = extend (swapD s) p u.
Proof. unfold swapD. cbn [gD extend]. destruct (gD s); reflexivity. Qed.

Ltac ext_fin :=
  unfold extend, with_ls, with_cs, with_C, set_lpc;
  cbn [gS gD gC init_sent pre_count pre_sent want acks received finished comp ls cs callers hooks waiters l_pc l_slot l_woken l_queue];
  apply f_equal; f_equal; try reflexivity; try lia.

Lemma step_extend s lb s' p u :
  innerJ s -> (sumZ (map ltok (ls s)) + sumZ (map ctok (cs s)) <= gC s)%Z -> boot_label lb = true -> (0 <= u)%Z ->
  step repaired s lb = Some s' -> step repaired (extend s p u) lb = Some (extend s' p u).
Proof.
  intros [JS JE JC] JN BL U H.
  destruct lb as [i|i|i|c|c|k| |h|w]; try discriminate BL; cbn [step] in *.
  - (* LStep *)
    destruct (nth_error (ls s) i) as [l|] eqn:N; [|discriminate].
    cbn [ls extend]. rewrite (nth_error_app_l _ p _ _ N).
    pose proof (forallb_nth _ _ _ _ JE N) as E.
    unfold step_listener in *. destruct l as [pc slot woken q]. unfold l_early in E.
    cbn [l_pc l_slot l_woken l_queue fixA fixC repaired gS gC ls extend] in *. rewrite JS in *.
    destruct pc as [| | | | | | | |r|]; try discriminate E.
    + inversion H; subst. rewrite (upd_app_l _ p _ _ _ N). ext_fin.
    + inversion H; subst. rewrite (upd_app_l _ p _ _ _ N). ext_fin.
    + inversion H; subst. rewrite (upd_app_l _ p _ _ _ N). ext_fin.
    + unfold park in *; cbn [l_queue] in *. destruct q; [|discriminate]. cbn [option_map] in *.
      inversion H; subst. rewrite (upd_app_l _ p _ _ _ N). ext_fin.
    + destruct (woken || negb (q =? 0)); [|discriminate]. inversion H; subst. rewrite (upd_app_l _ p _ _ _ N). ext_fin.
    + inversion H; subst. cbn [ls with_C]. rewrite (upd_app_l _ p _ _ _ N). ext_fin.
    + inversion H; subst. cbn [ls with_ls cs]. rewrite (upd_app_l _ p _ _ _ N). ext_fin.
  - (* LTake *)
    destruct (nth_error (ls s) i) as [l|] eqn:N; [|discriminate].
    cbn [ls extend]. rewrite (nth_error_app_l _ p _ _ N).
    unfold step_take in *. destruct (l_queue l); [discriminate|]. destruct (can_take repaired (l_pc l)); [|discriminate].
    inversion H; subst. rewrite (upd_app_l _ p _ _ _ N). ext_fin.
  - (* EConn *)
    destruct (nth_error (ls s) i) as [l|] eqn:N; [|discriminate].
    cbn [ls extend]. rewrite (nth_error_app_l _ p _ _ N).
    destruct (l_bound l); [|discriminate]. inversion H; subst. rewrite (upd_app_l _ p _ _ _ N). ext_fin.
  - (* CStep *)
    cbn [cs extend]. destruct (nth_error (cs s) c) as [pc|] eqn:N; [|discriminate].
    unfold step_conn in *. destruct pc as [| | |r|]; try discriminate.
    + inversion H; subst. ext_fin.
    + inversion H; subst. ext_fin.
    + destruct r; cbn [rstep] in *.
      * (* the decrement: the count stays positive, whatever is added to it *)
        assert (NE : ls s <> []). { apply JC. intros E0. rewrite E0 in N. destruct c; discriminate. }
        pose proof (early_sum _ JE NE) as G1.
        pose proof (sumZ_ge_nth ctok _ _ _ ctok_nonneg N) as G2. cbn [ctok] in G2.
        cbn [gC extend] in *.
        assert (F1 : (gC s - 1 <=? 0)%Z = false) by lia.
        assert (F2 : (gC s + u - 1 <=? 0)%Z = false) by lia.
        rewrite F1 in H. rewrite F2. inversion H; subst. ext_fin.
      * cbn [gS extend] in *. rewrite JS in *. inversion H; subst. ext_fin.
      * rewrite swapD_extend. inversion H; subst.
        unfold swapD. destruct (gD s); ext_fin.
  - (* CPanic *)
    cbn [cs extend]. destruct (nth_error (cs s) c) as [pc|] eqn:N; [|discriminate].
    unfold step_panic in *. destruct pc; try discriminate. inversion H; subst. ext_fin.
Qed.

(** ** The invariant is kept *)
Definition tot (s : state) : Z := (sumZ (map ltok (ls s)) + sumZ (map ctok (cs s)))%Z.

Lemma upd_nonempty {A} (l : list A) i x y : nth_error l i = Some x -> upd i y l <> [].
Proof. destruct l as [|a l]; destruct i; cbn [nth_error upd]; congruence. Qed.
Lemma nth_nonempty {A} (l : list A) i x : nth_error l i = Some x -> l <> [].
Proof. destruct l; destruct i; cbn [nth_error]; congruence. Qed.

Lemma innerJ_l s s' i l l' :
  innerJ s -> nth_error (ls s) i = Some l -> l_early l' = true ->
  gS s' = gS s -> ls s' = upd i l' (ls s) -> innerJ s'.
Proof.
  intros [JS JE JC] N E E1 E2. constructor.
  - congruence.
  - rewrite E2. apply forallb_upd; auto.
  - intros _. rewrite E2. eapply upd_nonempty; eauto.
Qed.
Lemma innerJ_c s s' :
  innerJ s -> cs s <> [] -> gS s' = gS s -> ls s' = ls s -> innerJ s'.
Proof.
  intros [JS JE JC] N E1 E2. constructor.
  - congruence.
  - rewrite E2. exact JE.
  - intros _. rewrite E2. auto.
Qed.

Lemma swapD_tot s : tot (swapD s) = tot s.
Proof. unfold tot. rewrite swapD_ls, swapD_cs. reflexivity. Qed.

Ltac tot_l N :=
  unfold tot in *; cbn [with_ls with_cs with_C gC ls cs] in *;
  rewrite ?(sumZ_upd ltok _ _ _ _ N), ?sumZ_app1; cbn [ltok l_pc ctok set_lpc]; lia.
Ltac tot_c N :=
  unfold tot in *; cbn [with_ls with_cs with_C gC ls cs] in *;
  rewrite ?(sumZ_upd ctok _ _ _ _ N); cbn [ctok]; lia.

Lemma inner_step s lb s' e :
  innerJ s -> (tot s + e = gC s)%Z -> boot_label lb = true -> step repaired s lb = Some s' ->
  innerJ s' /\ (tot s' + e = gC s')%Z.
Proof.
  intros J T BL H. pose proof J as [JS JE JC].
  destruct lb as [i|i|i|c|c|k| |h|w]; try discriminate BL; cbn [step] in H.
  - (* LStep *)
    destruct (nth_error (ls s) i) as [l|] eqn:N; [|discriminate].
    pose proof (forallb_nth _ _ _ _ JE N) as E.
    unfold step_listener in H. destruct l as [pc slot woken q]. unfold l_early in E.
    cbn [l_pc l_slot l_woken l_queue fixA fixC repaired] in *. rewrite JS in H.
    destruct pc as [| | | | | | | |r|]; try discriminate E.
    + inversion H; subst. split; [eapply (innerJ_l s _ i _ _ J N); [ | reflexivity | reflexivity ]; reflexivity|tot_l N].
    + inversion H; subst. split; [eapply (innerJ_l s _ i _ _ J N); [ | reflexivity | reflexivity ]; reflexivity|tot_l N].
    + inversion H; subst. split; [eapply (innerJ_l s _ i _ _ J N); [ | reflexivity | reflexivity ]; reflexivity|tot_l N].
    + unfold park in H; cbn [l_queue] in H. destruct q; [|discriminate]. cbn [option_map] in H.
      inversion H; subst. split; [eapply (innerJ_l s _ i _ _ J N); [ | reflexivity | reflexivity ]; reflexivity|tot_l N].
    + destruct (woken || negb (q =? 0)); [|discriminate]. inversion H; subst.
      split; [eapply (innerJ_l s _ i _ _ J N); [ | reflexivity | reflexivity ]; reflexivity|tot_l N].
    + inversion H; subst. split; [eapply (innerJ_l s _ i _ _ J N); [ | reflexivity | reflexivity ]; reflexivity|tot_l N].
    + inversion H; subst. split; [eapply (innerJ_l s _ i _ _ J N); [ | reflexivity | reflexivity ]; reflexivity|tot_l N].
  - (* LTake *)
    destruct (nth_error (ls s) i) as [l|] eqn:N; [|discriminate].
    unfold step_take in H. destruct l as [pc slot woken q]. cbn [l_pc l_slot l_woken l_queue] in H.
    destruct q; [discriminate|]. destruct (can_take repaired pc) eqn:CT; [|discriminate]. inversion H; subst.
    split; [eapply (innerJ_l s _ i _ _ J N); [ | reflexivity | reflexivity ]; reflexivity|].
    destruct pc as [| | | | | | | |r|]; cbn in CT; try discriminate; tot_l N.
  - (* EConn *)
    destruct (nth_error (ls s) i) as [l|] eqn:N; [|discriminate].
    pose proof (forallb_nth _ _ _ _ JE N) as E.
    destruct (l_bound l); [|discriminate]. inversion H; subst.
    split; [eapply (innerJ_l s _ i _ _ J N); [ | reflexivity | reflexivity ]; exact E|]. destruct l as [pc slot woken q].
    unfold tot in *; cbn [with_ls gC ls cs l_pc l_slot l_woken l_queue] in *. rewrite (sumZ_upd ltok _ _ _ _ N). unfold ltok at 2 3; cbn [l_pc]. lia.
  - (* CStep *)
    destruct (nth_error (cs s) c) as [pc|] eqn:N; [|discriminate].
    pose proof (nth_nonempty _ _ _ N) as NE.
    unfold step_conn in H. destruct pc as [| | |r|]; try discriminate.
    + inversion H; subst. split; [eapply innerJ_c; eauto; reflexivity|tot_c N].
    + inversion H; subst. split; [eapply innerJ_c; eauto; reflexivity|tot_c N].
    + destruct r; cbn [rstep] in H.
      * inversion H; subst. split; [eapply innerJ_c; eauto; reflexivity|].
        destruct (gC s - 1 <=? 0)%Z; tot_c N.
      * rewrite JS in H. inversion H; subst. split; [eapply innerJ_c; eauto; reflexivity|tot_c N].
      * inversion H; subst. split.
        -- eapply innerJ_c; eauto; cbn [with_cs gS ls]; [apply swapD_S|apply swapD_ls].
        -- pose proof (swapD_tot s) as ST. pose proof (swapD_C s) as SC. pose proof (swapD_cs s) as SCS.
           assert (N2 : nth_error (cs (swapD s)) c = Some (CRem RSwap)) by (rewrite SCS; exact N).
           unfold tot in *. cbn [with_cs gC ls cs]. rewrite swapD_ls in *. rewrite (sumZ_upd ctok _ _ _ _ N2).
           rewrite SCS in *. cbn [ctok]. lia.
  - (* CPanic *)
    destruct (nth_error (cs s) c) as [pc|] eqn:N; [|discriminate].
    pose proof (nth_nonempty _ _ _ N) as NE.
    unfold step_panic in H. destruct pc; try discriminate. cbn [fixB repaired] in H. inversion H; subst.
    split; [eapply innerJ_c; eauto; reflexivity|tot_c N].
Qed.

Lemma bJ_init nl nc nh nw : bJ (binit nl nc nh nw).
Proof.
  constructor; cbn [binit b_in b_ph b_k b_nl].
  - constructor; cbn; [reflexivity|reflexivity|congruence].
  - cbn. reflexivity.
  - congruence.
Qed.

Lemma bJ_step w lb w' : bJ w -> bstep w lb = Some w' -> bJ w'.
Proof.
  intros [J T P] H. pose proof J as [JS JE JC]. destruct lb as [| |lb]; cbn [bstep] in H.
  - (* execute *)
    destruct (b_done w) eqn:Dn; [discriminate|]. unfold b_done in Dn. apply Nat.leb_gt in Dn.
    destruct (b_ph w) eqn:Ph; inversion H; subst; clear H.
    + constructor; cbn [with_in b_in b_ph b_k b_nl]; [constructor; cbn [with_C gS ls cs]; auto| |auto].
      cbn [with_C gC ls cs]. lia.
    + constructor; cbn [with_in b_in b_ph b_k b_nl]; auto.
    + constructor; cbn [with_in b_in b_ph b_k b_nl]; [constructor; cbn [with_ls gS ls cs]; auto| |congruence].
      * rewrite forallb_app1, JE. reflexivity.
      * intros _ E0. apply app_eq_nil in E0 as [_ E0]. discriminate.
      * cbn [with_ls gC ls cs]. rewrite sumZ_app1. cbn [ltok spawned_listener l_pc]. lia.
  - (* a client of the bound listener *)
    destruct (b_done w) eqn:Dn; [discriminate|].
    destruct (b_ph w) eqn:Ph; try discriminate. inversion H; subst; clear H.
    constructor; cbn [with_in b_in b_ph b_k b_nl]; auto.
  - (* the threads that exist *)
    destruct (boot_label lb) eqn:BL; [|discriminate].
    destruct (step repaired (b_in w) lb) as [s'|] eqn:St; [|discriminate]. inversion H; subst; clear H.
    destruct (inner_step _ _ _ _ J T BL St) as [J' T'].
    constructor; cbn [with_in b_in b_ph b_k b_nl]; auto.
Qed.

Lemma bJ_reachable nl nc nh nw w : breachable nl nc nh nw w -> bJ w.
Proof. induction 1 as [|w lb w' R IH H]; [apply bJ_init|eapply bJ_step; eauto]. Qed.

(** ** Refinement *)
Lemma flat_init nl nc nh nw : flat (binit nl nc nh nw) = init repaired nl nc nh nw.
Proof.
  unfold flat, pending, uncounted, binit, init, extend. cbn [b_in b_ph b_k b_nl b_q gS gD gC init_sent pre_count pre_sent want acks received
    finished comp ls cs callers hooks waiters fixA repaired repeat app].
  rewrite Nat.sub_0_r. f_equal.
Qed.

Lemma extend_nil s : extend s [] 0 = s.
Proof. destruct s. unfold extend. cbn. f_equal; [lia|apply app_nil_r]. Qed.

Lemma flat_done w : bJ w -> b_done w = true -> flat w = b_in w.
Proof.
  intros [_ _ P] Dn. unfold b_done in Dn. apply Nat.leb_le in Dn.
  assert (Ph : b_ph w = BCount). { destruct (b_ph w) eqn:E; auto; assert (b_k w < b_nl w) by (apply P; congruence); lia. }
  unfold flat, pending, uncounted. rewrite Ph.
  replace (b_nl w - b_k w) with 0 by lia. apply extend_nil.
Qed.

Lemma extend_extend_eq s p p' u u' : p = p' -> u = u' -> extend s p u = extend s p' u'.
Proof. intros -> ->. reflexivity. Qed.

Lemma flat_step w lb w' :
  bJ w -> bstep w lb = Some w' -> flat w' = flat w \/ exists l, step repaired (flat w) l = Some (flat w').
Proof.
  intros BJ H. pose proof BJ as [J T P]. destruct lb as [| |lb]; cbn [bstep] in H.
  - left. destruct (b_done w) eqn:Dn; [discriminate|]. unfold b_done in Dn. apply Nat.leb_gt in Dn.
    unfold flat, pending, uncounted.
    destruct (b_ph w) eqn:Ph; inversion H; subst; clear H; cbn [with_in b_in b_ph b_k b_nl b_q].
    + unfold extend. cbn [with_C gS gD gC init_sent pre_count pre_sent want acks received finished comp ls cs callers hooks waiters].
      f_equal. lia.
    + apply extend_extend_eq; [|reflexivity].
      remember (b_nl w - b_k w - 1) as m eqn:Em. replace (b_nl w - b_k w) with (S m) by lia. reflexivity.
    + unfold extend. cbn [with_ls gS gD gC init_sent pre_count pre_sent want acks received finished comp ls cs callers hooks waiters].
      f_equal; [lia|]. rewrite <- app_assoc. cbn [app]. do 3 f_equal. lia.
  - right. destruct (b_done w) eqn:Dn; [discriminate|].
    destruct (b_ph w) eqn:Ph; try discriminate. inversion H; subst; clear H.
    exists (EConn (length (ls (b_in w)))).
    unfold flat, pending, uncounted. cbn [with_in b_in b_ph b_k b_nl b_q]. rewrite Ph.
    cbn [step ls extend]. rewrite nth_error_app_mid. cbn [l_bound spawned_listener l_pc l_slot l_woken l_queue].
    rewrite upd_app_mid. reflexivity.
  - right. destruct (boot_label lb) eqn:BL; [|discriminate].
    destruct (step repaired (b_in w) lb) as [s'|] eqn:St; [|discriminate]. inversion H; subst; clear H.
    exists lb. unfold flat, pending, uncounted. cbn [with_in b_in b_ph b_k b_nl b_q].
    apply step_extend; auto; try lia.
    destruct (b_ph w); lia.
Qed.

Lemma boot_refines nl nc nh nw w : breachable nl nc nh nw w -> reachable repaired (flat w).
Proof.
  induction 1 as [|w lb w' R IH H].
  - rewrite flat_init. apply reach_init.
  - destruct (flat_step _ _ _ (bJ_reachable _ _ _ _ _ R) H) as [E|[l St]].
    + rewrite E. exact IH.
    + eapply reach_step; eauto.
Qed.

(** when [execute] returns the manager, the state of the real machine IS a reachable state of Model/Shutdown.v *)
Lemma booted_reachable nl nc nh nw w : breachable nl nc nh nw w -> b_done w = true -> reachable repaired (b_in w).
Proof.
  intros R Dn. rewrite <- (flat_done w); auto; [apply (boot_refines _ _ _ _ _ R)|eapply bJ_reachable; eauto].
Qed.

Lemma breachable_run nl nc nh nw w sched w' : breachable nl nc nh nw w -> brun w sched = Some w' -> breachable nl nc nh nw w'.
Proof.
  revert w; induction sched as [|lb r IH]; cbn [brun]; intros w R H.
  - inversion H; subst; exact R.
  - destruct (bstep w lb) as [w1|] eqn:E; [|discriminate]. eapply IH; [|exact H]. eapply breach_step; eauto.
Qed.

(** while [execute] has not returned: shutdown has not been requested, the signal has not been sent, and the
    count is at least the number of accept loops spawned plus the connections accepted and not ended *)
Lemma boot_quiet nl nc nh nw w :
  breachable nl nc nh nw w -> gS (b_in w) = false /\ (tot (b_in w) <= gC (b_in w))%Z /\ forallb l_early (ls (b_in w)) = true.
Proof.
  intros R. destruct (bJ_reachable _ _ _ _ _ R) as [[JS JE JC] T P]. repeat split; auto.
  unfold tot. destruct (b_ph w); lia.
Qed.

(** the theorems of C10 for a server whose start-up was interleaved with traffic in any way *)
Lemma startup_then_shutdown nl nc nh nw w sched s :
  breachable nl nc nh nw w -> b_done w = true -> run repaired (b_in w) sched = Some s ->
  (finished s = true -> all_done s = true /\ forallb (fun l => negb (l_bound l)) (ls s) = true) /\
  (requested s = true -> quiescent repaired s -> completed s = true).
Proof.
  intros R Dn Hr. pose proof (reachable_run _ _ _ _ (booted_reachable _ _ _ _ _ R Dn) Hr) as Rs.
  split.
  - intros F. split; [apply finished_after_all|apply finished_listeners_closed]; auto.
  - intros Rq Q. apply no_hang; auto.
Qed.

Lemma startup_not_requested nl nc nh nw w : breachable nl nc nh nw w -> requested (b_in w) = false.
Proof. intros R. unfold requested. apply (boot_quiet _ _ _ _ _ R). Qed.
