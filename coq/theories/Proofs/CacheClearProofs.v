(** C04 — proofs about the designated clears (Model/CacheClear.v). *)
From KV Require Import Bytes RustInt Range CacheControl Cache CacheProofs Cache04Proofs Fixture CacheX CacheXProofs Hosts HostsProofs
     CacheClear.
From Coq Require Import ZifyBool ZifyNat ZifyN Lia.
Open Scope N_scope.

(** ---- the collection of the fixture and its two lookups ---- *)
Lemma fixture_collection_built own dflt : build (fixture_ops own dflt) = Ok (fixture_collection own dflt).
Proof. destruct dflt; reflexivity. Qed.

Lemma s_default_text : s_default = B "default".
Proof. reflexivity. Qed.

Lemma fixture_get_host own dflt name :
  get_host V1 (fixture_collection own dflt) name = Ok (if beq name own then Some (fixture_host own) else None).
Proof.
  unfold get_host, fixture_collection. cbn [c_inserts c_by_name resolve hm_get Nat.of_num_uint].
  change (Pos.to_nat 1) with 1%nat. cbn [resolve hm_get]. rewrite (beq_sym own name).
  destruct (beq name own); reflexivity.
Qed.

Lemma fixture_get_default own dflt :
  get_default V1 (fixture_collection own dflt) = Ok (if dflt then Some (fixture_host own) else None).
Proof.
  unfold get_default. destruct dflt; cbn [c_default fixture_collection]; [|reflexivity].
  change (get_host V1 (fixture_collection own true) own = Ok (Some (fixture_host own))).
  rewrite fixture_get_host, beq_refl. reflexivity.
Qed.

Lemma fixture_clear_target own dflt name :
  clear_target V1 (fixture_collection own dflt) name =
  Ok (if is_default_name name then (if dflt then Some (fixture_host own) else None)
      else if beq name own then Some (fixture_host own) else None).
Proof.
  unfold clear_target, is_default_name. destruct name as [|b name].
  - cbn [beq orb]. apply fixture_get_default.
  - change (beq (b :: name) []) with false. cbn [orb].
    destruct (beq (b :: name) s_default); [apply fixture_get_default | apply fixture_get_host].
Qed.

Lemma designates_spec own dflt name :
  designates (fixture_collection own dflt) name = spec_designates own dflt name.
Proof.
  unfold designates, spec_designates. rewrite fixture_clear_target. unfold is_default_name. rewrite s_default_text.
  destruct (beq name [] || beq name (B "default")).
  - destruct dflt; reflexivity.
  - destruct (beq name own); reflexivity.
Qed.

Lemma fixture_clear_all_targets own dflt flt :
  clear_all_targets (fixture_collection own dflt) flt = if spec_filter_reaches own flt then [fixture_host own] else [].
Proof.
  unfold clear_all_targets, stored_hosts, spec_filter_reaches. cbn [fixture_collection c_by_name flat_map snd app List.filter hname fixture_host].
  destruct flt as [f|]; [destruct (beq f own)|]; reflexivity.
Qed.

Lemma filter_reaches_spec own dflt flt :
  filter_reaches (fixture_collection own dflt) flt = spec_filter_reaches own flt.
Proof. unfold filter_reaches. rewrite fixture_clear_all_targets. destruct (spec_filter_reaches own flt); reflexivity. Qed.

(** ---- generic facts about the designated step ---- *)
Section Generic.
  Variable hstate : Type.
  Variable step : statex hstate -> N -> opx -> statex hstate * N * obsx.
  Variable cache_on : bool.

  Lemma stepD_stepS own dflt st now o :
    stepD hstate step cache_on (fixture_collection own dflt) st now o = stepS hstate step cache_on own dflt st now o.
  Proof. destruct o; cbn [stepD stepS]; rewrite ?designates_spec, ?filter_reaches_spec; reflexivity. Qed.

  Lemma runD_runS own dflt ops : forall st now,
    runD hstate step cache_on (fixture_collection own dflt) st now ops = runS hstate step cache_on own dflt st now ops.
  Proof.
    induction ops as [|o ops IH]; intros st now; [reflexivity|]. cbn [runD runS]. rewrite stepD_stepS.
    destruct (stepS hstate step cache_on own dflt st now o) as [[st' now'] ob]. rewrite IH. reflexivity.
  Qed.

  Variable col : collection.
  (** a wait of 0 ms is no operation *)
  Hypothesis Hwait0 : forall st now, fst (step st now (XWait 0)) = (st, now).

  Lemma stepD_erase st now o :
    fst (stepD hstate step cache_on col st now o) = fst (step st now (erase cache_on col o)).
  Proof.
    destruct o as [r|name r|flt|ms]; cbn [stepD erase]; try reflexivity.
    - destruct (designates col name); cbn [andb].
      + destruct (is_default_name name && negb cache_on); cbn [negb fst]; [rewrite Hwait0|]; reflexivity.
      + cbn [fst]. rewrite Hwait0. reflexivity.
    - destruct (filter_reaches col flt); [reflexivity|]. cbn [fst]. rewrite Hwait0. reflexivity.
  Qed.

  Lemma runD_state_erase ops : forall st now,
    runD_state hstate step cache_on col st now ops = iter_state hstate step st now (map (erase cache_on col) ops).
  Proof.
    induction ops as [|o ops IH]; intros st now; [reflexivity|]. cbn [runD_state iter_state map].
    pose proof (stepD_erase st now o) as E.
    destruct (stepD hstate step cache_on col st now o) as [[st' now'] ob].
    destruct (step st now (erase cache_on col o)) as [[st2 now2] ob2]. cbn [fst] in E. inversion E; subst. apply IH.
  Qed.

  (** the legacy operations (by the host's own name, without a filter) act as the plain ones whenever the lookups find the host *)
  Lemma runD_embed own ops : designates col own = true -> is_default_name own = false -> filter_reaches col None = true ->
    forall st now, runD hstate step cache_on col st now (map (embed own) ops) = iter_obs hstate step st now ops.
  Proof.
    intros Hd Hn Hf. induction ops as [|o ops IH]; intros st now; [reflexivity|]. cbn [map runD iter_obs].
    assert (E : stepD hstate step cache_on col st now (embed own o) = step st now o).
    { destruct o; cbn [embed stepD]; rewrite ?Hd, ?Hn, ?Hf; reflexivity. }
    rewrite E. destruct (step st now o) as [[st' now'] ob]. rewrite IH. reflexivity.
  Qed.
End Generic.

(** ---- over the cache layer of CacheX ---- *)
Section OverX.
  Variable hstate : Type.
  Variable compute : hstate -> request -> option (bytes * option bytes) -> bool -> fatx * hstate * list bytes.
  Variable cache_on ims_on : bool.
  Variable fix_vary fix_ovkey fix_clear fix_svary fix_qmkey fix_ims : bool.
  Variable sfilter : N -> bool.
  Variable parse_ims : bytes -> option Z.
  Variable sanitize_ok : request -> bool.
  Variable prime : request -> request.
  Variable override : request -> option (bytes * option bytes).
  Variable negotiate : request -> fatx -> option (N * bytes).
  Variable vary_tuple : request -> option (bytes * option bytes) -> tuple.
  Variable vary_header : request -> option (bytes * option bytes) -> fatx -> list (bytes * bytes).
  Variable clear_alias : request -> option request.
  Notation stepA := (stepX hstate compute cache_on ims_on fix_vary fix_ovkey fix_clear fix_svary fix_qmkey fix_ims sfilter parse_ims
                           sanitize_ok prime override negotiate vary_tuple vary_header clear_alias).
  Notation runA := (runX hstate compute cache_on ims_on fix_vary fix_ovkey fix_clear fix_svary fix_qmkey fix_ims sfilter parse_ims
                         sanitize_ok prime override negotiate vary_tuple vary_header clear_alias).
  Notation runA_state := (runX_state hstate compute cache_on ims_on fix_vary fix_ovkey fix_clear fix_svary fix_qmkey fix_ims sfilter
                                     parse_ims sanitize_ok prime override negotiate vary_tuple vary_header clear_alias).

  Lemma stepX_wait0 st now : fst (stepA st now (XWait 0)) = (st, now).
  Proof. cbn [stepX fst]. rewrite N.add_0_r. reflexivity. Qed.

  Lemma iter_obs_runX ops : forall st now, iter_obs hstate stepA st now ops = runA st now ops.
  Proof.
    induction ops as [|o ops IH]; intros st now; [reflexivity|]. cbn [iter_obs runX].
    destruct (stepA st now o) as [[st' now'] ob]. rewrite IH. reflexivity.
  Qed.
  Lemma iter_state_runX ops : forall st now, iter_state hstate stepA st now ops = runA_state st now ops.
  Proof.
    induction ops as [|o ops IH]; intros st now; [reflexivity|]. cbn [iter_state runX_state].
    destruct (stepA st now o) as [[st' now'] ob]. rewrite IH. reflexivity.
  Qed.

  (** every designated history leaves the state its erased plain history leaves *)
  Lemma designated_history_erases_x col ops st now :
    runD_state hstate stepA cache_on col st now ops = runA_state st now (map (erase cache_on col) ops).
  Proof. rewrite (runD_state_erase hstate stepA cache_on col stepX_wait0). apply iter_state_runX. Qed.

  Lemma designated_own_name_is_plain_x own dflt ops st now : is_default_name own = false ->
    runD hstate stepA cache_on (fixture_collection own dflt) st now (map (embed own) ops) = runA st now ops.
  Proof.
    intros Hn. rewrite <- iter_obs_runX. apply runD_embed.
    - rewrite designates_spec. unfold spec_designates. unfold is_default_name in Hn. rewrite s_default_text in Hn. rewrite Hn. apply beq_refl.
    - exact Hn.
    - rewrite filter_reaches_spec. reflexivity.
  Qed.
End OverX.

(** ---- the clause of the property: "not at all after an explicit clear of that page or host", as the caller names the host ---- *)
Section ClauseX.
  Variable hstate : Type.
  Variable compute : hstate -> request -> option (bytes * option bytes) -> bool -> fatx * hstate * list bytes.
  Variable ims_on : bool.
  Variable fix_ovkey fix_clear fix_svary : bool.
  Variable sfilter : N -> bool.
  Variable parse_ims : bytes -> option Z.
  Variable sanitize_ok : request -> bool.
  Variable prime : request -> request.
  Variable override : request -> option (bytes * option bytes).
  Variable negotiate : request -> fatx -> option (N * bytes).
  Variable vary_tuple : request -> option (bytes * option bytes) -> tuple.
  Variable vary_header : request -> option (bytes * option bytes) -> fatx -> list (bytes * bytes).
  Variable clear_alias : request -> option request.
  Variable own : bytes.
  Variable dflt : bool.
  Notation stepR := (stepX hstate compute true ims_on true fix_ovkey fix_clear fix_svary true true sfilter parse_ims
                           sanitize_ok prime override negotiate vary_tuple vary_header clear_alias).
  Notation serveR := (serveX hstate compute true ims_on true fix_ovkey fix_svary true true sfilter parse_ims sanitize_ok prime override
                             negotiate vary_tuple vary_header).
  Notation stepDR := (stepD hstate stepR true (fixture_collection own dflt)).

  Lemma clear_page_designated_recomputes c hs now name r0 r' :
    spec_designates own dflt name = true ->
    override r0 = None ->
    (path_query (prime r0) = path_query r' \/
     exists a, fix_clear = true /\ clear_alias r' = Some a /\ path_query (prime r0) = path_query a) ->
    stepDR (c, hs) now (DClearPage name r') =
      ((xclear_page fix_clear clear_alias r' c, hs), now, XbCleared true (xcleared fix_clear clear_alias r' c)) /\
    snd (serveR (xclear_page fix_clear clear_alias r' c, hs) now r0) = snd (compute hs (prime r0) None (sanitize_ok r0)).
  Proof.
    intros Hd Hov Hp. split.
    - cbn [stepD]. rewrite designates_spec, Hd. cbn [negb andb]. rewrite Bool.andb_false_r. reflexivity.
    - exact (clear_then_request_recomputes hstate compute ims_on fix_ovkey fix_clear fix_svary sfilter parse_ims sanitize_ok prime
               override negotiate vary_tuple vary_header clear_alias c hs now r0 r' Hov Hp).
  Qed.

  Lemma clear_reports_cleared r' c :
    (xc_find (key_pq r') c <> None \/ xc_find (key_p r') c <> None) -> xcleared fix_clear clear_alias r' c = true.
  Proof.
    intros H. unfold xcleared, xhas_uri.
    destruct (xc_find (key_pq r') c); [reflexivity|]. destruct (xc_find (key_p r') c); [reflexivity|].
    destruct H as [H|H]; contradiction H; reflexivity.
  Qed.

  Lemma clear_page_other_name_noop st now name r' :
    spec_designates own dflt name = false -> stepDR st now (DClearPage name r') = (st, now, XbCleared false false).
  Proof. intros Hd. cbn [stepD]. rewrite designates_spec, Hd. reflexivity. Qed.

  Lemma clear_all_other_filter_noop st now flt :
    spec_filter_reaches own flt = false -> stepDR st now (DClearAll flt) = (st, now, XbNone).
  Proof. intros Hf. cbn [stepD]. rewrite filter_reaches_spec, Hf. reflexivity. Qed.

  Lemma clear_all_filter_recomputes c hs now flt r0 :
    spec_filter_reaches own flt = true ->
    stepDR (c, hs) now (DClearAll flt) = (([], hs), now, XbNone) /\
    (forall lr, snd (fst (xlookup lr [] now)) = None) /\
    snd (serveR ([], hs) now r0) = snd (compute hs (prime r0) (override r0) (sanitize_ok r0)) /\
    snd (fst (fst (serveR ([], hs) now r0))) = snd (fst (compute hs (prime r0) (override r0) (sanitize_ok r0))).
  Proof.
    intros Hf. split; [|split].
    - cbn [stepD]. rewrite filter_reaches_spec, Hf. reflexivity.
    - intros lr. apply clear_all_is_miss_x.
    - apply (not_found_recomputes_x hstate compute ims_on fix_ovkey fix_svary sfilter parse_ims sanitize_ok prime override
               negotiate vary_tuple vary_header). apply clear_all_is_miss_x.
  Qed.
End ClauseX.

(** ---- whole designated histories ---- *)
Section HistoriesD.
  Variable hstate : Type.
  Variable compute : hstate -> request -> option (bytes * option bytes) -> bool -> fatx * hstate * list bytes.
  Variable ims_on fix_clear fix_svary : bool.
  Variable sfilter : N -> bool.
  Variable parse_ims : bytes -> option Z.
  Variable sanitize_ok : request -> bool.
  Variable prime : request -> request.
  Variable override : request -> option (bytes * option bytes).
  Variable negotiate : request -> fatx -> option (N * bytes).
  Variable vary_tuple : request -> option (bytes * option bytes) -> tuple.
  Variable vary_header : request -> option (bytes * option bytes) -> fatx -> list (bytes * bytes).
  Variable clear_alias : request -> option request.
  Variable own : bytes.
  Variable dflt : bool.
  Variable r0 : request.
  Variable x : fatx.

  (** operations of a designated history that do not clear the key of [r0]: every request and wait, every clear that names another
      host (or no host at all), and clears of other pages of this host *)
  Definition benignD (o : opd) : Prop :=
    match o with
    | DClearAll flt => spec_filter_reaches own flt = false
    | DClearPage name r' =>
        spec_designates own dflt name = false \/ benign fix_clear prime override clear_alias r0 x (XClearPage r')
    | _ => True
    end.

  Lemma benignD_erase o : benignD o ->
    benign fix_clear prime override clear_alias r0 x (erase true (fixture_collection own dflt) o).
  Proof.
    destruct o as [r|name r'|flt|ms]; cbn [benignD erase]; intros H.
    - exact I.
    - rewrite designates_spec. cbn [negb]. rewrite Bool.andb_false_r. cbn [negb]. rewrite Bool.andb_true_r.
      destruct (spec_designates own dflt name); [|exact I].
      destruct H as [H|H]; [discriminate H | exact H].
    - rewrite filter_reaches_spec, H. exact I.
    - exact I.
  Qed.

  Lemma computed_once_designated_history_x (now0 D : N) :
    (forall hs r' ov', may_store_x true sfilter (rq_method r') (fst (fst (compute hs r' ov' false))) = false) ->
    (forall hs r' ov' ok, rq_path (lookup_req r' ov') = rq_path (lookup_req (prime r0) (override r0)) ->
       qmx (fst (fst (compute hs r' ov' ok))) = qmx x /\
       match lifetime_x (fst (fst (compute hs r' ov' ok))) with Some L => D <= now0 + L | None => True end) ->
    forall c hs hs1 lg1 ops,
    sanitize_ok r0 = true -> get_or_head (rq_method (prime r0)) = true ->
    (ims_on = false \/ header (B "if-modified-since") (prime r0) = None) ->
    snd (fst (xlookup (lookup_req (prime r0) (override r0)) c now0)) = None ->
    compute hs (prime r0) (override r0) true = (x, hs1, lg1) -> may_store_x true sfilter (rq_method (prime r0)) x = true ->
    Forall benignD ops ->
    let serveR := serveX hstate compute true ims_on true true fix_svary true true sfilter parse_ims sanitize_ok prime override
                         negotiate vary_tuple vary_header in
    let stepR := stepX hstate compute true ims_on true true fix_clear fix_svary true true sfilter parse_ims sanitize_ok prime override
                       negotiate vary_tuple vary_header clear_alias in
    let st1 := fst (fst (serveR (c, hs) now0 r0)) in
    let run := runD_state hstate stepR true (fixture_collection own dflt) st1 now0 ops in
    snd run <= D ->
    snd (serveR (fst run) (snd run) r0) = [] /\ snd (fst (fst (serveR (fst run) (snd run) r0))) = snd (fst run) /\
    rx_from_cache (snd (fst (serveR (fst run) (snd run) r0))) = true /\
    exists v, v_tuple v = vary_tuple (prime r0) (override r0) /\
              snd (fst (serveR (fst run) (snd run) r0)) = finishX fix_svary negotiate vary_header (prime r0) (override r0) (v_resp v) ims_on true false.
  Proof.
    intros Herr Hsame c hs hs1 lg1 ops Hok GH Hims Hnone C A Hb serveR stepR st1 run.
    subst run stepR. rewrite designated_history_erases_x.
    apply (CacheXProofs.computed_once_history hstate compute ims_on fix_clear fix_svary sfilter parse_ims sanitize_ok prime override
             negotiate vary_tuple vary_header clear_alias r0 x now0 D Herr Hsame c hs hs1 lg1
             (map (erase true (fixture_collection own dflt)) ops) Hok GH Hims Hnone C A).
    apply Forall_forall. intros o Ho. apply in_map_iff in Ho. destruct Ho as (o' & <- & Ho').
    apply benignD_erase. rewrite Forall_forall in Hb. apply Hb. exact Ho'.
  Qed.
End HistoriesD.

(** ---- the fixture: the model run of pipex.rund is its specification run, and extends pipex.run ---- *)
Lemma run_pipexd_meets_spec x : run_pipexd x = run_pipexd_spec x.
Proof.
  unfold run_pipexd, run_pipexd_spec. destruct x as [n|b|l]; try reflexivity.
  destruct l as [|c [|o [|z l]]]; try reflexivity. destruct o as [n|b|ops]; try reflexivity.
  destruct (d_configx c) as [cx|]; [|reflexivity].
  destruct (d_all (d_opd (cfg_own c)) ops) as [ops'|]; [|reflexivity].
  rewrite fixture_collection_built. unfold run_cfgd. rewrite runD_runS. reflexivity.
Qed.

Lemma run_cfgd_embed cache_on cx own dflt ops : is_default_name own = false ->
  run_cfgd cache_on cx (fixture_collection own dflt) (map (embed own) ops) = run_cfgx cache_on cx ops.
Proof.
  intros Hn. unfold run_cfgd, run_cfgx, cfgx_step. apply designated_own_name_is_plain_x. exact Hn.
Qed.
