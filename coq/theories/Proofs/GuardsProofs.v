(** C17 — proofs about Model/Guards.v: the per-request decision of the layer below the cache,
    an invariant of the response cache ("no entry holds guarded content, and no key belongs to a
    path that can produce guarded content"), and their combination over all histories. *)
From KV Require Import Guards CacheProofs.
From KV Require PathSan PresentLine.
From Coq Require Import ZifyBool ZifyNat ZifyN.
Open Scope N_scope.

(** ---------------------------------------------------------------------------
    sub-string occurrence *)
Lemma contains_sub_app p s : contains_sub p s = true <-> exists a b, s = a ++ p ++ b.
Proof.
  unfold contains_sub. induction s as [|x s IH].
  - cbn [find_sub]. destruct (starts_with p []) eqn:E.
    + split; [intros _|reflexivity]. apply starts_with_app in E as [r Hr].
      exists [], r. exact Hr.
    + split; [discriminate|]. intros [a [b H]].
      assert (p = []) as ->.
      { destruct a; [destruct p; [reflexivity|discriminate]|discriminate]. }
      cbn in E. discriminate.
  - cbn [find_sub]. destruct (starts_with p (x :: s)) eqn:E.
    + split; [intros _|reflexivity]. apply starts_with_app in E as [r Hr]. exists [], r. exact Hr.
    + split.
      * intros H. destruct (find_sub p s) eqn:F; [|discriminate].
        destruct IH as [IH1 _]. destruct (IH1 eq_refl) as [a [b Hab]].
        exists (x :: a), b. rewrite Hab. reflexivity.
      * intros [a [b Hab]]. destruct a as [|y a].
        -- cbn [app] in Hab. assert (starts_with p (x :: s) = true) as E'.
           { apply starts_with_app. exists b. exact Hab. }
           congruence.
        -- cbn [app] in Hab. inversion Hab; subst.
           destruct IH as [_ IH2]. specialize (IH2 (ex_intro _ a (ex_intro _ b eq_refl))).
           destruct (find_sub p (a ++ p ++ b)); [reflexivity|discriminate].
Qed.

Lemma contains_sub_skipn p k s : contains_sub p (skipn k s) = true -> contains_sub p s = true.
Proof.
  intros H. apply contains_sub_app in H as [a [b H]]. apply contains_sub_app.
  exists (firstn k s ++ a), b. rewrite <- app_assoc, <- H. symmetry. apply firstn_skipn.
Qed.

Lemma contains_sub_firstn p k s : contains_sub p (firstn k s) = true -> contains_sub p s = true.
Proof.
  intros H. apply contains_sub_app in H as [a [b H]]. apply contains_sub_app.
  exists a, (b ++ skipn k s). rewrite <- (firstn_skipn k s) at 1. rewrite H. rewrite <- !app_assoc. reflexivity.
Qed.

(** a byte range of a body that does not contain the secret does not contain it either *)
Lemma contains_sub_slice p lo hi s : contains_sub p (slice lo hi s) = true -> contains_sub p s = true.
Proof. unfold slice. intros H. apply contains_sub_firstn in H. apply contains_sub_skipn in H. exact H. Qed.

(** ---------------------------------------------------------------------------
    the body that [resolve_present] keeps is a suffix of the file *)
Lemma present_parse_body_suffix c p :
  PresentLine.present_parse c = Ok (Some p) -> exists k, PresentLine.p_body p = skipn k c.
Proof.
  unfold PresentLine.present_parse, PresentLine.present_parse_with.
  destruct (PresentLine.pe_new PresentLine.data_start_fixed c) as [[[exts ds]|]|e|]; try discriminate.
  unfold PresentLine.split_off. destruct (Nat.ltb (length c) ds); cbn [obind]; [discriminate|].
  destruct (PresentLine.iter_all (S (length exts)) exts 0) as [pas|e|]; cbn [obind]; try discriminate.
  match goal with |- obind ?o _ = _ -> _ => destruct o as [es|e|] end; cbn [obind]; try discriminate.
  intros H. inversion H; subst. cbn [PresentLine.p_body]. exists ds. reflexivity.
Qed.

(** ---------------------------------------------------------------------------
    percent-encoded spellings *)
Lemma hex_val_digit u n : n < 16 -> PathSan.hex_val (hex_digit u n) = Some n.
Proof.
  intros H.
  assert (n = 0 \/ n = 1 \/ n = 2 \/ n = 3 \/ n = 4 \/ n = 5 \/ n = 6 \/ n = 7 \/ n = 8 \/ n = 9 \/
          n = 10 \/ n = 11 \/ n = 12 \/ n = 13 \/ n = 14 \/ n = 15) as Hn by lia.
  destruct u; repeat (destruct Hn as [-> | Hn]; [reflexivity|]); subst; reflexivity.
Qed.

Lemma percent_decode_cons_pct h l r a b :
  PathSan.hex_val h = Some a -> PathSan.hex_val l = Some b ->
  PathSan.percent_decode (37 :: h :: l :: r) = (a * 16 + b) :: PathSan.percent_decode r.
Proof. intros Ha Hb. cbn [PathSan.percent_decode]. change (37 =? PathSan.c_pct) with true. cbn iota. rewrite Ha, Hb. reflexivity. Qed.

Lemma percent_decode_cons_lit c r :
  (c =? 37) = false -> PathSan.percent_decode (c :: r) = c :: PathSan.percent_decode r.
Proof. intros H. cbn [PathSan.percent_decode]. unfold PathSan.c_pct. rewrite H. reflexivity. Qed.

Lemma pct_encode_decodes mask d :
  Forall (fun c => c < 256) d -> mask_ok mask d = true ->
  PathSan.percent_decode (pct_encode mask d) = d.
Proof.
  revert mask; induction d as [|c d IH]; intros mask Hd Hm; [reflexivity|].
  inversion Hd as [|? ? Hc Hd']; subst.
  assert (Henc : forall u1 u2 m, mask_ok m d = true ->
            PathSan.percent_decode (37 :: hex_digit u1 (c / 16) :: hex_digit u2 (c mod 16) :: pct_encode m d) = c :: d).
  { intros u1 u2 m Hm'. rewrite (percent_decode_cons_pct _ _ _ (c / 16) (c mod 16)).
    - rewrite IH by assumption. f_equal. pose proof (N.div_mod c 16). lia.
    - apply hex_val_digit. apply N.div_lt_upper_bound; lia.
    - apply hex_val_digit. apply N.mod_lt. lia. }
  destruct mask as [|[[u1 u2]|] m]; cbn [pct_encode mask_ok] in *.
  - apply andb_true_iff in Hm as [H1 H2]. rewrite percent_decode_cons_lit by (destruct (c =? 37); [discriminate|reflexivity]).
    rewrite IH by assumption. reflexivity.
  - apply Henc. exact Hm.
  - apply andb_true_iff in Hm as [H1 H2]. rewrite percent_decode_cons_lit by (destruct (c =? 37); [discriminate|reflexivity]).
    rewrite IH by assumption. reflexivity.
Qed.

(** the file that is read and the path whose extension selects the file-bound Present extension
    depend on the percent-decoded path only *)
Lemma served_file_spelling p p' :
  PathSan.percent_decode p = PathSan.percent_decode p' -> served_file p = served_file p'.
Proof. intros H. unfold served_file, PathSan.decoded_for_use. rewrite H. reflexivity. Qed.

Lemma private_hit_served raw t :
  served_file raw = Ok (Some t) -> private_hit true raw = is_private t.
Proof.
  unfold served_file, private_hit, ext_source, is_private, PathSan.decoded_for_use, PathSan.util_percent_decode.
  destruct (PathSan.utf8_valid (PathSan.percent_decode raw)); [|discriminate].
  destruct (PathSan.parse_uri (PathSan.percent_decode raw)) as [t'|]; [|discriminate].
  intros H. inversion H; subst. reflexivity.
Qed.

Lemma ext_lookup_spelling_independent_lemma p p' t :
  PathSan.percent_decode p = PathSan.percent_decode p' -> served_file p = Ok (Some t) ->
  served_file p' = Ok (Some t) /\ private_hit true p = is_private t /\ private_hit true p' = is_private t.
Proof.
  intros H Hs. pose proof (served_file_spelling _ _ H) as E. rewrite E in Hs.
  split; [exact Hs|]. split; apply private_hit_served; congruence.
Qed.

(** ---------------------------------------------------------------------------
    The Present stage: what each directive does to "the body carries no secret" and to
    "the server preference is locked at None". *)
Section Decision.
  Variable fs : bytes -> option bytes.
  Variable errpage : N -> bytes.
  Variable secret : bytes.
  Hypothesis Hfs : forall t c, fs t = Some c -> contains_sub secret c = true -> guarded t c = true.
  Hypothesis Herr_clean : forall s, contains_sub secret (errpage s) = false.
  Hypothesis Herr_plain : forall s, PresentLine.present_parse (errpage s) = Ok None.

  Notation bad := (contains_sub secret).
  Definition nb (st : pst) : Prop := bad (ps_body st) = false.
  Definition lk (st : pst) : Prop := ps_locked st = true /\ ps_spref st = SP_NONE.

  Lemma bad_nil : bad [] = false.
  Proof.
    destruct (bad []) eqn:E; [|reflexivity].
    unfold contains_sub in E. cbn [find_sub] in E.
    destruct secret as [|x s] eqn:Es; [|cbn in E; discriminate].
    specialize (Herr_clean 0). unfold contains_sub in Herr_clean.
    destruct (errpage 0); cbn in Herr_clean; discriminate.
  Qed.

  Variable fix_ext : bool.
  Notation stepv := (step true errpage).

  Lemma step_cases addr st e :
    (fst e = N_HIDE /\ stepv addr st e = do_hide errpage st) \/
    (fst e = N_ALLOW /\ stepv addr st e = do_allow errpage addr (snd e) st) \/
    (fst e <> N_HIDE /\ fst e <> N_ALLOW /\ ps_body (stepv addr st e) = ps_body st /\
     ps_locked (stepv addr st e) = ps_locked st /\
     (ps_locked st = true -> ps_spref (stepv addr st e) = ps_spref st)).
  Proof.
    destruct e as [name args]. cbn [fst snd]. unfold step.
    destruct (beq name N_HIDE) eqn:E1; [left; apply beq_eq in E1; auto|].
    destruct (beq name N_ALLOW) eqn:E2; [right; left; apply beq_eq in E2; auto|].
    right; right.
    assert (name <> N_HIDE) by (intros ->; rewrite beq_refl in E1; discriminate).
    assert (name <> N_ALLOW) by (intros ->; rewrite beq_refl in E2; discriminate).
    split; [assumption|]. split; [assumption|].
    destruct (beq name N_CACHE).
    - unfold do_cache. destruct (cache_parse args None None) as [c s]. cbn [ps_body ps_locked ps_spref].
      split; [reflexivity|]. split; [reflexivity|]. intros L. rewrite L. destruct s; reflexivity.
    - destruct (beq name N_DOWNLOAD); cbn; auto.
  Qed.

  Lemma nb_hide st : nb (do_hide errpage st).
  Proof. unfold nb, do_hide, to_error. cbn [ps_body]. apply Herr_clean. Qed.

  Lemma allow_body addr args st :
    ps_body (do_allow errpage addr args st) =
      if existsb (arg_matches addr) args then ps_body st else errpage 404.
  Proof. unfold do_allow. destruct (existsb (arg_matches addr) args); reflexivity. Qed.

  Lemma lk_allow addr args st : lk (do_allow errpage addr args st).
  Proof. unfold lk, do_allow. destruct (existsb (arg_matches addr) args); cbn; auto. Qed.

  Lemma nb_step addr st e : nb st -> nb (stepv addr st e).
  Proof.
    intros H. destruct (step_cases addr st e) as [[_ ->]|[[_ ->]|[_ [_ [Hb _]]]]].
    - apply nb_hide.
    - unfold nb. rewrite allow_body. destruct (existsb (arg_matches addr) (snd e)); [exact H|apply Herr_clean].
    - unfold nb. rewrite Hb. exact H.
  Qed.

  Lemma nb_fold addr es st : nb st -> nb (fold_left (stepv addr) es st).
  Proof. revert st; induction es as [|e es IH]; intros st H; cbn [fold_left]; [exact H|]. apply IH, nb_step, H. Qed.

  (** a [hide] anywhere on the line *)
  Lemma fold_hide addr es st : has_name N_HIDE es = true -> nb (fold_left (stepv addr) es st).
  Proof.
    revert st; induction es as [|e es IH]; intros st H; cbn [fold_left has_name existsb] in *; [discriminate|].
    unfold has_name in IH. apply orb_true_iff in H as [H|H].
    - apply nb_fold. apply beq_eq in H.
      destruct (step_cases addr st e) as [[_ ->]|[[E _]|[E _]]]; [apply nb_hide| |]; rewrite H in E.
      + discriminate.
      + contradiction.
    - apply IH, H.
  Qed.

  (** an [allow-ips] that does not list the address *)
  Lemma fold_unlisted addr es st : listed addr es = false -> nb (fold_left (stepv addr) es st).
  Proof.
    revert st; induction es as [|e es IH]; intros st H; cbn [fold_left listed forallb] in *; [discriminate|].
    unfold listed in IH. apply andb_false_iff in H as [H|H].
    - apply nb_fold. destruct (beq (fst e) N_ALLOW) eqn:E; [|discriminate]. apply beq_eq in E.
      destruct (step_cases addr st e) as [[E' _]|[[_ ->]|[_ [E' _]]]].
      + rewrite E in E'. discriminate.
      + unfold nb. rewrite allow_body, H. apply Herr_clean.
      + contradiction.
    - apply IH, H.
  Qed.

  (** [allow-ips] on the line and no [hide]: the server preference ends as None, whatever
      [cache] directives stand before or after it *)
  Lemma fold_locked addr es st :
    (lk st \/ has_name N_ALLOW es = true) -> has_name N_HIDE es = false ->
    lk (fold_left (stepv addr) es st).
  Proof.
    revert st; induction es as [|e es IH]; intros st H Hh; cbn [fold_left has_name existsb] in *.
    - destruct H as [H|H]; [exact H|discriminate].
    - unfold has_name in IH. apply orb_false_iff in Hh as [Hh1 Hh2].
      apply IH; [|exact Hh2].
      destruct (step_cases addr st e) as [[E _]|[[E ->]|[_ [E [_ [HL HS]]]]]].
      + rewrite E, beq_refl in Hh1. discriminate.
      + left. apply lk_allow.
      + destruct H as [[L S]|H].
        * left. split; [congruence|]. rewrite HS by exact L. exact S.
        * apply orb_true_iff in H as [H|H]; [apply beq_eq in H; contradiction|]. right. exact H.
  Qed.

  (** ---- the layer below the cache, repaired code ---- *)
  Notation LB := (layer_b true true fs errpage).
  Notation presentv := (present true true errpage).

  Lemma present_error r code sp :
    private_hit true (rq_path r) = false ->
    presentv r (err_pst errpage code sp) = Ok (err_pst errpage code sp).
  Proof. intros Hp. unfold present. cbn [ps_body err_pst]. rewrite Herr_plain, Hp. reflexivity. Qed.

  Lemma present_error_nb r code sp st :
    presentv r (err_pst errpage code sp) = Ok st -> nb st.
  Proof.
    unfold present. cbn [ps_body err_pst]. rewrite Herr_plain. cbn [fold_left].
    destruct (private_hit true (rq_path r)); intros H; inversion H; subst.
    - apply nb_hide.
    - unfold nb. cbn [ps_body]. apply Herr_clean.
  Qed.

  Lemma fat_of_body st : f_body (fat_of st) = ps_body st.
  Proof. reflexivity. Qed.

  Lemma panic_fat_clean : bad (f_body panic_fat) = false.
  Proof. cbn [f_body panic_fat]. apply bad_nil. Qed.

  (** what [layer_b] does for a readable file *)
  Lemma layer_b_file r t c :
    served_file (rq_path r) = Ok (Some t) -> get_or_head (rq_method r) = true -> fs t = Some c ->
    LB r true = match presentv r (file_pst c) with Ok st => fat_of st | _ => panic_fat end.
  Proof. intros Hs Hm Hf. unfold layer_b, base. cbn [negb]. rewrite Hs, Hm, Hf. reflexivity. Qed.

  (** every other case: an error page goes through the Present stage *)
  Lemma layer_b_not_file r ok :
    (ok = false \/ served_file (rq_path r) = Ok None \/ get_or_head (rq_method r) = false \/
     (exists t, served_file (rq_path r) = Ok (Some t) /\ fs t = None) \/
     served_file (rq_path r) = Panic) ->
    bad (f_body (LB r ok)) = false.
  Proof.
    intros H. unfold layer_b, base.
    destruct ok; cbn [negb].
    2:{ cbn [obind]. destruct (presentv r _) eqn:E; try apply panic_fat_clean.
        rewrite fat_of_body. eapply present_error_nb. exact E. }
    destruct (served_file (rq_path r)) as [[t|]|e|] eqn:Es; cbn [obind]; try apply panic_fat_clean.
    - destruct (get_or_head (rq_method r)) eqn:Em.
      + destruct (fs t) as [c|] eqn:Ef.
        * exfalso. destruct H as [H|[H|[H|[[t' [H1 H2]]|H]]]]; try discriminate. inversion H1; subst. congruence.
        * cbn [obind]. destruct (presentv r _) eqn:E; try apply panic_fat_clean.
          rewrite fat_of_body. eapply present_error_nb. exact E.
      + cbn [obind]. destruct (presentv r _) eqn:E; try apply panic_fat_clean.
        rewrite fat_of_body. eapply present_error_nb. exact E.
    - destruct (presentv r _) eqn:E; try apply panic_fat_clean.
      rewrite fat_of_body. eapply present_error_nb. exact E.
  Qed.

  (** the per-request decision *)
  Lemma decision r ok : bad (f_body (LB r ok)) = true -> permitted fs r.
  Proof.
    intros Hb.
    destruct ok.
    2:{ rewrite layer_b_not_file in Hb by auto. discriminate. }
    destruct (served_file (rq_path r)) as [[t|]|e|] eqn:Es.
    2:{ rewrite layer_b_not_file in Hb by auto. discriminate. }
    2:{ unfold served_file in Es. destruct (PathSan.decoded_for_use (rq_path r)) as [d|]; [|discriminate].
        destruct (PathSan.parse_uri d); discriminate. }
    2:{ rewrite layer_b_not_file in Hb by auto. discriminate. }
    destruct (get_or_head (rq_method r)) eqn:Em.
    2:{ rewrite layer_b_not_file in Hb by auto. discriminate. }
    destruct (fs t) as [c|] eqn:Ef.
    2:{ rewrite layer_b_not_file in Hb by (right; right; right; left; exists t; auto). discriminate. }
    rewrite (layer_b_file r t c Es Em Ef) in Hb.
    pose proof (private_hit_served _ _ Es) as Hp.
    unfold present in Hb. cbn [ps_body file_pst] in Hb.
    destruct (PresentLine.present_parse c) as [[p|]|e|] eqn:Ep; try (rewrite panic_fat_clean in Hb; discriminate).
    - (* a line was parsed *)
      cbn [ps_status ps_headers ps_spref ps_cpref ps_locked file_pst] in Hb. rewrite fat_of_body in Hb.
      assert (Hent : entries_of c = PresentLine.p_entries p) by (unfold entries_of; rewrite Ep; reflexivity).
      destruct (private_hit true (rq_path r)) eqn:Eh.
      { pose proof (nb_fold (rq_addr r) (PresentLine.p_entries p) _ (nb_hide (mkP 200 [] (PresentLine.p_body p) SP_FULL CFull false))) as Hn.
        unfold nb in Hn. congruence. }
      destruct (has_name N_HIDE (PresentLine.p_entries p)) eqn:Hh.
      { pose proof (fold_hide (rq_addr r) _ (mkP 200 [] (PresentLine.p_body p) SP_FULL CFull false) Hh) as Hn.
        unfold nb in Hn. congruence. }
      destruct (listed (rq_addr r) (PresentLine.p_entries p)) eqn:Hl.
      2:{ pose proof (fold_unlisted (rq_addr r) _ (mkP 200 [] (PresentLine.p_body p) SP_FULL CFull false) Hl) as Hn.
          unfold nb in Hn. congruence. }
      assert (Hbody : bad (PresentLine.p_body p) = true).
      { destruct (bad (PresentLine.p_body p)) eqn:E; [reflexivity|].
        pose proof (nb_fold (rq_addr r) (PresentLine.p_entries p) (mkP 200 [] (PresentLine.p_body p) SP_FULL CFull false) E) as Hn.
        unfold nb in Hn. congruence. }
      destruct (present_parse_body_suffix c p Ep) as [k Hk]. rewrite Hk in Hbody.
      apply contains_sub_skipn in Hbody.
      pose proof (Hfs t c Ef Hbody) as Hg. unfold guarded, is_hidden in Hg.
      rewrite Hent, Hh, <- Hp in Hg. cbn [orb] in Hg.
      exists t, c. repeat split; try assumption.
      + unfold is_hidden. rewrite Hent, Hh, <- Hp. reflexivity.
      + rewrite Hent. exact Hl.
    - (* no line *)
      cbn [fold_left] in Hb.
      destruct (private_hit true (rq_path r)) eqn:Eh.
      { rewrite fat_of_body in Hb. pose proof (nb_hide (file_pst c)) as Hn. unfold nb in Hn. congruence. }
      rewrite fat_of_body in Hb. cbn [ps_body file_pst] in Hb.
      pose proof (Hfs t c Ef Hb) as Hg. unfold guarded, is_hidden, is_allow_ips, entries_of in Hg.
      rewrite Ep, <- Hp in Hg. cbn in Hg. discriminate.
  Qed.

  (** the server preference of the answers for an allow-ips file: None, for every address, whatever
      [cache] directives the line carries *)
  Lemma allow_ips_spref_none r ok t c :
    served_file (rq_path r) = Ok (Some t) -> fs t = Some c ->
    is_hidden t c = false -> is_allow_ips c = true -> get_or_head (rq_method r) = true ->
    f_spref (LB r ok) = SP_NONE.
  Proof.
    intros Es Ef Hh Ha Em.
    pose proof (private_hit_served _ _ Es) as Hp.
    unfold is_hidden in Hh. apply orb_false_iff in Hh as [Hh1 Hh2]. rewrite <- Hp in Hh1.
    destruct ok.
    2:{ unfold layer_b, base. cbn [negb obind]. rewrite present_error by exact Hh1. reflexivity. }
    rewrite (layer_b_file r t c Es Em Ef).
    unfold present. cbn [ps_body file_pst]. rewrite Hh1.
    unfold is_allow_ips in Ha. unfold entries_of in Ha, Hh2.
    destruct (PresentLine.present_parse c) as [[p|]|e|]; try (cbn in Ha; discriminate).
    cbn [ps_status ps_headers ps_spref ps_cpref ps_locked file_pst].
    pose proof (fold_locked (rq_addr r) (PresentLine.p_entries p)
                  (mkP 200 [] (PresentLine.p_body p) SP_FULL CFull false) (or_intror Ha) Hh2) as [_ HS].
    exact HS.
  Qed.

  (** a path under which something is stored never yields guarded content *)
  Lemma stored_path_clean r ok :
    get_or_head (rq_method r) = true -> pref_caches (f_spref (LB r ok)) = true ->
    forall r' ok', rq_path r' = rq_path r -> bad (f_body (LB r' ok')) = false.
  Proof.
    intros Hm Hp r' ok' Hpath. destruct (bad (f_body (LB r' ok'))) eqn:E; [|reflexivity]. exfalso.
    apply decision in E. destruct E as [t [c [Es [Ef [Hh [Ha _]]]]]]. rewrite Hpath in Es.
    rewrite (allow_ips_spref_none r ok t c Es Ef Hh Ha Hm) in Hp. discriminate.
  Qed.
End Decision.

(** ---------------------------------------------------------------------------
    The response cache above any layer that satisfies the two facts proved above. *)
Section CacheConfinement.
  Variable hstate : Type.
  Variable compute : hstate -> request -> bool -> fat * hstate * list bytes.
  Variable cache_on ims_on : bool.
  Variable parse_ims : bytes -> option Z.
  Variable sanitize_ok : request -> bool.
  Variable prime : request -> request.
  Variable negotiate : request -> fat -> option (N * bytes).
  Variable vary_tuple : request -> tuple.
  Variable vary_header : request -> fat -> list (bytes * bytes).
  Variable bad : bytes -> bool.
  Variable okreq : request -> Prop.
  Notation cf hs r ok := (fst (fst (compute hs r ok))).
  Hypothesis bad_nil' : bad [] = false.
  Hypothesis Hreq : forall hs r ok, bad (f_body (cf hs r ok)) = true -> okreq r.
  Hypothesis Hpath : forall hs r ok,
    get_or_head (rq_method r) = true -> pref_caches (f_spref (cf hs r ok)) = true ->
    forall hs' r' ok', rq_path r' = rq_path r -> bad (f_body (cf hs' r' ok')) = false.
  Hypothesis Hneg : forall r f st b, negotiate r f = Some (st, b) -> bad b = false.

  Definition key_path (k : key) : bytes := match k with KPath p => p | KPathQuery s i => firstn i s end.
  Definition clean_path (p : bytes) : Prop :=
    forall hs r ok, rq_path r = p -> bad (f_body (cf hs r ok)) = false.
  Definition entry_clean (e : entry) : Prop := forall t f, In (t, f) (e_vars e) -> bad (f_body f) = false.
  (** no entry holds guarded content, and no key belongs to a path that can yield guarded content *)
  Definition CInv (c : cache) : Prop := forall k e, In (k, e) c -> entry_clean e /\ clean_path (key_path k).
  Definition reply_leaks (rp : reply) : bool := bad (rp_body rp) || bad (rp_identity rp).

  Lemma CInv_nil : CInv [].
  Proof. intros k e []. Qed.

  Lemma In_c_remove k k' e c : In (k', e) (c_remove k c) -> In (k', e) c.
  Proof.
    induction c as [|[k0 e0] c IH]; cbn [c_remove]; [auto|].
    destruct (key_eqb k k0); cbn [In]; intuition.
  Qed.
  Lemma CInv_remove k c : CInv c -> CInv (c_remove k c).
  Proof. intros H k' e Hin. apply H. eapply In_c_remove. exact Hin. Qed.
  Lemma CInv_insert k e c : CInv c -> entry_clean e -> clean_path (key_path k) -> CInv (c_insert k e c).
  Proof.
    intros H He Hk k' e' [Hin|Hin].
    - inversion Hin; subst. auto.
    - apply H. eapply In_c_remove. exact Hin.
  Qed.
  Lemma c_find_In k c e : c_find k c = Some e -> In (k, e) c.
  Proof.
    induction c as [|[k0 e0] c IH]; cbn [c_find]; [discriminate|].
    destruct (key_eqb k k0) eqn:E.
    - intros H; inversion H; subst. apply key_eqb_eq in E. subst. left. reflexivity.
    - intros H. right. auto.
  Qed.

  Lemma get_item_inv k c now res c' :
    get_item k c now = (res, c') -> CInv c ->
    CInv c' /\ (forall e, res = Some e -> entry_clean e /\ clean_path (key_path k)).
  Proof.
    unfold get_item. intros H Hc. destruct (c_find k c) as [e|] eqn:F.
    - destruct (fresh e now); inversion H; subst.
      + split; [exact Hc|]. intros e' He'. inversion He'; subst. apply Hc. apply c_find_In. exact F.
      + split; [apply CInv_remove; exact Hc|]. intros e' He'. discriminate.
    - inversion H; subst. split; [exact Hc|]. intros e' He'. discriminate.
  Qed.

  Lemma key_path_pq r : key_path (key_pq r) = rq_path r.
  Proof.
    unfold key_pq. pose proof (path_query_fst r) as H. destruct (path_query r) as [s i]. exact H.
  Qed.
  Lemma key_path_p r : key_path (key_p r) = rq_path r.
  Proof. reflexivity. Qed.

  Lemma lookup_inv r c now k found c1 :
    lookup r c now = ((k, found), c1) -> CInv c ->
    CInv c1 /\ key_path k = rq_path r /\
    (forall e, found = Some e -> entry_clean e /\ clean_path (rq_path r)).
  Proof.
    unfold lookup. intros H Hc.
    destruct (get_item (key_pq r) c now) as [res c'] eqn:G1.
    destruct (get_item_inv _ _ _ _ _ G1 Hc) as [Hc' Hres].
    destruct res as [e|].
    - inversion H; subst. split; [exact Hc'|]. split; [apply key_path_pq|].
      intros e' He'. inversion He'; subst. rewrite <- (key_path_pq r). apply Hres. reflexivity.
    - destruct (get_item (key_p r) c' now) as [res2 c''] eqn:G2.
      destruct (get_item_inv _ _ _ _ _ G2 Hc') as [Hc'' Hres2].
      inversion H; subst. split; [exact Hc''|]. split; [apply key_path_p|].
      intros e' He'. rewrite <- (key_path_p r). apply Hres2. exact He'.
  Qed.

  Lemma finish_leaks r f lm cached :
    reply_leaks (finish negotiate vary_header r f lm cached) = true -> bad (f_body f) = true.
  Proof.
    unfold finish, reply_leaks. destruct (negotiate r f) as [[st b]|] eqn:E; cbn [rp_body rp_identity].
    - rewrite (Hneg _ _ _ _ E). cbn [orb]. auto.
    - rewrite orb_diag. auto.
  Qed.

  Lemma insert_key_path r f : key_path (insert_key r f) = rq_path r.
  Proof. unfold insert_key. destruct (f_spref f =? SP_QUERY); [apply key_path_pq|apply key_path_p]. Qed.

  Lemma miss_conf c1 hs now r ok st' rp lg :
    CInv c1 ->
    miss hstate compute cache_on ims_on negotiate vary_tuple vary_header c1 hs now r ok = (st', rp, lg) ->
    CInv (fst st') /\ (reply_leaks rp = true -> okreq r).
  Proof.
    intros Hc. unfold miss.
    destruct (compute hs r ok) as [[f hs'] lg'] eqn:Ec.
    assert (Ef : f = cf hs r ok) by (rewrite Ec; reflexivity).
    destruct (may_store cache_on (rq_method r) f) eqn:Em; intros H; inversion H; subst st' rp lg; cbn [fst].
    - split.
      + unfold may_store, wants_cache in Em.
        apply andb_true_iff in Em as [Em _]. apply andb_true_iff in Em as [Em _].
        apply andb_true_iff in Em as [Em Hgh]. apply andb_true_iff in Em as [Em _].
        apply andb_true_iff in Em as [_ Hpc].
        assert (Hclean : clean_path (rq_path r)).
        { intros hs2 r2 ok2 Hp2. eapply Hpath; [exact Hgh| |exact Hp2]. rewrite <- Ef. exact Hpc. }
        apply CInv_insert; [exact Hc| |rewrite insert_key_path; exact Hclean].
        intros t f' [Hin|[]]. inversion Hin; subst f'. rewrite Ef. apply Hclean. reflexivity.
      + intros Hl. apply finish_leaks in Hl. eapply Hreq. rewrite <- Ef. exact Hl.
    - split; [exact Hc|]. intros Hl. apply finish_leaks in Hl. eapply Hreq. rewrite <- Ef. exact Hl.
  Qed.

  Lemma serve_conf st now r0 st' rp lg :
    CInv (fst st) ->
    serve hstate compute cache_on ims_on parse_ims sanitize_ok prime negotiate vary_tuple vary_header st now r0 = (st', rp, lg) ->
    CInv (fst st') /\ (reply_leaks rp = true -> okreq (prime r0)).
  Proof.
    destruct st as [c hs]. cbn [fst]. intros Hc. unfold serve.
    set (r := prime r0). set (ok := sanitize_ok r0).
    destruct (negb cache_on) eqn:Eon.
    { destruct (compute hs r ok) as [[f hs'] lg'] eqn:Ec.
      assert (Ef : f = cf hs r ok) by (rewrite Ec; reflexivity).
      intros H; inversion H; subst st' rp lg. cbn [fst]. split; [exact Hc|].
      intros Hl. apply finish_leaks in Hl. eapply Hreq. rewrite <- Ef. exact Hl. }
    destruct (lookup r c now) as [[k found] c1] eqn:El.
    destruct (lookup_inv _ _ _ _ _ _ El Hc) as [Hc1 [Hk Hfound]].
    destruct found as [e|]; [|apply miss_conf; exact Hc1].
    destruct (ok && get_or_head (rq_method r)); [|apply miss_conf; exact Hc1].
    destruct (Hfound e eq_refl) as [Hclean_e Hclean_p].
    match goal with |- (if ?b then _ else _) = _ -> _ => destruct b end.
    { intros H; inversion H; subst st' rp lg. cbn [fst]. split; [exact Hc1|].
      unfold reply_leaks. cbn [rp_body rp_identity]. rewrite bad_nil'. discriminate. }
    destruct (v_find (vary_tuple r) (e_vars e)) as [f|] eqn:Ev.
    { intros H; inversion H; subst st' rp lg. cbn [fst]. split; [exact Hc1|].
      intros Hl. apply finish_leaks in Hl. apply v_find_in in Ev. rewrite (Hclean_e _ _ Ev) in Hl. discriminate. }
    destruct (compute hs r ok) as [[f hs'] lg'] eqn:Ec.
    assert (Ef : f = cf hs r ok) by (rewrite Ec; reflexivity).
    intros H; inversion H; subst st' rp lg. cbn [fst]. split.
    - apply CInv_insert; [exact Hc1| |rewrite Hk; exact Hclean_p].
      intros t f' Hin. cbn [e_vars] in Hin. destruct Hin as [Hin|Hin].
      + inversion Hin; subst f'. rewrite Ef. apply Hclean_p. reflexivity.
      + eapply Hclean_e. exact Hin.
    - intros Hl. apply finish_leaks in Hl. eapply Hreq. rewrite <- Ef. exact Hl.
  Qed.

  Definition obs_ok (o : op) (ob : obs) : Prop :=
    match o, ob with
    | OReq r, ObReply rp _ => reply_leaks rp = true -> okreq (prime r)
    | _, _ => True
    end.

  Lemma step_conf st now o st' now' ob :
    CInv (fst st) ->
    Cache.step hstate compute cache_on ims_on parse_ims sanitize_ok prime negotiate vary_tuple vary_header st now o = (st', now', ob) ->
    CInv (fst st') /\ obs_ok o ob.
  Proof.
    intros Hc. destruct o as [r|r| |ms]; cbn [Cache.step].
    - destruct (serve _ _ _ _ _ _ _ _ _ _ st now r) as [[st1 rp] lg] eqn:Es.
      intros H; inversion H; subst. cbn [obs_ok]. eapply serve_conf; eassumption.
    - destruct st as [c hs]. intros H; inversion H; subst. cbn [fst obs_ok]. split; [|exact I].
      unfold clear_page, clear_uri. destruct (redirect_target r); repeat apply CInv_remove; exact Hc.
    - destruct st as [c hs]. intros H; inversion H; subst. cbn [fst obs_ok]. split; [apply CInv_nil|exact I].
    - intros H; inversion H; subst. split; [exact Hc|exact I].
  Qed.

  Lemma run_conf ops : forall st now,
    CInv (fst st) ->
    Forall2 obs_ok ops
      (run hstate compute cache_on ims_on parse_ims sanitize_ok prime negotiate vary_tuple vary_header st now ops).
  Proof.
    induction ops as [|o ops IH]; intros st now Hc; cbn [run]; [constructor|].
    destruct (Cache.step _ _ _ _ _ _ _ _ _ _ st now o) as [[st' now'] ob] eqn:Es.
    destruct (step_conf _ _ _ _ _ _ Hc Es) as [Hc' Hob].
    constructor; [exact Hob|]. apply IH. exact Hc'.
  Qed.
End CacheConfinement.

(** ---------------------------------------------------------------------------
    The property. *)
Lemma Forall2_mono {A B} (R1 R2 : A -> B -> Prop) l1 l2 :
  (forall a b, R1 a b -> R2 a b) -> Forall2 R1 l1 l2 -> Forall2 R2 l1 l2.
Proof. intros H F. induction F; constructor; auto. Qed.

Section Confined.
  Variable fs : bytes -> option bytes.
  Variable errpage : N -> bytes.
  Variable secret : bytes.
  Hypothesis Hfs : forall t c, fs t = Some c -> contains_sub secret c = true -> guarded t c = true.
  Hypothesis Herr_clean : forall s, contains_sub secret (errpage s) = false.
  Hypothesis Herr_plain : forall s, PresentLine.present_parse (errpage s) = Ok None.

  Lemma guarded_content_confined_lemma :
    forall cache_on ims_on parse_ims prime refuses vary_tuple vary_header now ops,
      Forall2 (reply_ok fs secret prime) ops
        (run_g true true fs errpage cache_on ims_on parse_ims prime refuses vary_tuple vary_header [] now ops).
  Proof.
    intros. unfold run_g.
    pose proof (run_conf unit (compute_g true true fs errpage) cache_on ims_on parse_ims
                  (sanitize_ok_g) prime (negotiate_g errpage refuses) vary_tuple vary_header
                  (contains_sub secret) (permitted fs)) as H.
    assert (Hall : forall ops' st now', CInv unit (compute_g true true fs errpage) (contains_sub secret) (fst st) ->
              Forall2 (obs_ok prime (contains_sub secret) (permitted fs)) ops'
                (run unit (compute_g true true fs errpage) cache_on ims_on parse_ims sanitize_ok_g prime
                     (negotiate_g errpage refuses) vary_tuple vary_header st now' ops')).
    { intros ops' st now' Hc. apply H; try assumption.
      - apply (bad_nil fs errpage secret Hfs Herr_clean).
      - intros hs r ok. cbn [compute_g fst]. apply (decision fs errpage secret Hfs Herr_clean Herr_plain).
      - intros hs r ok Hm Hp hs' r' ok' Hpath. cbn [compute_g fst] in *.
        eapply (stored_path_clean fs errpage secret Hfs Herr_clean Herr_plain); eassumption.
      - intros r f st' b. unfold negotiate_g. destruct (refuses r f); [|discriminate].
        intros E; inversion E; subst. apply Herr_clean. }
    specialize (Hall ops ([], tt) now (CInv_nil _ _ _)).
    clear H. eapply Forall2_mono; [|exact Hall]. intros o ob Ho.
    destruct o as [r|r| |ms], ob as [rp lg| |]; cbn [reply_ok obs_ok] in *; auto.
  Qed.

  (** [allow-ips] forces the server preference None for every answer of the file (any address,
      any [cache] directive on the line), hence the answer may not be stored *)
  Lemma allow_ips_never_stored_lemma :
    forall r ok t c cache_on,
      served_file (rq_path r) = Ok (Some t) -> fs t = Some c -> is_hidden t c = false -> is_allow_ips c = true ->
      get_or_head (rq_method r) = true ->
      f_spref (layer_b true true fs errpage r ok) = SP_NONE /\
      may_store cache_on (rq_method r) (layer_b true true fs errpage r ok) = false.
  Proof.
    intros r ok t c cache_on Es Ef Hh Ha Hm.
    pose proof (allow_ips_spref_none fs errpage Herr_plain r ok t c Es Ef Hh Ha Hm) as HS.
    split; [exact HS|]. unfold may_store, wants_cache, pref_caches. rewrite HS.
    destruct cache_on; reflexivity.
  Qed.
End Confined.

(** ---------------------------------------------------------------------------
    [permitted] is decidable by [permitted_b] (used by the spec component and the witnesses) *)
Lemma permitted_b_true fs r : permitted_b fs r = true <-> permitted fs r.
Proof.
  unfold permitted_b, permitted. split.
  - destruct (served_file (rq_path r)) as [[t|]|e|] eqn:Es; try discriminate.
    destruct (fs t) as [c|] eqn:Ef; try discriminate.
    intros H. apply andb_true_iff in H as [H Hl]. apply andb_true_iff in H as [Hh Ha].
    exists t, c. repeat split; auto. destruct (is_hidden t c); [discriminate|reflexivity].
  - intros [t [c [Es [Ef [Hh [Ha Hl]]]]]]. rewrite Es, Ef, Hh, Ha, Hl. reflexivity.
Qed.
Lemma permitted_b_false fs r : permitted_b fs r = false -> ~ permitted fs r.
Proof. intros H P. apply permitted_b_true in P. congruence. Qed.

(** a history violates the property: some reply carries the secret although its request is not permitted *)
Definition violates (fs : bytes -> option bytes) (secret : bytes) (ops : list op) (obs : list obs) : Prop :=
  exists i r rp lg, nth_error ops i = Some (OReq r) /\ nth_error obs i = Some (ObReply rp lg) /\
                    leaks secret rp = true /\ ~ permitted fs r.

Lemma violates_not_ok fs secret ops obs : violates fs secret ops obs -> ~ Forall2 (reply_ok fs secret (fun r => r)) ops obs.
Proof.
  intros [i [r [rp [lg [Ho [Hb [Hl Hp]]]]]]] F. revert i Ho Hb.
  induction F as [|o ob ops obs Hok F IH]; intros [|i] Ho Hb; cbn [nth_error] in *; try discriminate.
  - inversion Ho; inversion Hb; subst. cbn [reply_ok] in Hok. auto.
  - eapply IH; eassumption.
Qed.

(** ---------------------------------------------------------------------------
    A concrete host: one file of each kind.  Used for the non-vacuity examples and for the
    witnesses against the code before the two repairs. *)
Definition W_SECRET : bytes := Eval vm_compute in B "SECRET-7f3a".
Definition w_private : bytes := Eval vm_compute in B "SECRET-7f3a of secret.private".
Definition w_ac : bytes := Eval vm_compute in B "!> allow-ips 10.0.0.1 &> cache server:full" ++ [10] ++ B "SECRET-7f3a for 10.0.0.1 only".
Definition w_hide : bytes := Eval vm_compute in B "!> hide" ++ [10] ++ B "SECRET-7f3a for nobody".
Definition w_plain : bytes := Eval vm_compute in B "public text".
Definition w_fs (t : bytes) : option bytes :=
  if beq t (B "secret.private") then Some w_private
  else if beq t (B "ac.txt") then Some w_ac
  else if beq t (B "h.txt") then Some w_hide
  else if beq t (B "p.txt") then Some w_plain
  else None.
Definition w_err (s : N) : bytes := Eval vm_compute in B "<!DOCTYPE html><html><head><title>error</title></head></html>".
Definition w_get (p : bytes) (addr : N) : op := OReq (mkReq M_GET p None [] addr).
Definition w_run (fix_ext fix_lock cache_on : bool) (ops : list op) : list obs :=
  run_g fix_ext fix_lock w_fs w_err cache_on true (fun _ => None) (fun r => r) (fun _ _ => false) (fun _ => []) (fun _ _ => []) [] 0 ops.

Lemma w_hypotheses :
  (forall t c, w_fs t = Some c -> contains_sub W_SECRET c = true -> guarded t c = true) /\
  (forall s, contains_sub W_SECRET (w_err s) = false) /\
  (forall s, PresentLine.present_parse (w_err s) = Ok None).
Proof.
  split; [|split; intros s; vm_compute; reflexivity].
  intros t c. unfold w_fs.
  destruct (beq t (B "secret.private")) eqn:E1.
  { apply beq_eq in E1. subst. intros H _. inversion H; subst. vm_compute. reflexivity. }
  destruct (beq t (B "ac.txt")) eqn:E2.
  { apply beq_eq in E2. subst. intros H _. inversion H; subst. vm_compute. reflexivity. }
  destruct (beq t (B "h.txt")) eqn:E3.
  { apply beq_eq in E3. subst. intros H _. inversion H; subst. vm_compute. reflexivity. }
  destruct (beq t (B "p.txt")) eqn:E4; [|discriminate].
  intros H Hc. inversion H; subst. vm_compute in Hc. discriminate.
Qed.

(** non-vacuity: on the repaired model the listed address does receive the content (and is
    permitted), every other request of the history gets the 404 page *)
Definition w_history : list op :=
  [ w_get (B "/ac.txt") 1; w_get (B "/ac.txt") 2; w_get (B "/ac%2Etxt") 1; w_get (B "/ac%2etxt") 3;
    w_get (B "/secret.private") 1; w_get (B "/secret%2Eprivate") 1; w_get (B "/%73ecret%2e%70rivate") 1;
    w_get (B "/h.txt") 1; w_get (B "/%68.txt") 1; w_get (B "/p.txt") 9 ].
Definition w_summary (ops : list op) (obs : list obs) : list (N * bool * bool) :=
  map (fun '(o, ob) => match o, ob with
                       | OReq r, ObReply rp _ => (rp_status rp, leaks W_SECRET rp, permitted_b w_fs r)
                       | _, _ => (0, false, false)
                       end) (combine ops obs).
Lemma w_history_repaired :
  w_summary w_history (w_run true true true w_history) =
    [ (200, true, true); (404, false, false); (200, true, true); (404, false, false);
      (404, false, false); (404, false, false); (404, false, false);
      (404, false, false); (404, false, false); (200, false, false) ].
Proof. vm_compute. reflexivity. Qed.

(** the code before the first repair (file extension looked up on the raw path): [/secret%2Eprivate] *)
Lemma private_spelling_v0_refuted_lemma :
  forall cache_on, violates w_fs W_SECRET [w_get (B "/secret%2Eprivate") 2]
                            (w_run false true cache_on [w_get (B "/secret%2Eprivate") 2]).
Proof.
  intros cache_on. exists 0%nat. eexists. eexists. eexists.
  split; [reflexivity|]. split; [destruct cache_on; vm_compute; reflexivity|].
  split; [destruct cache_on; vm_compute; reflexivity|]. apply permitted_b_false. vm_compute. reflexivity.
Qed.

(** the code before the second repair (a later [cache] directive overrides [allow-ips]): the listed
    address first, then any other address is served from the cache *)
Lemma cache_directive_v0_refuted_lemma :
  violates w_fs W_SECRET [w_get (B "/ac.txt") 1; w_get (B "/ac.txt") 2]
                         (w_run true false true [w_get (B "/ac.txt") 1; w_get (B "/ac.txt") 2]).
Proof.
  exists 1%nat. eexists. eexists. eexists.
  split; [reflexivity|]. split; [vm_compute; reflexivity|].
  split; [vm_compute; reflexivity|]. apply permitted_b_false. vm_compute. reflexivity.
Qed.

Lemma reply_ok_meaning_lemma fs secret prime r0 rp lg :
  reply_ok fs secret prime (OReq r0) (ObReply rp lg) -> let r := prime r0 in
  contains_sub secret (rp_body rp) = true \/ contains_sub secret (rp_identity rp) = true ->
  exists t c, served_file (rq_path r) = Ok (Some t) /\ fs t = Some c /\
              is_private t = false /\ has_name N_HIDE (entries_of c) = false /\
              has_name N_ALLOW (entries_of c) = true /\ listed (rq_addr r) (entries_of c) = true.
Proof.
  unfold reply_ok. intros H. cbv zeta. intros Hl.
  assert (leaks secret rp = true) as L by (unfold leaks; apply orb_true_iff; exact Hl).
  destruct (H L) as [t [c [Es [Ef [Hh [Ha Hli]]]]]].
  unfold is_hidden in Hh. apply orb_false_iff in Hh as [H1 H2].
  exists t, c. repeat split; assumption.
Qed.

Lemma spelling_example_lemma :
  pct_encode [None; None; Some (true, true)] (B "/s.private") = B "/s%2Eprivate" /\
  pct_encode [None; Some (false, false); Some (false, false)] (B "/s.private") = B "/%73%2eprivate" /\
  mask_ok [None; None; Some (true, true)] (B "/s.private") = true.
Proof. vm_compute. repeat split; reflexivity. Qed.

(** ---------------------------------------------------------------------------
    "the answer is the host's 404": what the layer below the cache returns for a hidden / private
    file, and for an [allow-ips] file when the address is not listed. *)
Section NotFound.
  Variable fs : bytes -> option bytes.
  Variable errpage : N -> bytes.
  Notation stepv := (step true errpage).
  Definition is404 (st : pst) : Prop := ps_status st = 404 /\ ps_body st = errpage 404.

  Lemma is404_hide st : is404 (do_hide errpage st).
  Proof. split; reflexivity. Qed.

  Lemma is404_step addr st e : is404 st -> is404 (stepv addr st e).
  Proof.
    intros [H1 H2]. destruct e as [name args]. unfold step.
    destruct (beq name N_HIDE); [apply is404_hide|].
    destruct (beq name N_ALLOW).
    { unfold do_allow. destruct (existsb (arg_matches addr) args); split; cbn; auto. }
    destruct (beq name N_CACHE).
    { unfold do_cache. destruct (cache_parse args None None). split; cbn; auto. }
    destruct (beq name N_DOWNLOAD); split; cbn; auto.
  Qed.
  Lemma is404_fold addr es st : is404 st -> is404 (fold_left (stepv addr) es st).
  Proof. revert st; induction es as [|e es IH]; intros st H; cbn [fold_left]; [exact H|]. apply IH, is404_step, H. Qed.

  Lemma fold_hide_404 addr es st : has_name N_HIDE es = true -> is404 (fold_left (stepv addr) es st).
  Proof.
    revert st; induction es as [|[name args] es IH]; intros st H; cbn [fold_left has_name existsb fst] in *; [discriminate|].
    unfold has_name in IH. apply orb_true_iff in H as [H|H]; [|apply IH, H].
    apply is404_fold. unfold step. rewrite H. apply is404_hide.
  Qed.
  Lemma fold_unlisted_404 addr es st : listed addr es = false -> is404 (fold_left (stepv addr) es st).
  Proof.
    revert st; induction es as [|[name args] es IH]; intros st H; cbn [fold_left listed forallb fst snd] in *; [discriminate|].
    unfold listed in IH. apply andb_false_iff in H as [H|H]; [|apply IH, H].
    apply is404_fold. unfold step.
    destruct (beq name N_HIDE); [apply is404_hide|].
    destruct (beq name N_ALLOW); [|discriminate].
    unfold do_allow. rewrite H. split; reflexivity.
  Qed.

  Lemma guarded_answer_is_404_lemma r t c :
    served_file (rq_path r) = Ok (Some t) -> fs t = Some c -> get_or_head (rq_method r) = true ->
    (exists parsed, PresentLine.present_parse c = Ok parsed) ->
    is_hidden t c = true \/ listed (rq_addr r) (entries_of c) = false ->
    f_status (layer_b true true fs errpage r true) = 404 /\
    f_body (layer_b true true fs errpage r true) = errpage 404.
  Proof.
    intros Es Ef Em [parsed Ep] H.
    pose proof (private_hit_served _ _ Es) as Hp.
    unfold layer_b, base. cbn [negb]. rewrite Es, Em, Ef. cbn [obind].
    unfold present. cbn [ps_body file_pst]. rewrite Ep.
    unfold is_hidden, entries_of in H. rewrite Ep, <- Hp in H.
    assert (G : forall st : pst, is404 st -> f_status (fat_of st) = 404 /\ f_body (fat_of st) = errpage 404)
      by (intros st [A B0]; split; assumption).
    apply G.
    destruct (private_hit true (rq_path r)).
    { apply is404_fold, is404_hide. }
    cbn [orb] in H. destruct parsed as [p|].
    - destruct H as [H|H]; [apply fold_hide_404, H|apply fold_unlisted_404, H].
    - destruct H as [H|H]; cbn in H; discriminate.
  Qed.
End NotFound.
