(** C17 — proofs about Model/Guards.v: the per-request decision of the layer below the cache,
    an invariant of the response cache of Model/CacheX.v ("no stored variant holds guarded content": what
    is stored was admitted, and an answer with guarded content has server preference None), and their
    combination over all histories; "the answer is the host's 404" below and above the cache. *)
From KV Require Import Guards CacheProofs CacheXProofs PresentLineProofs.
From KV Require PathSan PresentLine.
From Coq Require Import ZifyBool ZifyNat ZifyN.
Open Scope N_scope.

(** ---------------------------------------------------------------------------
    sub-string occurrence *)
Lemma contains_sub_app p s : contains_sub p s = true <-> exists a b, s = a ++ p ++ b.
Proof.
  unfold contains_sub. induction s as [|x s IH].
  - cbn [find_sub]. destruct (starts_with p []) eqn:E.
    + split; [intros _|reflexivity]. apply starts_with_app in E as [r Hr].
      exists [], r. exact Hr.
    + split; [discriminate|]. intros [a [b H]].
      assert (p = []) as ->.
      { destruct a; [destruct p; [reflexivity|discriminate]|discriminate]. }
      cbn in E. discriminate.
  - cbn [find_sub]. destruct (starts_with p (x :: s)) eqn:E.
    + split; [intros _|reflexivity]. apply starts_with_app in E as [r Hr]. exists [], r. exact Hr.
    + split.
      * intros H. destruct (find_sub p s) eqn:F; [|discriminate].
        destruct IH as [IH1 _]. destruct (IH1 eq_refl) as [a [b Hab]].
        exists (x :: a), b. rewrite Hab. reflexivity.
      * intros [a [b Hab]]. destruct a as [|y a].
        -- cbn [app] in Hab. assert (starts_with p (x :: s) = true) as E'.
           { apply starts_with_app. exists b. exact Hab. }
           congruence.
        -- cbn [app] in Hab. inversion Hab; subst.
           destruct IH as [_ IH2]. specialize (IH2 (ex_intro _ a (ex_intro _ b eq_refl))).
           destruct (find_sub p (a ++ p ++ b)); [reflexivity|discriminate].
Qed.

Lemma contains_sub_skipn p k s : contains_sub p (skipn k s) = true -> contains_sub p s = true.
Proof.
  intros H. apply contains_sub_app in H as [a [b H]]. apply contains_sub_app.
  exists (firstn k s ++ a), b. rewrite <- app_assoc, <- H. symmetry. apply firstn_skipn.
Qed.

Lemma contains_sub_firstn p k s : contains_sub p (firstn k s) = true -> contains_sub p s = true.
Proof.
  intros H. apply contains_sub_app in H as [a [b H]]. apply contains_sub_app.
  exists a, (b ++ skipn k s). rewrite <- (firstn_skipn k s) at 1. rewrite H. rewrite <- !app_assoc. reflexivity.
Qed.

(** a byte range of a body that does not contain the secret does not contain it either *)
Lemma contains_sub_slice p lo hi s : contains_sub p (slice lo hi s) = true -> contains_sub p s = true.
Proof. unfold slice. intros H. apply contains_sub_firstn in H. apply contains_sub_skipn in H. exact H. Qed.

(** ---------------------------------------------------------------------------
    percent-encoded spellings *)
Lemma hex_val_digit u n : n < 16 -> PathSan.hex_val (hex_digit u n) = Some n.
Proof.
  intros H.
  assert (n = 0 \/ n = 1 \/ n = 2 \/ n = 3 \/ n = 4 \/ n = 5 \/ n = 6 \/ n = 7 \/ n = 8 \/ n = 9 \/
          n = 10 \/ n = 11 \/ n = 12 \/ n = 13 \/ n = 14 \/ n = 15) as Hn by lia.
  destruct u; repeat (destruct Hn as [-> | Hn]; [reflexivity|]); subst; reflexivity.
Qed.

Lemma percent_decode_cons_pct h l r a b :
  PathSan.hex_val h = Some a -> PathSan.hex_val l = Some b ->
  PathSan.percent_decode (37 :: h :: l :: r) = (a * 16 + b) :: PathSan.percent_decode r.
Proof. intros Ha Hb. cbn [PathSan.percent_decode]. change (37 =? PathSan.c_pct) with true. cbn iota. rewrite Ha, Hb. reflexivity. Qed.

Lemma percent_decode_cons_lit c r :
  (c =? 37) = false -> PathSan.percent_decode (c :: r) = c :: PathSan.percent_decode r.
Proof. intros H. cbn [PathSan.percent_decode]. unfold PathSan.c_pct. rewrite H. reflexivity. Qed.

Lemma pct_encode_decodes mask d :
  Forall (fun c => c < 256) d -> mask_ok mask d = true ->
  PathSan.percent_decode (pct_encode mask d) = d.
Proof.
  revert mask; induction d as [|c d IH]; intros mask Hd Hm; [reflexivity|].
  inversion Hd as [|? ? Hc Hd']; subst.
  assert (Henc : forall u1 u2 m, mask_ok m d = true ->
            PathSan.percent_decode (37 :: hex_digit u1 (c / 16) :: hex_digit u2 (c mod 16) :: pct_encode m d) = c :: d).
  { intros u1 u2 m Hm'. rewrite (percent_decode_cons_pct _ _ _ (c / 16) (c mod 16)).
    - rewrite IH by assumption. f_equal. pose proof (N.div_mod c 16). lia.
    - apply hex_val_digit. apply N.div_lt_upper_bound; lia.
    - apply hex_val_digit. apply N.mod_lt. lia. }
  destruct mask as [|[[u1 u2]|] m]; cbn [pct_encode mask_ok] in *.
  - apply andb_true_iff in Hm as [H1 H2]. rewrite percent_decode_cons_lit by (destruct (c =? 37); [discriminate|reflexivity]).
    rewrite IH by assumption. reflexivity.
  - apply Henc. exact Hm.
  - apply andb_true_iff in Hm as [H1 H2]. rewrite percent_decode_cons_lit by (destruct (c =? 37); [discriminate|reflexivity]).
    rewrite IH by assumption. reflexivity.
Qed.

(** the file that is read and the path whose extension selects the file-bound Present extension
    depend on the percent-decoded path only *)
Lemma served_file_spelling p p' :
  PathSan.percent_decode p = PathSan.percent_decode p' -> served_file p = served_file p'.
Proof. intros H. unfold served_file, PathSan.decoded_for_use. rewrite H. reflexivity. Qed.

Lemma private_hit_served raw t :
  served_file raw = Ok (Some t) -> private_hit true raw = is_private t.
Proof.
  unfold served_file, private_hit, ext_source, is_private, PathSan.decoded_for_use, PathSan.util_percent_decode.
  destruct (PathSan.utf8_valid (PathSan.percent_decode raw)); [|discriminate].
  destruct (PathSan.parse_uri (PathSan.percent_decode raw)) as [t'|]; [|discriminate].
  intros H. inversion H; subst. reflexivity.
Qed.

Lemma ext_lookup_spelling_independent_lemma p p' t :
  PathSan.percent_decode p = PathSan.percent_decode p' -> served_file p = Ok (Some t) ->
  served_file p' = Ok (Some t) /\ private_hit true p = is_private t /\ private_hit true p' = is_private t.
Proof.
  intros H Hs. pose proof (served_file_spelling _ _ H) as E. rewrite E in Hs.
  split; [exact Hs|]. split; apply private_hit_served; congruence.
Qed.

(** ---------------------------------------------------------------------------
    The Present stage: what each directive does to "the body carries no secret" and to
    "the server preference is locked at None". *)
Lemma line_of_suffix c p : line_of c = Some p -> exists k, PresentLine.p_body p = skipn k c.
Proof.
  unfold line_of. destruct (PresentLine.present_parse c) as [[p'|]|e|] eqn:E; try discriminate.
  intros H; inversion H; subst. eapply present_parse_body_suffix. exact E.
Qed.
Lemma entries_of_line c : entries_of c = match line_of c with Some p => PresentLine.p_entries p | None => [] end.
Proof. unfold entries_of, line_of. destruct (PresentLine.present_parse c) as [[p|]|e|]; reflexivity. Qed.
Lemma line_of_parse c : PresentLine.present_parse c = Ok (line_of c).
Proof.
  unfold line_of. destruct (present_parse_total c) as (r & E & _). rewrite E. reflexivity.
Qed.

(** what a directive does to the server cache preference and its lock (no secret involved) *)
Section Shape.
  Variable fix_errline : bool.
  Variable errpage : N -> bytes.
  Variable tmpl : list bytes -> bytes -> bytes.
  Definition lk (st : pst) : Prop := ps_locked st = true /\ ps_spref st = SP_NONE.
  Notation stepv := (step true fix_errline errpage tmpl).
  Notation hidev := (do_hide fix_errline errpage tmpl).
  Notation allowv := (do_allow fix_errline errpage).

  Lemma step_shape addr st e :
    (fst e = N_HIDE /\ stepv addr st e = hidev st) \/
    (fst e = N_ALLOW /\ stepv addr st e = allowv addr (snd e) st) \/
    (fst e <> N_HIDE /\ fst e <> N_ALLOW /\
     (ps_body (stepv addr st e) = ps_body st \/
      exists args, fst e = N_TMPL /\ ps_body (stepv addr st e) = tmpl args (ps_body st)) /\
     ps_status (stepv addr st e) = ps_status st /\
     ps_locked (stepv addr st e) = ps_locked st /\
     (ps_locked st = true -> ps_spref (stepv addr st e) = ps_spref st)).
  Proof.
    destruct e as [name args]. cbn [fst snd]. unfold step.
    destruct (beq name N_HIDE) eqn:E1; [left; apply beq_eq in E1; auto|].
    destruct (beq name N_ALLOW) eqn:E2; [right; left; apply beq_eq in E2; auto|].
    right; right.
    assert (name <> N_HIDE) by (intros ->; rewrite beq_refl in E1; discriminate).
    assert (name <> N_ALLOW) by (intros ->; rewrite beq_refl in E2; discriminate).
    split; [assumption|]. split; [assumption|].
    destruct (beq name N_CACHE).
    - unfold do_cache. destruct (cache_parse args None None) as [c s]. cbn [ps_body ps_locked ps_spref ps_status].
      split; [auto|]. split; [reflexivity|]. split; [reflexivity|]. intros L. rewrite L. destruct s; reflexivity.
    - destruct (beq name N_DOWNLOAD); [cbn; auto|].
      destruct (beq name N_TMPL) eqn:E5; [|auto].
      unfold do_tmpl. cbn [ps_body ps_locked ps_spref ps_status]. apply beq_eq in E5.
      split; [right; exists args; auto|]. auto.
  Qed.

  Lemma allow_body addr args st :
    ps_body (allowv addr args st) =
      if existsb (arg_matches addr) args then ps_body st else error_body_allow fix_errline errpage 404.
  Proof. unfold do_allow. destruct (existsb (arg_matches addr) args); reflexivity. Qed.

  Lemma lk_allow addr args st : lk (allowv addr args st).
  Proof. unfold lk, do_allow. destruct (existsb (arg_matches addr) args); cbn; auto. Qed.

  (** [allow-ips] on the line and no [hide]: the server preference ends as None, whatever
      [cache] directives stand before or after it *)
  Lemma fold_locked addr es st :
    (lk st \/ has_name N_ALLOW es = true) -> has_name N_HIDE es = false ->
    lk (fold_left (stepv addr) es st).
  Proof.
    revert st; induction es as [|e es IH]; intros st H Hh; cbn [fold_left has_name existsb] in *.
    - destruct H as [H|H]; [exact H|discriminate].
    - unfold has_name in IH. apply orb_false_iff in Hh as [Hh1 Hh2].
      apply IH; [|exact Hh2].
      destruct (step_shape addr st e) as [[E _]|[[E ->]|[_ [E [_ [_ [HL HS]]]]]]].
      + rewrite E, beq_refl in Hh1. discriminate.
      + left. apply lk_allow.
      + destruct H as [[L S]|H].
        * left. split; [congruence|]. rewrite HS by exact L. exact S.
        * apply orb_true_iff in H as [H|H]; [apply beq_eq in H; contradiction|]. right. exact H.
  Qed.

  (** the server preference of the answers for an allow-ips file: None, for every address, whatever
      [cache] directives the line carries *)
  Lemma allow_ips_spref_none cors fs r ov t c :
    served_file (rq_path r) = Ok (Some t) -> fs t = Some c ->
    is_hidden t c = false -> is_allow_ips c = true -> get_or_head (rq_method r) = true ->
    (cors && is_cors_fail ov) = false ->
    f_spref (layer_b true true fix_errline cors fs errpage tmpl r ov true) = SP_NONE.
  Proof.
    intros Es Ef Hh Ha Em Ec.
    pose proof (private_hit_served _ _ Es) as Hp.
    unfold is_hidden in Hh. apply orb_false_iff in Hh as [Hh1 Hh2]. rewrite <- Hp in Hh1.
    unfold layer_b, base. cbn [negb]. rewrite Es, Ec, Em, Ef. cbn [f_spref fat_of].
    unfold present. cbn [ps_body file_pst]. rewrite Hh1.
    unfold is_allow_ips in Ha. rewrite entries_of_line in Ha, Hh2.
    destruct (line_of c) as [p|]; [|cbn in Ha; discriminate].
    cbn [ps_status ps_headers ps_spref ps_cpref ps_locked file_pst].
    pose proof (fold_locked (rq_addr r) (PresentLine.p_entries p)
                  (mkP 200 [] (PresentLine.p_body p) SP_FULL CFull false) (or_intror Ha) Hh2) as [_ HS].
    exact HS.
  Qed.
End Shape.

Section Decision.
  Variable fix_errline cors : bool.
  Variable fs : bytes -> option bytes.
  Variable errpage : N -> bytes.
  Variable tmpl : list bytes -> bytes -> bytes.
  Variable secret : bytes.
  Hypothesis Hfs : forall t c, fs t = Some c -> contains_sub secret c = true -> guarded t c = true.
  Hypothesis Herr_clean : forall s, contains_sub secret (errpage s) = false.
  Hypothesis Htmpl : forall args b, contains_sub secret (tmpl args b) = true -> contains_sub secret b = true.
  Hypothesis Hcors : cors = true -> contains_sub secret (ps_body cors_pst) = false.

  Notation bad := (contains_sub secret).
  Definition nb (st : pst) : Prop := bad (ps_body st) = false.
  Lemma bad_nil : bad [] = false.
  Proof.
    destruct (bad []) eqn:E; [|reflexivity].
    unfold contains_sub in E. cbn [find_sub] in E.
    destruct secret as [|x s] eqn:Es; [|cbn in E; discriminate].
    specialize (Herr_clean 0). unfold contains_sub in Herr_clean.
    destruct (errpage 0); cbn in Herr_clean; discriminate.
  Qed.

  Lemma clean_line c p : bad c = false -> line_of c = Some p -> bad (PresentLine.p_body p) = false.
  Proof.
    intros Hc Hl. destruct (line_of_suffix c p Hl) as [k Hk]. rewrite Hk.
    destruct (bad (skipn k c)) eqn:E; [|reflexivity]. apply contains_sub_skipn in E. congruence.
  Qed.
  Lemma tmpl_clean args b : bad b = false -> bad (tmpl args b) = false.
  Proof. intros H. destruct (bad (tmpl args b)) eqn:E; [|reflexivity]. apply Htmpl in E. congruence. Qed.

  Lemma err_allow_clean code : bad (error_body_allow fix_errline errpage code) = false.
  Proof.
    unfold error_body_allow. destruct (line_of (errpage code)) as [p|] eqn:L; [|apply Herr_clean].
    destruct fix_errline; [|apply Herr_clean]. eapply clean_line; [apply Herr_clean | exact L].
  Qed.
  Lemma err_hide_clean code : bad (error_body_hide fix_errline errpage tmpl code) = false.
  Proof.
    unfold error_body_hide. destruct (line_of (errpage code)) as [p|] eqn:L; [|apply Herr_clean].
    pose proof (clean_line _ _ (Herr_clean code) L) as Hp.
    destruct (first_tmpl (PresentLine.p_entries p)); [apply tmpl_clean; exact Hp|].
    destruct fix_errline; [exact Hp | apply Herr_clean].
  Qed.

  Notation stepv := (step true fix_errline errpage tmpl).
  Notation hidev := (do_hide fix_errline errpage tmpl).
  Notation allowv := (do_allow fix_errline errpage).

  Lemma step_cases addr st e :
    (fst e = N_HIDE /\ stepv addr st e = hidev st) \/
    (fst e = N_ALLOW /\ stepv addr st e = allowv addr (snd e) st) \/
    (fst e <> N_HIDE /\ fst e <> N_ALLOW /\
     (bad (ps_body st) = false -> bad (ps_body (stepv addr st e)) = false)).
  Proof.
    destruct (step_shape fix_errline errpage tmpl addr st e) as [H|[H|(H1 & H2 & Hb & _)]]; [auto | auto |].
    right; right. split; [exact H1|]. split; [exact H2|].
    intros Hc. destruct Hb as [-> | (args & _ & ->)]; [exact Hc | apply tmpl_clean, Hc].
  Qed.

  Lemma nb_hide st : nb (hidev st).
  Proof. unfold nb, do_hide, to_error. cbn [ps_body]. apply err_hide_clean. Qed.

  Lemma nb_step addr st e : nb st -> nb (stepv addr st e).
  Proof.
    intros H. destruct (step_cases addr st e) as [[_ ->]|[[_ ->]|[_ [_ Hb]]]].
    - apply nb_hide.
    - unfold nb. rewrite allow_body. destruct (existsb (arg_matches addr) (snd e)); [exact H|apply err_allow_clean].
    - apply Hb, H.
  Qed.

  Lemma nb_fold addr es st : nb st -> nb (fold_left (stepv addr) es st).
  Proof. revert st; induction es as [|e es IH]; intros st H; cbn [fold_left]; [exact H|]. apply IH, nb_step, H. Qed.

  (** a [hide] anywhere on the line *)
  Lemma fold_hide addr es st : has_name N_HIDE es = true -> nb (fold_left (stepv addr) es st).
  Proof.
    revert st; induction es as [|e es IH]; intros st H; cbn [fold_left has_name existsb] in *; [discriminate|].
    unfold has_name in IH. apply orb_true_iff in H as [H|H].
    - apply nb_fold. apply beq_eq in H.
      destruct (step_cases addr st e) as [[_ ->]|[[E _]|[E _]]]; [apply nb_hide| |]; rewrite H in E.
      + discriminate.
      + contradiction.
    - apply IH, H.
  Qed.

  (** an [allow-ips] that does not list the address *)
  Lemma fold_unlisted addr es st : listed addr es = false -> nb (fold_left (stepv addr) es st).
  Proof.
    revert st; induction es as [|e es IH]; intros st H; cbn [fold_left listed forallb] in *; [discriminate|].
    unfold listed in IH. apply andb_false_iff in H as [H|H].
    - apply nb_fold. destruct (beq (fst e) N_ALLOW) eqn:E; [|discriminate]. apply beq_eq in E.
      destruct (step_cases addr st e) as [[E' _]|[[_ ->]|[_ [E' _]]]].
      + rewrite E in E'. discriminate.
      + unfold nb. rewrite allow_body, H. apply err_allow_clean.
      + contradiction.
    - apply IH, H.
  Qed.

  (** ---- the layer below the cache, repaired code ---- *)
  Notation LB := (layer_b true true fix_errline cors fs errpage tmpl).
  Notation presentv := (present true true fix_errline errpage tmpl).
  Notation basev := (base cors fs errpage).

  (** a response without the secret stays without it *)
  Lemma present_nb r st : nb st -> nb (presentv r st).
  Proof.
    intros H. unfold present.
    destruct (line_of (ps_body st)) as [p|] eqn:L.
    - apply nb_fold. destruct (private_hit true (rq_path r)); [apply nb_hide|].
      unfold nb. cbn [ps_body]. eapply clean_line; [exact H | exact L].
    - apply nb_fold. destruct (private_hit true (rq_path r)); [apply nb_hide | exact H].
  Qed.

  Lemma fat_of_body st : f_body (fat_of st) = ps_body st.
  Proof. reflexivity. Qed.
  Lemma fat_of_spref st : f_spref (fat_of st) = ps_spref st.
  Proof. reflexivity. Qed.

  Lemma panic_fat_clean : bad (f_body panic_fat) = false.
  Proof. cbn [f_body panic_fat]. apply bad_nil. Qed.

  Lemma err_pst_nb code sp : nb (err_pst errpage code sp).
  Proof. unfold nb. cbn [ps_body err_pst]. apply Herr_clean. Qed.
  Lemma cors_pst_nb : cors = true -> nb cors_pst.
  Proof. exact Hcors. Qed.

  (** what [base] can be: a response without the secret, or the file itself *)
  Lemma base_cases r ov ok :
    basev r ov ok = Panic \/ (exists st, basev r ov ok = Ok st /\ nb st) \/
    (exists t c, ok = true /\ (cors && is_cors_fail ov) = false /\ served_file (rq_path r) = Ok (Some t) /\
                 get_or_head (rq_method r) = true /\ fs t = Some c /\ basev r ov ok = Ok (file_pst c)).
  Proof.
    unfold base. destruct ok; cbn [negb].
    2:{ right; left. eexists. split; [reflexivity | apply err_pst_nb]. }
    destruct (served_file (rq_path r)) as [[t|]|e|] eqn:Es.
    - destruct (cors && is_cors_fail ov) eqn:Ec.
      { right; left. exists cors_pst. split; [reflexivity|]. apply cors_pst_nb.
        apply andb_true_iff in Ec as [Ec _]. exact Ec. }
      destruct (get_or_head (rq_method r)) eqn:Em.
      + destruct (fs t) as [c|] eqn:Ef.
        * right; right. exists t, c. repeat split; auto.
        * right; left. eexists. split; [reflexivity | apply err_pst_nb].
      + right; left. eexists. split; [reflexivity | apply err_pst_nb].
    - destruct (cors && is_cors_fail ov) eqn:Ec.
      + right; left. exists cors_pst. split; [reflexivity|]. apply cors_pst_nb.
        apply andb_true_iff in Ec as [Ec _]. exact Ec.
      + right; left. eexists. split; [reflexivity | apply err_pst_nb].
    - exfalso. unfold served_file in Es. destruct (PathSan.decoded_for_use (rq_path r)) as [d|]; [|discriminate].
      destruct (PathSan.parse_uri d); discriminate.
    - left. reflexivity.
  Qed.

  (** the per-request decision: an answer with the secret is an answer for a permitted request, and its
      server cache preference is None *)
  Lemma decision_strong r ov ok :
    bad (f_body (LB r ov ok)) = true -> permitted fs r /\ f_spref (LB r ov ok) = SP_NONE.
  Proof.
    intros Hb. unfold layer_b in *.
    destruct (base_cases r ov ok) as [E | [(st & E & Hn) | (t & c & Hok & Hc & Es & Em & Ef & E)]]; rewrite E in *.
    { rewrite panic_fat_clean in Hb. discriminate. }
    { rewrite fat_of_body in Hb. pose proof (present_nb r st Hn) as Hn'. unfold nb in Hn'. congruence. }
    rewrite fat_of_body in Hb. rewrite fat_of_spref.
    pose proof (private_hit_served _ _ Es) as Hp.
    unfold present in *. cbn [ps_body file_pst] in *.
    pose proof (entries_of_line c) as Hent.
    destruct (line_of c) as [p|] eqn:Ep.
    - (* a line was parsed *)
      cbn [ps_status ps_headers ps_spref ps_cpref ps_locked file_pst] in *.
      destruct (private_hit true (rq_path r)) eqn:Eh.
      { pose proof (nb_fold (rq_addr r) (PresentLine.p_entries p) _ (nb_hide (mkP 200 [] (PresentLine.p_body p) SP_FULL CFull false))) as Hn.
        unfold nb in Hn. congruence. }
      destruct (has_name N_HIDE (PresentLine.p_entries p)) eqn:Hh.
      { pose proof (fold_hide (rq_addr r) _ (mkP 200 [] (PresentLine.p_body p) SP_FULL CFull false) Hh) as Hn.
        unfold nb in Hn. congruence. }
      destruct (listed (rq_addr r) (PresentLine.p_entries p)) eqn:Hl.
      2:{ pose proof (fold_unlisted (rq_addr r) _ (mkP 200 [] (PresentLine.p_body p) SP_FULL CFull false) Hl) as Hn.
          unfold nb in Hn. congruence. }
      assert (Hbody : bad (PresentLine.p_body p) = true).
      { destruct (bad (PresentLine.p_body p)) eqn:E0; [reflexivity|].
        pose proof (nb_fold (rq_addr r) (PresentLine.p_entries p) (mkP 200 [] (PresentLine.p_body p) SP_FULL CFull false) E0) as Hn.
        unfold nb in Hn. congruence. }
      destruct (line_of_suffix c p Ep) as [k Hk]. rewrite Hk in Hbody.
      apply contains_sub_skipn in Hbody.
      pose proof (Hfs t c Ef Hbody) as Hg. unfold guarded, is_hidden in Hg.
      rewrite Hent, Hh, <- Hp in Hg. cbn [orb] in Hg.
      split.
      + exists t, c. repeat split; try assumption.
        * unfold is_hidden. rewrite Hent, Hh, <- Hp. reflexivity.
        * rewrite Hent. exact Hl.
      + unfold is_allow_ips in Hg. rewrite Hent in Hg.
        pose proof (fold_locked fix_errline errpage tmpl (rq_addr r) (PresentLine.p_entries p)
                      (mkP 200 [] (PresentLine.p_body p) SP_FULL CFull false) (or_intror Hg) Hh) as [_ HS].
        exact HS.
    - (* no line *)
      cbn [fold_left] in *.
      destruct (private_hit true (rq_path r)) eqn:Eh.
      { pose proof (nb_hide (file_pst c)) as Hn. unfold nb in Hn. congruence. }
      cbn [ps_body file_pst] in Hb.
      pose proof (Hfs t c Ef Hb) as Hg. unfold guarded, is_hidden, is_allow_ips in Hg.
      rewrite Hent, <- Hp in Hg. cbn in Hg. discriminate.
  Qed.

  Lemma decision r ov ok : bad (f_body (LB r ov ok)) = true -> permitted fs r.
  Proof. intros H. apply (decision_strong r ov ok H). Qed.

  (** what is admitted to the response cache carries no secret *)
  Lemma stored_clean cache_on sfilter m r ov ok :
    may_store_x cache_on sfilter m (plain (LB r ov ok)) = true -> bad (f_body (LB r ov ok)) = false.
  Proof.
    intros Hs. destruct (bad (f_body (LB r ov ok))) eqn:E; [|reflexivity]. exfalso.
    destruct (decision_strong r ov ok E) as [_ HS].
    unfold may_store_x, wants_cache_x, pref_caches in Hs. cbn [fx_fat plain] in Hs. rewrite HS in Hs.
    rewrite !andb_false_r in Hs. cbn in Hs. rewrite ?andb_false_r in Hs. discriminate.
  Qed.

End Decision.

(** ---------------------------------------------------------------------------
    The response cache (Model/CacheX.v, the repaired [handle_vary_missing]) above any layer whose
    answers with guarded content are answers to permitted requests and are never admitted. *)
Section CacheConfinement.
  Variable hstate : Type.
  Variable compute : hstate -> request -> option (bytes * option bytes) -> bool -> fatx * hstate * list bytes.
  Variable cache_on ims_on : bool.
  Variable fix_ovkey fix_clear fix_svary fix_qmkey fix_ims : bool.
  Variable sfilter : N -> bool.
  Variable parse_ims : bytes -> option Z.
  Variable sanitize_ok : request -> bool.
  Variable prime : request -> request.
  Variable override : request -> option (bytes * option bytes).
  Variable negotiate : request -> fatx -> option (N * bytes).
  Variable vary_tuple : request -> option (bytes * option bytes) -> tuple.
  Variable vary_header : request -> option (bytes * option bytes) -> fatx -> list (bytes * bytes).
  Variable clear_alias : request -> option request.
  Variable bad : bytes -> bool.
  Variable okreq : request -> Prop.
  Notation cf hs r ov ok := (fst (fst (compute hs r ov ok))).
  Notation xbody x := (f_body (fx_fat x)).
  Hypothesis bad_nil' : bad [] = false.
  Hypothesis Hreq : forall hs r ov ok, bad (xbody (cf hs r ov ok)) = true -> okreq r.
  Hypothesis Hstore : forall hs r ov ok,
    may_store_x cache_on sfilter (rq_method r) (cf hs r ov ok) = true -> bad (xbody (cf hs r ov ok)) = false.
  Hypothesis Hneg : forall r x st b, negotiate r x = Some (st, b) -> bad b = false.

  Notation finishR := (finishX fix_svary negotiate vary_header).
  Notation missR := (missX hstate compute cache_on ims_on fix_ovkey fix_svary sfilter negotiate vary_tuple vary_header).
  Notation vmissR := (vary_missingX hstate compute cache_on ims_on true fix_svary fix_qmkey sfilter negotiate vary_tuple vary_header).
  Notation serveR := (serveX hstate compute cache_on ims_on true fix_ovkey fix_svary fix_qmkey fix_ims sfilter parse_ims sanitize_ok
                             prime override negotiate vary_tuple vary_header).
  Notation stepR := (stepX hstate compute cache_on ims_on true fix_ovkey fix_clear fix_svary fix_qmkey fix_ims sfilter parse_ims
                           sanitize_ok prime override negotiate vary_tuple vary_header clear_alias).
  Notation runR := (runX hstate compute cache_on ims_on true fix_ovkey fix_clear fix_svary fix_qmkey fix_ims sfilter parse_ims
                         sanitize_ok prime override negotiate vary_tuple vary_header clear_alias).

  (** no stored variant holds guarded content *)
  Definition XInv (c : cachex) : Prop :=
    forall k e v, xc_find k c = Some e -> In v (ex_vars e) -> bad (xbody (v_resp v)) = false.
  Definition reply_leaks (rp : replyx) : bool := bad (rx_body rp) || bad (rx_identity rp).

  Lemma XInv_nil : XInv [].
  Proof. intros k e v H. discriminate. Qed.
  Lemma XInv_remove k c : XInv c -> XInv (xc_remove k c).
  Proof. intros H k0 e0 v. rewrite xc_find_remove. destruct (key_eqb k0 k); [discriminate|]. apply H. Qed.
  Lemma XInv_insert k e c :
    XInv c -> (forall v, In v (ex_vars e) -> bad (xbody (v_resp v)) = false) -> XInv (xc_insert k e c).
  Proof.
    intros H He k0 e0 v. rewrite xc_find_insert. destruct (key_eqb k0 k).
    - intros H0; inversion H0; subst. apply He.
    - apply H.
  Qed.
  Lemma XInv_lookup lr c now k res c' :
    xlookup lr c now = ((k, res), c') -> XInv c ->
    XInv c' /\ (forall e, res = Some e -> forall v, In v (ex_vars e) -> bad (xbody (v_resp v)) = false).
  Proof.
    intros L I. destruct (xlookup_cases _ _ _ _ _ _ L) as (_ & Hc & Hres). split.
    - intros k0 e0 v F. destruct (Hc k0) as [E | [E _]]; rewrite E in F; [eapply I; exact F | discriminate].
    - intros e -> v Hin. destruct Hres as (F & _ & _). eapply I; eassumption.
  Qed.
  Lemma XInv_clear_uri r c : XInv c -> XInv (xclear_uri r c).
  Proof. intros I. unfold xclear_uri. apply XInv_remove, XInv_remove, I. Qed.

  Lemma finish_leaks r ov x lm cached ma :
    reply_leaks (finishR r ov x lm cached ma) = true -> bad (xbody x) = true.
  Proof.
    unfold finishX, reply_leaks.
    destruct (if is_stream x then None else negotiate r x) as [[st b]|] eqn:E; cbn [rx_body rx_identity].
    - destruct (is_stream x); [discriminate|]. rewrite (Hneg _ _ _ _ E). cbn [orb]. auto.
    - rewrite orb_diag. auto.
  Qed.

  Lemma miss_conf c1 hs now r ov ok st' rp lg :
    XInv c1 -> missR c1 hs now r ov ok = (st', rp, lg) ->
    XInv (fst st') /\ (reply_leaks rp = true -> okreq r).
  Proof.
    intros Hc. unfold missX.
    pose proof (Hstore hs r ov ok) as HS. pose proof (Hreq hs r ov ok) as HR.
    destruct (compute hs r ov ok) as [[x hs'] lg'] eqn:Ec. cbn [fst] in HS, HR.
    destruct (may_store_x cache_on sfilter (rq_method r) x) eqn:Em; intros H; inversion H; subst st' rp lg; cbn [fst].
    - split.
      + apply XInv_insert; [exact Hc|]. cbn [ex_vars]. intros v [<- | []]. cbn [v_resp]. apply HS. reflexivity.
      + intros Hl. apply finish_leaks in Hl. apply HR, Hl.
    - split; [exact Hc|]. intros Hl. apply finish_leaks in Hl. apply HR, Hl.
  Qed.

  Lemma serve_conf st now r0 st' rp lg :
    XInv (fst st) -> serveR st now r0 = (st', rp, lg) ->
    XInv (fst st') /\ (reply_leaks rp = true -> okreq (prime r0)).
  Proof.
    destruct st as [c hs]. cbn [fst]. intros Hc. unfold serveX.
    set (r := prime r0). set (ok := sanitize_ok r0). set (ov := override r0).
    destruct (negb cache_on) eqn:Eon.
    { pose proof (Hreq hs r ov ok) as HR.
      destruct (compute hs r ov ok) as [[x hs'] lg'] eqn:Ec. cbn [fst] in HR.
      intros H; inversion H; subst st' rp lg. cbn [fst]. split; [exact Hc|].
      intros Hl. apply finish_leaks in Hl. apply HR, Hl. }
    destruct (xlookup (lookup_req r ov) c now) as [[k found] c1] eqn:El.
    destruct (XInv_lookup _ _ _ _ _ _ El Hc) as [Hc1 Hfound].
    destruct found as [e|]; [|apply miss_conf; exact Hc1].
    destruct (ok && get_or_head (rq_method r)); [|apply miss_conf; exact Hc1].
    pose proof (Hfound e eq_refl) as Hclean_e.
    match goal with |- (if ?b then _ else _) = _ -> _ => destruct b end.
    { intros H; inversion H; subst st' rp lg. cbn [fst]. split; [exact Hc1|].
      unfold reply_leaks. cbn [rx_body rx_identity]. rewrite bad_nil'. discriminate. }
    destruct (xv_find (vary_tuple r ov) (ex_vars e)) as [v|] eqn:Ev.
    { intros H; inversion H; subst st' rp lg. cbn [fst]. split; [exact Hc1|].
      intros Hl. apply finish_leaks in Hl. apply xv_find_in in Ev as [Ev _]. rewrite (Hclean_e _ Ev) in Hl. discriminate. }
    unfold vary_missingX.
    pose proof (Hstore hs r ov ok) as HS. pose proof (Hreq hs r ov ok) as HR.
    destruct (compute hs r ov ok) as [[x hs'] lg'] eqn:Ec. cbn [fst] in HS, HR.
    destruct (may_store_x cache_on sfilter (rq_method r) x && (negb fix_qmkey || qm_key_ok k x)) eqn:Ea;
      intros H; inversion H; subst st' rp lg; cbn [fst].
    - apply andb_true_iff in Ea as [Ea _]. split.
      + apply XInv_insert; [exact Hc1|]. cbn [ex_vars]. intros v [<- | Hin].
        * cbn [v_resp]. apply HS, Ea.
        * apply Hclean_e, Hin.
      + intros Hl. apply finish_leaks in Hl. apply HR, Hl.
    - split; [exact Hc1|]. intros Hl. apply finish_leaks in Hl. apply HR, Hl.
  Qed.

  Definition obs_ok (o : opx) (ob : obsx) : Prop :=
    match o, ob with
    | XReq r, XbReply rp _ => reply_leaks rp = true -> okreq (prime r)
    | _, _ => True
    end.

  Lemma step_conf st now o st' now' ob :
    XInv (fst st) -> stepR st now o = (st', now', ob) -> XInv (fst st') /\ obs_ok o ob.
  Proof.
    intros Hc. destruct o as [r|r| |ms]; cbn [stepX].
    - destruct (serveR st now r) as [[st1 rp] lg] eqn:Es.
      intros H; inversion H; subst. cbn [obs_ok]. eapply serve_conf; eassumption.
    - destruct st as [c hs]. intros H; inversion H; subst. cbn [fst obs_ok]. split; [|exact I].
      unfold xclear_page. destruct (if fix_clear then clear_alias r else None); repeat apply XInv_clear_uri; exact Hc.
    - destruct st as [c hs]. intros H; inversion H; subst. cbn [fst obs_ok]. split; [apply XInv_nil|exact I].
    - intros H; inversion H; subst. split; [exact Hc|exact I].
  Qed.

  Lemma run_conf ops : forall st now, XInv (fst st) -> Forall2 obs_ok ops (runR st now ops).
  Proof.
    induction ops as [|o ops IH]; intros st now Hc; cbn [runX]; [constructor|].
    destruct (stepR st now o) as [[st' now'] ob] eqn:Es.
    destruct (step_conf _ _ _ _ _ _ Hc Es) as [Hc' Hob].
    constructor; [exact Hob|]. apply IH. exact Hc'.
  Qed.
End CacheConfinement.

(** ---------------------------------------------------------------------------
    The property. *)
Lemma Forall2_mono {A B} (R1 R2 : A -> B -> Prop) l1 l2 :
  (forall a b, R1 a b -> R2 a b) -> Forall2 R1 l1 l2 -> Forall2 R2 l1 l2.
Proof. intros H F. induction F; constructor; auto. Qed.

Section Confined.
  Variable fix_errline cors : bool.
  Variable fs : bytes -> option bytes.
  Variable errpage : N -> bytes.
  Variable tmpl : list bytes -> bytes -> bytes.
  Variable secret : bytes.
  Hypothesis Hfs : forall t c, fs t = Some c -> contains_sub secret c = true -> guarded t c = true.
  Hypothesis Herr_clean : forall s, contains_sub secret (errpage s) = false.
  Hypothesis Htmpl : forall args b, contains_sub secret (tmpl args b) = true -> contains_sub secret b = true.
  Hypothesis Hcors : cors = true -> contains_sub secret (ps_body cors_pst) = false.

  Lemma guarded_content_confined_lemma :
    forall cache_on ims_on fix_ovkey fix_clear fix_svary fix_qmkey fix_ims sfilter parse_ims prime override refuses
           vary_tuple vary_header clear_alias now ops,
      Forall2 (reply_ok fs secret prime) ops
        (run_g true true fix_errline cors fs errpage tmpl cache_on ims_on fix_ovkey fix_clear fix_svary fix_qmkey fix_ims
               sfilter parse_ims prime override refuses vary_tuple vary_header clear_alias [] now ops).
  Proof.
    intros. unfold run_g.
    pose proof (run_conf unit (compute_g true true fix_errline cors fs errpage tmpl) cache_on ims_on
                  fix_ovkey fix_clear fix_svary fix_qmkey fix_ims sfilter parse_ims
                  sanitize_ok_g prime override (negotiate_g errpage refuses) vary_tuple vary_header clear_alias
                  (contains_sub secret) (permitted fs)) as H.
    assert (Hall : Forall2 (obs_ok prime (contains_sub secret) (permitted fs)) ops
                (runX unit (compute_g true true fix_errline cors fs errpage tmpl) cache_on ims_on true fix_ovkey fix_clear
                      fix_svary fix_qmkey fix_ims sfilter parse_ims sanitize_ok_g prime override
                      (negotiate_g errpage refuses) vary_tuple vary_header clear_alias ([], tt) now ops)).
    { apply H.
      - apply (bad_nil cors fs errpage tmpl secret Hfs Herr_clean Htmpl Hcors).
      - intros hs r ov ok. cbn [compute_g fst plain fx_fat].
        apply (decision fix_errline cors fs errpage tmpl secret Hfs Herr_clean Htmpl Hcors).
      - intros hs r ov ok. cbn [compute_g fst].
        apply (stored_clean fix_errline cors fs errpage tmpl secret Hfs Herr_clean Htmpl Hcors).
      - intros r x st' b. unfold negotiate_g. destruct (refuses r x); [|discriminate].
        intros E; inversion E; subst. apply Herr_clean.
      - apply XInv_nil. }
    clear H. eapply Forall2_mono; [|exact Hall]. intros o ob Ho.
    destruct o as [r|r| |ms], ob as [rp lg| |]; cbn [reply_ok obs_ok] in *; auto.
  Qed.

  (** [allow-ips] forces the server preference None for every answer of the file (any address,
      any [cache] directive on the line), hence the answer may not be stored *)
  Lemma allow_ips_never_stored_lemma :
    forall r ov t c cache_on sfilter,
      served_file (rq_path r) = Ok (Some t) -> fs t = Some c -> is_hidden t c = false -> is_allow_ips c = true ->
      get_or_head (rq_method r) = true -> (cors && is_cors_fail ov) = false ->
      f_spref (layer_b true true fix_errline cors fs errpage tmpl r ov true) = SP_NONE /\
      may_store_x cache_on sfilter (rq_method r) (plain (layer_b true true fix_errline cors fs errpage tmpl r ov true)) = false.
  Proof.
    intros r ov t c cache_on sfilter Es Ef Hh Ha Hm Hc.
    pose proof (allow_ips_spref_none fix_errline errpage tmpl cors fs r ov t c Es Ef Hh Ha Hm Hc) as HS.
    split; [exact HS|]. unfold may_store_x, wants_cache_x, pref_caches. cbn [fx_fat plain is_stream fx_stream negb andb]. rewrite HS.
    destruct cache_on; reflexivity.
  Qed.
End Confined.

(** ---------------------------------------------------------------------------
    [permitted] is decidable by [permitted_b] (used by the spec component and the witnesses) *)
Lemma permitted_b_true fs r : permitted_b fs r = true <-> permitted fs r.
Proof.
  unfold permitted_b, permitted. split.
  - destruct (served_file (rq_path r)) as [[t|]|e|] eqn:Es; try discriminate.
    destruct (fs t) as [c|] eqn:Ef; try discriminate.
    intros H. apply andb_true_iff in H as [H Hl]. apply andb_true_iff in H as [Hh Ha].
    exists t, c. repeat split; auto. destruct (is_hidden t c); [discriminate|reflexivity].
  - intros [t [c [Es [Ef [Hh [Ha Hl]]]]]]. rewrite Es, Ef, Hh, Ha, Hl. reflexivity.
Qed.
Lemma permitted_b_false fs r : permitted_b fs r = false -> ~ permitted fs r.
Proof. intros H P. apply permitted_b_true in P. congruence. Qed.

(** a history violates the property: some reply carries the secret although its request is not permitted *)
Definition violates (fs : bytes -> option bytes) (secret : bytes) (ops : list opx) (obs : list obsx) : Prop :=
  exists i r rp lg, nth_error ops i = Some (XReq r) /\ nth_error obs i = Some (XbReply rp lg) /\
                    leaks secret rp = true /\ ~ permitted fs r.

Lemma violates_not_ok fs secret ops obs : violates fs secret ops obs -> ~ Forall2 (reply_ok fs secret (fun r => r)) ops obs.
Proof.
  intros [i [r [rp [lg [Ho [Hb [Hl Hp]]]]]]] F. revert i Ho Hb.
  induction F as [|o ob ops obs Hok F IH]; intros [|i] Ho Hb; cbn [nth_error] in *; try discriminate.
  - inversion Ho; inversion Hb; subst. cbn [reply_ok] in Hok. auto.
  - eapply IH; eassumption.
Qed.

(** ---------------------------------------------------------------------------
    A concrete host: one file of each kind.  Used for the non-vacuity examples and for the
    witnesses against the code before the repairs. *)
Definition W_SECRET : bytes := Eval vm_compute in B "SECRET-7f3a".
Definition w_private : bytes := Eval vm_compute in B "SECRET-7f3a of secret.private".
Definition w_ac : bytes := Eval vm_compute in B "!> allow-ips 10.0.0.1 &> cache server:full" ++ [10] ++ B "SECRET-7f3a for 10.0.0.1 only".
Definition w_v6 : bytes := Eval vm_compute in B "!> allow-ips ::ffff:10.0.0.1 2001:db8::1" ++ [10] ++ B "SECRET-7f3a for two IPv6 clients".
Definition w_hide : bytes := Eval vm_compute in B "!> hide" ++ [10] ++ B "SECRET-7f3a for nobody".
Definition w_both : bytes := Eval vm_compute in B "!> hide &> allow-ips 10.0.0.1" ++ [10] ++ B "SECRET-7f3a hidden and listed".
Definition w_plain : bytes := Eval vm_compute in B "public text".
Definition w_fs (t : bytes) : option bytes :=
  if beq t (B "secret.private") then Some w_private
  else if beq t (B "ac.txt") then Some w_ac
  else if beq t (B "v6.txt") then Some w_v6
  else if beq t (B "h.txt") then Some w_hide
  else if beq t (B "both.txt") then Some w_both
  else if beq t (B "p.txt") then Some w_plain
  else None.
Definition w_err (s : N) : bytes := Eval vm_compute in B "<!DOCTYPE html><html><head><title>error</title></head></html>".
Definition w_tmpl (args : list bytes) (b : bytes) : bytes := b.
Definition w_get (p : bytes) (addr : N) : opx := XReq (mkReq M_GET p None [] addr).
Definition w_run_gen (err : N -> bytes) (tm : list bytes -> bytes -> bytes) (fix_ext fix_lock fix_errline cache_on : bool) (ops : list opx) : list obsx :=
  run_g fix_ext fix_lock fix_errline false w_fs err tm cache_on true true true true true true status_filter_drop
        (fun _ => None) (fun r => r) (fun _ => None) (fun _ _ => false) (fun _ _ => []) (fun _ _ _ => []) clear_alias_fix [] 0 ops.
Definition w_run_err (err : N -> bytes) := w_run_gen err w_tmpl.
Definition w_run (fix_ext fix_lock cache_on : bool) (ops : list opx) : list obsx :=
  w_run_err w_err fix_ext fix_lock true cache_on ops.

Lemma w_hypotheses :
  (forall t c, w_fs t = Some c -> contains_sub W_SECRET c = true -> guarded t c = true) /\
  (forall s, contains_sub W_SECRET (w_err s) = false) /\
  (forall args b, contains_sub W_SECRET (w_tmpl args b) = true -> contains_sub W_SECRET b = true).
Proof.
  split; [|split; [intros s; vm_compute; reflexivity | intros args b H; exact H]].
  intros t c. unfold w_fs.
  destruct (beq t (B "secret.private")) eqn:E1.
  { apply beq_eq in E1. subst. intros H _. inversion H; subst. vm_compute. reflexivity. }
  destruct (beq t (B "ac.txt")) eqn:E2.
  { apply beq_eq in E2. subst. intros H _. inversion H; subst. vm_compute. reflexivity. }
  destruct (beq t (B "v6.txt")) eqn:E2'.
  { apply beq_eq in E2'. subst. intros H _. inversion H; subst. vm_compute. reflexivity. }
  destruct (beq t (B "h.txt")) eqn:E3.
  { apply beq_eq in E3. subst. intros H _. inversion H; subst. vm_compute. reflexivity. }
  destruct (beq t (B "both.txt")) eqn:E3'.
  { apply beq_eq in E3'. subst. intros H _. inversion H; subst. vm_compute. reflexivity. }
  destruct (beq t (B "p.txt")) eqn:E4; [|discriminate].
  intros H Hc. inversion H; subst. vm_compute in Hc. discriminate.
Qed.

(** non-vacuity: on the repaired model the listed address does receive the content (and is
    permitted), every other request of the history gets the 404 page; the IPv4-mapped IPv6 client is listed
    by [::ffff:10.0.0.1] but not by [10.0.0.1], and the IPv4 client 10.0.0.1 not by [::ffff:10.0.0.1] *)
Definition W_MAPPED : N := Eval vm_compute in V6_BASE + 281470849515521.     (* ::ffff:10.0.0.1 *)
Definition W_DB8 : N := Eval vm_compute in V6_BASE + 42540766411282592856903984951653826561.   (* 2001:db8::1 *)
Definition w_history : list opx :=
  [ w_get (B "/ac.txt") 1; w_get (B "/ac.txt") 2; w_get (B "/ac%2Etxt") 1; w_get (B "/ac%2etxt") 3;
    w_get (B "/secret.private") 1; w_get (B "/secret%2Eprivate") 1; w_get (B "/%73ecret%2e%70rivate") 1;
    w_get (B "/h.txt") 1; w_get (B "/%68.txt") 1; w_get (B "/p.txt") 9;
    w_get (B "/ac.txt") W_MAPPED; w_get (B "/v6.txt") W_MAPPED; w_get (B "/v6.txt") 1; w_get (B "/v6.txt") W_DB8;
    w_get (B "/ac.txt") (V4_BASE + 167772161) ].
Definition w_summary (ops : list opx) (obs : list obsx) : list (N * bool * bool) :=
  map (fun '(o, ob) => match o, ob with
                       | XReq r, XbReply rp _ => (rx_status rp, leaks W_SECRET rp, permitted_b w_fs r)
                       | _, _ => (0, false, false)
                       end) (combine ops obs).
Lemma w_history_repaired :
  w_summary w_history (w_run true true true w_history) =
    [ (200, true, true); (404, false, false); (200, true, true); (404, false, false);
      (404, false, false); (404, false, false); (404, false, false);
      (404, false, false); (404, false, false); (200, false, false);
      (404, false, false); (200, true, true); (404, false, false); (200, true, true);
      (200, true, true) ].
Proof. vm_compute. reflexivity. Qed.

(** the code before the first repair (file extension looked up on the raw path): [/secret%2Eprivate] *)
Lemma private_spelling_v0_refuted_lemma :
  forall cache_on, violates w_fs W_SECRET [w_get (B "/secret%2Eprivate") 2]
                            (w_run false true cache_on [w_get (B "/secret%2Eprivate") 2]).
Proof.
  intros cache_on. exists 0%nat. eexists. eexists. eexists.
  split; [reflexivity|]. split; [destruct cache_on; vm_compute; reflexivity|].
  split; [destruct cache_on; vm_compute; reflexivity|]. apply permitted_b_false. vm_compute. reflexivity.
Qed.

(** the code before the second repair (a later [cache] directive overrides [allow-ips]): the listed
    address first, then any other address is served from the cache *)
Lemma cache_directive_v0_refuted_lemma :
  violates w_fs W_SECRET [w_get (B "/ac.txt") 1; w_get (B "/ac.txt") 2]
                         (w_run true false true [w_get (B "/ac.txt") 1; w_get (B "/ac.txt") 2]).
Proof.
  exists 1%nat. eexists. eexists. eexists.
  split; [reflexivity|]. split; [vm_compute; reflexivity|].
  split; [vm_compute; reflexivity|]. apply permitted_b_false. vm_compute. reflexivity.
Qed.

Lemma reply_ok_meaning_lemma fs secret prime r0 rp lg :
  reply_ok fs secret prime (XReq r0) (XbReply rp lg) -> let r := prime r0 in
  contains_sub secret (rx_body rp) = true \/ contains_sub secret (rx_identity rp) = true ->
  exists t c, served_file (rq_path r) = Ok (Some t) /\ fs t = Some c /\
              is_private t = false /\ has_name N_HIDE (entries_of c) = false /\
              has_name N_ALLOW (entries_of c) = true /\ listed (rq_addr r) (entries_of c) = true.
Proof.
  unfold reply_ok. intros H. cbv zeta. intros Hl.
  assert (leaks secret rp = true) as L by (unfold leaks; apply orb_true_iff; exact Hl).
  destruct (H L) as [t [c [Es [Ef [Hh [Ha Hli]]]]]].
  unfold is_hidden in Hh. apply orb_false_iff in Hh as [H1 H2].
  exists t, c. repeat split; assumption.
Qed.

Lemma spelling_example_lemma :
  pct_encode [None; None; Some (true, true)] (B "/s.private") = B "/s%2Eprivate" /\
  pct_encode [None; Some (false, false); Some (false, false)] (B "/s.private") = B "/%73%2eprivate" /\
  mask_ok [None; None; Some (true, true)] (B "/s.private") = true.
Proof. vm_compute. repeat split; reflexivity. Qed.

(** ---------------------------------------------------------------------------
    "the answer is the host's 404".  The host's 404 page as a client sees it: [errors/404.html] without its
    [!> ] line, else the hard-coded page. *)
Definition host_404_body (errpage : N -> bytes) : bytes :=
  match line_of (errpage 404) with Some p => PresentLine.p_body p | None => errpage 404 end.

Section NotFound.
  Variable cors : bool.
  Variable fs : bytes -> option bytes.
  Variable errpage : N -> bytes.
  Variable tmpl : list bytes -> bytes -> bytes.
  (** the 404 page is not a template *)
  Hypothesis Herr_notmpl : first_tmpl (entries_of (errpage 404)) = None.
  Notation stepv := (step true true errpage tmpl).
  Notation H404 := (host_404_body errpage).
  Definition is404 (st : pst) : Prop := ps_status st = 404 /\ ps_body st = H404.

  Lemma hide_body_404 : error_body_hide true errpage tmpl 404 = H404.
  Proof.
    unfold error_body_hide, host_404_body. rewrite entries_of_line in Herr_notmpl.
    destruct (line_of (errpage 404)) as [p|]; [|reflexivity]. rewrite Herr_notmpl. reflexivity.
  Qed.
  Lemma allow_body_404 : error_body_allow true errpage 404 = H404.
  Proof. unfold error_body_allow, host_404_body. destruct (line_of (errpage 404)); reflexivity. Qed.

  Lemma is404_hide st : is404 (do_hide true errpage tmpl st).
  Proof. split; [reflexivity|]. cbn [do_hide to_error ps_body]. apply hide_body_404. Qed.

  Lemma is404_step addr st e : fst e <> N_TMPL -> is404 st -> is404 (stepv addr st e).
  Proof.
    intros Hn [H1 H2]. destruct e as [name args]. cbn [fst] in Hn. unfold step.
    destruct (beq name N_HIDE); [apply is404_hide|].
    destruct (beq name N_ALLOW).
    { unfold do_allow. destruct (existsb (arg_matches addr) args); split; cbn [ps_status ps_body to_error]; auto. }
    destruct (beq name N_CACHE).
    { unfold do_cache. destruct (cache_parse args None None). split; cbn; auto. }
    destruct (beq name N_DOWNLOAD); [split; cbn; auto|].
    destruct (beq name N_TMPL) eqn:E; [apply beq_eq in E; contradiction|]. split; assumption.
  Qed.
  Definition no_tmpl (es : list PresentLine.entry) : Prop := Forall (fun e => fst e <> N_TMPL) es.
  Lemma no_tmpl_b es : has_name N_TMPL es = false -> no_tmpl es.
  Proof.
    induction es as [|e es IH]; intros H; [constructor|]. cbn [has_name existsb] in H.
    apply orb_false_iff in H as [H1 H2]. constructor; [|apply IH, H2].
    intros E. rewrite E, beq_refl in H1. discriminate.
  Qed.
  Lemma is404_fold addr es st : no_tmpl es -> is404 st -> is404 (fold_left (stepv addr) es st).
  Proof.
    revert st; induction es as [|e es IH]; intros st Hn H; cbn [fold_left]; [exact H|].
    inversion Hn; subst. apply IH; [assumption|]. apply is404_step; assumption.
  Qed.

  Lemma fold_hide_404 addr es st : no_tmpl es -> has_name N_HIDE es = true -> is404 (fold_left (stepv addr) es st).
  Proof.
    revert st; induction es as [|[name args] es IH]; intros st Hn H; cbn [fold_left has_name existsb fst] in *; [discriminate|].
    inversion Hn; subst.
    unfold has_name in IH. apply orb_true_iff in H as [H|H]; [|apply IH; assumption].
    apply is404_fold; [assumption|]. unfold step. rewrite H. apply is404_hide.
  Qed.
  Lemma fold_unlisted_404 addr es st : no_tmpl es -> listed addr es = false -> is404 (fold_left (stepv addr) es st).
  Proof.
    revert st; induction es as [|[name args] es IH]; intros st Hn H; cbn [fold_left listed forallb fst snd] in *; [discriminate|].
    inversion Hn; subst.
    unfold listed in IH. apply andb_false_iff in H as [H|H]; [|apply IH; assumption].
    apply is404_fold; [assumption|]. unfold step.
    destruct (beq name N_HIDE); [apply is404_hide|].
    destruct (beq name N_ALLOW); [|discriminate].
    unfold do_allow. rewrite H. split; [reflexivity|]. cbn [to_error ps_body]. apply allow_body_404.
  Qed.

  (** below the cache: for a GET/HEAD of a readable file that is hidden / private, or marked [allow-ips]
      without listing the client address, status 404 and the host's 404 page, whatever the spelling *)
  Lemma guarded_answer_is_404_lemma r ov t c :
    served_file (rq_path r) = Ok (Some t) -> fs t = Some c -> get_or_head (rq_method r) = true ->
    (cors && is_cors_fail ov) = false -> has_name N_TMPL (entries_of c) = false ->
    is_hidden t c = true \/ listed (rq_addr r) (entries_of c) = false ->
    f_status (layer_b true true true cors fs errpage tmpl r ov true) = 404 /\
    f_body (layer_b true true true cors fs errpage tmpl r ov true) = H404.
  Proof.
    intros Es Ef Em Ec Hnt H.
    pose proof (private_hit_served _ _ Es) as Hp.
    unfold layer_b, base. cbn [negb]. rewrite Es, Ec, Em, Ef.
    unfold present. cbn [ps_body file_pst].
    unfold is_hidden in H. rewrite entries_of_line in H, Hnt. rewrite <- Hp in H.
    assert (G : forall st : pst, is404 st -> f_status (fat_of st) = 404 /\ f_body (fat_of st) = H404)
      by (intros st [A B0]; split; assumption).
    apply G.
    destruct (line_of c) as [p|].
    - apply no_tmpl_b in Hnt.
      destruct (private_hit true (rq_path r)); [apply is404_fold; [exact Hnt | apply is404_hide]|].
      cbn [orb] in H. destruct H as [H|H]; [apply fold_hide_404 | apply fold_unlisted_404]; assumption.
    - cbn [fold_left]. destruct (private_hit true (rq_path r)); [apply is404_hide|].
      destruct H as [H|H]; cbn in H; discriminate.
  Qed.
End NotFound.

(** ---------------------------------------------------------------------------
    What the response cache can answer with: every stored variant was admitted when it was computed for a
    request whose looked-up URI has the path of the key it is stored under (the repaired insert key). *)
Definition key_path (k : key) : bytes := match k with KPath p => p | KPathQuery s i => firstn i s end.
Lemma key_path_pq r : key_path (key_pq r) = rq_path r.
Proof. unfold key_pq. pose proof (path_query_fst r) as H. destruct (path_query r) as [s i]. exact H. Qed.
Lemma key_path_p r : key_path (key_p r) = rq_path r.
Proof. reflexivity. Qed.
Lemma insert_key_path r f : key_path (insert_key r f) = rq_path r.
Proof. unfold insert_key. destruct (f_spref f =? SP_QUERY); [apply key_path_pq|apply key_path_p]. Qed.

Section CacheAnswers.
  Variable hstate : Type.
  Variable compute : hstate -> request -> option (bytes * option bytes) -> bool -> fatx * hstate * list bytes.
  Variable cache_on ims_on : bool.
  Variable fix_clear fix_svary fix_qmkey fix_ims : bool.
  Variable sfilter : N -> bool.
  Variable parse_ims : bytes -> option Z.
  Variable sanitize_ok : request -> bool.
  Variable prime : request -> request.
  Variable override : request -> option (bytes * option bytes).
  Variable negotiate : request -> fatx -> option (N * bytes).
  Variable vary_tuple : request -> option (bytes * option bytes) -> tuple.
  Variable vary_header : request -> option (bytes * option bytes) -> fatx -> list (bytes * bytes).
  Variable clear_alias : request -> option request.
  (** [Q p x]: [x] is an acceptable answer to keep for the path [p] *)
  Variable Q : bytes -> fatx -> Prop.
  Notation cf hs r ov ok := (fst (fst (compute hs r ov ok))).
  Hypothesis HQ : forall hs r0,
    let r := prime r0 in let ov := override r0 in let ok := sanitize_ok r0 in
    may_store_x cache_on sfilter (rq_method r) (cf hs r ov ok) = true -> Q (rq_path (lookup_req r ov)) (cf hs r ov ok).

  Notation finishR := (finishX fix_svary negotiate vary_header).
  Notation missR := (missX hstate compute cache_on ims_on true fix_svary sfilter negotiate vary_tuple vary_header).
  Notation serveR := (serveX hstate compute cache_on ims_on true true fix_svary fix_qmkey fix_ims sfilter parse_ims sanitize_ok
                             prime override negotiate vary_tuple vary_header).
  Notation stepR := (stepX hstate compute cache_on ims_on true true fix_clear fix_svary fix_qmkey fix_ims sfilter parse_ims
                           sanitize_ok prime override negotiate vary_tuple vary_header clear_alias).
  Notation runR := (runX hstate compute cache_on ims_on true true fix_clear fix_svary fix_qmkey fix_ims sfilter parse_ims
                         sanitize_ok prime override negotiate vary_tuple vary_header clear_alias).

  Definition QInv (c : cachex) : Prop :=
    forall k e v, xc_find k c = Some e -> In v (ex_vars e) -> Q (key_path k) (v_resp v).
  (** the reply to [r0]: 304, or made ([finishX]) from a response computed now or from a kept one *)
  Definition answer_from (r0 : request) (rp : replyx) : Prop :=
    let r := prime r0 in let ov := override r0 in let ok := sanitize_ok r0 in
    rx_status rp = 304 \/
    exists x lm ca ma, rp = finishR r ov x lm ca ma /\
                       ((exists hs, x = cf hs r ov ok) \/ Q (rq_path (lookup_req r ov)) x).

  Lemma QInv_nil : QInv [].
  Proof. intros k e v H. discriminate. Qed.
  Lemma QInv_remove k c : QInv c -> QInv (xc_remove k c).
  Proof. intros H k0 e0 v. rewrite xc_find_remove. destruct (key_eqb k0 k); [discriminate|]. apply H. Qed.
  Lemma QInv_insert k e c :
    QInv c -> (forall v, In v (ex_vars e) -> Q (key_path k) (v_resp v)) -> QInv (xc_insert k e c).
  Proof.
    intros H He k0 e0 v. rewrite xc_find_insert. destruct (key_eqb k0 k) eqn:E.
    - apply key_eqb_eq in E. subst k0. intros H0; inversion H0; subst. apply He.
    - apply H.
  Qed.
  Lemma QInv_lookup lr c now k res c' :
    xlookup lr c now = ((k, res), c') -> QInv c ->
    QInv c' /\ key_path k = rq_path lr /\
    (forall e, res = Some e -> forall v, In v (ex_vars e) -> Q (rq_path lr) (v_resp v)).
  Proof.
    intros L I. destruct (xlookup_cases _ _ _ _ _ _ L) as (Hk & Hc & Hres).
    assert (Kp : key_path k = rq_path lr) by (destruct Hk as [-> | ->]; [apply key_path_pq | apply key_path_p]).
    split; [|split; [exact Kp|]].
    - intros k0 e0 v F. destruct (Hc k0) as [E | [E _]]; rewrite E in F; [eapply I; exact F | discriminate].
    - intros e -> v Hin. destruct Hres as (F & _ & _). rewrite <- Kp. eapply I; eassumption.
  Qed.

  Lemma miss_answers c1 hs now r0 st' rp lg :
    QInv c1 -> missR c1 hs now (prime r0) (override r0) (sanitize_ok r0) = (st', rp, lg) ->
    QInv (fst st') /\ answer_from r0 rp.
  Proof.
    intros Hc. unfold missX. pose proof (HQ hs r0) as HS. cbv zeta in HS.
    set (r := prime r0) in *. set (ov := override r0) in *. set (ok := sanitize_ok r0) in *.
    destruct (compute hs r ov ok) as [[x hs'] lg'] eqn:Ec. cbn [fst] in HS.
    assert (A : forall lm ca ma, answer_from r0 (finishR r ov x lm ca ma)).
    { intros lm ca ma. right. exists x, lm, ca, ma. split; [reflexivity|]. left. exists hs. fold r ov ok. rewrite Ec. reflexivity. }
    destruct (may_store_x cache_on sfilter (rq_method r) x) eqn:Em; intros H; inversion H; subst st' rp lg; cbn [fst].
    - split; [|apply A].
      apply QInv_insert; [exact Hc|]. cbn [ex_vars]. intros v [<- | []]. cbn [v_resp].
      rewrite insert_key_path. apply HS. reflexivity.
    - split; [exact Hc | apply A].
  Qed.

  Lemma serve_answers st now r0 st' rp lg :
    QInv (fst st) -> serveR st now r0 = (st', rp, lg) -> QInv (fst st') /\ answer_from r0 rp.
  Proof.
    destruct st as [c hs]. cbn [fst]. intros Hc. unfold serveX.
    pose proof (HQ hs r0) as HS. cbv zeta in HS.
    set (r := prime r0) in *. set (ok := sanitize_ok r0) in *. set (ov := override r0) in *.
    destruct (negb cache_on) eqn:Eon.
    { destruct (compute hs r ov ok) as [[x hs'] lg'] eqn:Ec.
      intros H; inversion H; subst st' rp lg. cbn [fst]. split; [exact Hc|].
      right. exists x, false, false, true. split; [reflexivity|]. left. exists hs. fold r ov ok. rewrite Ec. reflexivity. }
    destruct (xlookup (lookup_req r ov) c now) as [[k found] c1] eqn:El.
    destruct (QInv_lookup _ _ _ _ _ _ El Hc) as (Hc1 & Kp & Hfound).
    destruct found as [e|]; [|apply miss_answers; exact Hc1].
    destruct (ok && get_or_head (rq_method r)); [|apply miss_answers; exact Hc1].
    pose proof (Hfound e eq_refl) as Hq.
    match goal with |- (if ?b then _ else _) = _ -> _ => destruct b end.
    { intros H; inversion H; subst st' rp lg. cbn [fst]. split; [exact Hc1|]. left. reflexivity. }
    destruct (xv_find (vary_tuple r ov) (ex_vars e)) as [v|] eqn:Ev.
    { intros H; inversion H; subst st' rp lg. cbn [fst]. split; [exact Hc1|].
      right. exists (v_resp v), ims_on, true, false. split; [reflexivity|]. right.
      apply xv_find_in in Ev as [Ev _]. apply Hq, Ev. }
    unfold vary_missingX.
    destruct (compute hs r ov ok) as [[x hs'] lg'] eqn:Ec. cbn [fst] in HS.
    assert (A : answer_from r0 (finishR r ov x ims_on true false)).
    { right. exists x, ims_on, true, false. split; [reflexivity|]. left. exists hs. fold r ov ok. rewrite Ec. reflexivity. }
    destruct (may_store_x cache_on sfilter (rq_method r) x && (negb fix_qmkey || qm_key_ok k x)) eqn:Ea;
      intros H; inversion H; subst st' rp lg; cbn [fst]; (split; [|exact A]); [|exact Hc1].
    apply andb_true_iff in Ea as [Ea _].
    apply QInv_insert; [exact Hc1|]. cbn [ex_vars]. intros v [<- | Hin]; rewrite Kp.
    - cbn [v_resp]. apply HS, Ea.
    - apply Hq, Hin.
  Qed.

  Definition obs_ans (o : opx) (ob : obsx) : Prop :=
    match o, ob with
    | XReq r0, XbReply rp _ => answer_from r0 rp
    | _, _ => True
    end.

  Lemma step_answers st now o st' now' ob :
    QInv (fst st) -> stepR st now o = (st', now', ob) -> QInv (fst st') /\ obs_ans o ob.
  Proof.
    intros Hc. destruct o as [r|r| |ms]; cbn [stepX].
    - destruct (serveR st now r) as [[st1 rp] lg] eqn:Es.
      intros H; inversion H; subst. cbn [obs_ans]. eapply serve_answers; eassumption.
    - destruct st as [c hs]. intros H; inversion H; subst. cbn [fst obs_ans]. split; [|exact I].
      unfold xclear_page, xclear_uri. destruct (if fix_clear then clear_alias r else None); repeat apply QInv_remove; exact Hc.
    - destruct st as [c hs]. intros H; inversion H; subst. cbn [fst obs_ans]. split; [apply QInv_nil|exact I].
    - intros H; inversion H; subst. split; [exact Hc|exact I].
  Qed.

  Lemma run_answers ops : forall st now, QInv (fst st) -> Forall2 obs_ans ops (runR st now ops).
  Proof.
    induction ops as [|o ops IH]; intros st now Hc; cbn [runX]; [constructor|].
    destruct (stepR st now o) as [[st' now'] ob] eqn:Es.
    destruct (step_answers _ _ _ _ _ _ Hc Es) as [Hc' Hob].
    constructor; [exact Hob|]. apply IH. exact Hc'.
  Qed.
End CacheAnswers.

(** ---------------------------------------------------------------------------
    "the answer is the host's 404", above the cache, for every history. *)
Lemma first_tmpl_none es : has_name N_TMPL es = false -> first_tmpl es = None.
Proof.
  unfold first_tmpl. induction es as [|e es IH]; [reflexivity|]. cbn [has_name existsb find].
  intros H. apply orb_false_iff in H as [H1 H2]. rewrite H1. apply IH, H2.
Qed.
Lemma unlisted_has_allow addr es : listed addr es = false -> has_name N_ALLOW es = true.
Proof.
  induction es as [|e es IH]; cbn [listed forallb has_name existsb]; [discriminate|].
  intros H. apply andb_false_iff in H as [H|H].
  - destruct (beq (fst e) N_ALLOW); [reflexivity | discriminate].
  - apply orb_true_iff. right. apply IH, H.
Qed.

Definition INTERNAL : bytes := Eval vm_compute in B "/./".
(** a request that has to be refused: it passes sanitize, no Prime extension overrides its URI, its (rewritten)
    path is not an internal one and names a readable file that is hidden / private, or marked [allow-ips]
    without listing the client's address (the file's line has no [tmpl] directive) *)
Definition refused (fs : bytes -> option bytes) (prime : request -> request)
           (override : request -> option (bytes * option bytes)) (r0 : request) : Prop :=
  sanitize_ok_g r0 = true /\ override r0 = None /\
  let r := prime r0 in
  starts_with INTERNAL (rq_path r) = false /\ get_or_head (rq_method r) = true /\
  exists t c, served_file (rq_path r) = Ok (Some t) /\ fs t = Some c /\ has_name N_TMPL (entries_of c) = false /\
              (is_hidden t c = true \/ listed (rq_addr r) (entries_of c) = false).
(** the host's 404 — or Not Modified for a conditional request when that 404 is in the cache, or 406 when the
    client accepts no representation of it *)
Definition reply_404 (errpage : N -> bytes) (rp : replyx) : Prop :=
  rx_status rp = 304 \/ rx_status rp = 406 \/
  (rx_status rp = 404 /\ rx_body rp = host_404_body errpage /\ rx_identity rp = host_404_body errpage).
Definition refused_ok (fs : bytes -> option bytes) (errpage : N -> bytes) (prime : request -> request)
           (override : request -> option (bytes * option bytes)) (o : opx) (ob : obsx) : Prop :=
  match o, ob with
  | XReq r0, XbReply rp _ => refused fs prime override r0 -> reply_404 errpage rp
  | _, _ => True
  end.

Section Refused.
  Variable cors : bool.
  Variable fs : bytes -> option bytes.
  Variable errpage : N -> bytes.
  Variable tmpl : list bytes -> bytes -> bytes.
  Variable sfilter : N -> bool.
  Variable prime : request -> request.
  Variable override : request -> option (bytes * option bytes).
  (** no error page is a template *)
  Hypothesis Hnt : forall s, has_name N_TMPL (entries_of (errpage s)) = false.
  (** the host's status filter keeps 400 and 416 out of the cache (the default filter does) *)
  Hypothesis Hsf : sfilter 400 = true /\ sfilter 416 = true.
  (** the URIs Prime extensions answer with are internal ones *)
  Hypothesis Hov : forall r0 p q, override r0 = Some (p, q) -> starts_with INTERNAL p = true.

  Notation H404 := (host_404_body errpage).
  Notation LB := (layer_b true true true cors fs errpage tmpl).
  Notation stepv := (step true true errpage tmpl).
  Notation is404v := (is404 errpage).

  Lemma Hnt404 : first_tmpl (entries_of (errpage 404)) = None.
  Proof. apply first_tmpl_none, Hnt. Qed.

  Lemma fold_404_or_status addr es st :
    no_tmpl es -> is404v (fold_left (stepv addr) es st) \/ ps_status (fold_left (stepv addr) es st) = ps_status st.
  Proof.
    revert st; induction es as [|e es IH]; intros st Hn; cbn [fold_left]; [right; reflexivity|].
    inversion Hn as [|? ? Hne Hn']; subst.
    destruct (step_shape true errpage tmpl addr st e) as [[_ E]|[[_ E]|(_ & _ & _ & Es & _)]].
    - left. rewrite E. apply is404_fold; [exact Hnt404 | exact Hn' | apply is404_hide, Hnt404].
    - rewrite E. unfold do_allow. destruct (existsb (arg_matches addr) (snd e)).
      + destruct (IH (mkP (ps_status st) (ps_headers st) (ps_body st) SP_NONE CChanging true) Hn') as [H|H]; [left; exact H | right; exact H].
      + left. apply is404_fold; [exact Hnt404 | exact Hn' |]. split; [reflexivity|]. cbn [ps_body to_error]. apply allow_body_404.
    - destruct (IH (stepv addr st e) Hn') as [H|H]; [left; exact H | right; congruence].
  Qed.

  (** the answer to a request that fails sanitize, for any path: the 400 / 416 page, or the host's 404 *)
  Lemma sanitize_answer r ov :
    (f_status (LB r ov false) = 404 /\ f_body (LB r ov false) = H404) \/
    f_status (LB r ov false) = 400 \/ f_status (LB r ov false) = 416.
  Proof.
    unfold layer_b, base. cbn [negb].
    set (code := match PathSan.sanitize_path (rq_path r) with Ok _ => 416 | _ => 400 end).
    assert (Hcode : code = 400 \/ code = 416) by (unfold code; destruct (PathSan.sanitize_path (rq_path r)); auto).
    unfold present. cbn [ps_body err_pst].
    pose proof (Hnt code) as Hn. rewrite entries_of_line in Hn.
    assert (G : forall st : pst, is404v st -> (f_status (fat_of st) = 404 /\ f_body (fat_of st) = H404) \/
                                              f_status (fat_of st) = 400 \/ f_status (fat_of st) = 416)
      by (intros st [A B0]; left; split; assumption).
    destruct (line_of (errpage code)) as [p|].
    - apply no_tmpl_b in Hn.
      destruct (private_hit true (rq_path r)).
      + apply G. apply is404_fold; [exact Hnt404 | exact Hn | apply is404_hide, Hnt404].
      + match goal with |- context [fold_left ?f ?es ?st] => destruct (fold_404_or_status (rq_addr r) es st Hn) as [H|H] end.
        * apply G, H.
        * right. cbn [f_status fat_of]. rewrite H. cbn [ps_status]. destruct Hcode as [-> | ->]; auto.
    - cbn [fold_left]. destruct (private_hit true (rq_path r)); [apply G, is404_hide, Hnt404|].
      right. cbn [f_status fat_of ps_status err_pst]. destruct Hcode as [-> | ->]; auto.
  Qed.

  (** a path under which only the host's 404 may be kept *)
  Definition guarded_path (p : bytes) : Prop :=
    starts_with INTERNAL p = false /\
    exists t c, served_file p = Ok (Some t) /\ fs t = Some c /\ has_name N_TMPL (entries_of c) = false /\ guarded t c = true.
  Definition Q404 (p : bytes) (x : fatx) : Prop :=
    guarded_path p -> f_status (fx_fat x) = 404 /\ f_body (fx_fat x) = H404.

  Lemma stored_is_404 cache_on hs r0 :
    let r := prime r0 in let ov := override r0 in let ok := sanitize_ok_g r0 in
    may_store_x cache_on sfilter (rq_method r) (fst (fst (compute_g true true true cors fs errpage tmpl hs r ov ok))) = true ->
    Q404 (rq_path (lookup_req r ov)) (fst (fst (compute_g true true true cors fs errpage tmpl hs r ov ok))).
  Proof.
    cbv zeta. cbn [compute_g fst]. intros Hs [Hint (t & c & Es & Ef & Hntc & Hg)].
    cbn [fx_fat plain].
    unfold may_store_x, wants_cache_x in Hs. cbn [fx_fat plain is_stream fx_stream negb andb] in Hs.
    apply andb_true_iff in Hs as [Hs _]. apply andb_true_iff in Hs as [Hs _].
    apply andb_true_iff in Hs as [Hs Hgh]. apply andb_true_iff in Hs as [Hs Hsf'].
    apply andb_true_iff in Hs as [_ Hpc].
    destruct (override r0) as [[p' q']|] eqn:Eov.
    { cbn [lookup_req rq_path] in Hint. rewrite (Hov _ _ _ Eov) in Hint. discriminate. }
    cbn [lookup_req] in *.
    destruct (sanitize_ok_g r0).
    - unfold guarded in Hg. destruct (is_hidden t c) eqn:Eh.
      + apply (guarded_answer_is_404_lemma cors fs errpage tmpl Hnt404 (prime r0) None t c Es Ef Hgh (andb_false_r _) Hntc).
        left. exact Eh.
      + cbn [orb] in Hg. exfalso.
        rewrite (allow_ips_spref_none true errpage tmpl cors fs (prime r0) None t c Es Ef Eh Hg Hgh) in Hpc by (apply andb_false_r).
        discriminate.
    - destruct (sanitize_answer (prime r0) None) as [H | [H | H]]; [exact H | |]; rewrite H in Hsf'; destruct Hsf as [S1 S2];
        [rewrite S1 in Hsf' | rewrite S2 in Hsf']; discriminate.
  Qed.

  Lemma refused_reply_is_404_lemma :
    forall cache_on ims_on fix_clear fix_svary fix_qmkey fix_ims parse_ims refuses vary_tuple vary_header clear_alias now ops,
      Forall2 (refused_ok fs errpage prime override) ops
        (run_g true true true cors fs errpage tmpl cache_on ims_on true fix_clear fix_svary fix_qmkey fix_ims
               sfilter parse_ims prime override refuses vary_tuple vary_header clear_alias [] now ops).
  Proof.
    intros. unfold run_g.
    pose proof (run_answers unit (compute_g true true true cors fs errpage tmpl) cache_on ims_on
                  fix_clear fix_svary fix_qmkey fix_ims sfilter parse_ims sanitize_ok_g prime override
                  (negotiate_g errpage refuses) vary_tuple vary_header clear_alias Q404
                  (stored_is_404 cache_on) ops ([], tt) now (QInv_nil Q404)) as Hall.
    eapply Forall2_mono; [|exact Hall]. intros o ob Ho.
    destruct o as [r0|r0| |ms], ob as [rp lg| |]; cbn [refused_ok obs_ans] in *; auto.
    intros (Hok & Hovn & Hint & Hgh & t & c & Es & Ef & Hntc & Hcase).
    unfold answer_from in Ho. rewrite Hok, Hovn in Ho. cbn [lookup_req] in Ho.
    destruct Ho as [H304 | (x & lm & ca & ma & -> & Hx)]; [left; exact H304|].
    assert (Hx404 : f_status (fx_fat x) = 404 /\ f_body (fx_fat x) = H404).
    { destruct Hx as [[hs ->] | Hq].
      - cbn [compute_g fst fx_fat plain].
        apply (guarded_answer_is_404_lemma cors fs errpage tmpl Hnt404 (prime r0) None t c Es Ef Hgh (andb_false_r _) Hntc Hcase).
      - apply Hq. split; [exact Hint|]. exists t, c. repeat split; auto.
        unfold guarded. destruct Hcase as [Hh | Hl]; [rewrite Hh; reflexivity|].
        apply unlisted_has_allow in Hl. unfold is_allow_ips. rewrite Hl. apply orb_true_r. }
    destruct Hx404 as [S Bd]. unfold finishX, negotiate_g.
    destruct (is_stream x).
    - right; right. cbn [rx_status rx_body rx_identity]. auto.
    - destruct (refuses (prime r0) x); cbn [rx_status rx_body rx_identity]; [right; left; reflexivity | right; right; auto].
  Qed.
End Refused.

(** ---------------------------------------------------------------------------
    The cache layer looks at the layer below only through its results. *)
Section RunExt.
  Variable hstate : Type.
  Variable compute1 compute2 : hstate -> request -> option (bytes * option bytes) -> bool -> fatx * hstate * list bytes.
  Hypothesis Hext : forall hs r ov ok, compute1 hs r ov ok = compute2 hs r ov ok.
  Variable cache_on ims_on fix_vary fix_ovkey fix_clear fix_svary fix_qmkey fix_ims : bool.
  Variable sfilter : N -> bool.
  Variable parse_ims : bytes -> option Z.
  Variable sanitize_ok : request -> bool.
  Variable prime : request -> request.
  Variable override : request -> option (bytes * option bytes).
  Variable negotiate : request -> fatx -> option (N * bytes).
  Variable vary_tuple : request -> option (bytes * option bytes) -> tuple.
  Variable vary_header : request -> option (bytes * option bytes) -> fatx -> list (bytes * bytes).
  Variable clear_alias : request -> option request.

  Lemma missX_ext c1 hs now r ov ok :
    missX hstate compute1 cache_on ims_on fix_ovkey fix_svary sfilter negotiate vary_tuple vary_header c1 hs now r ov ok =
    missX hstate compute2 cache_on ims_on fix_ovkey fix_svary sfilter negotiate vary_tuple vary_header c1 hs now r ov ok.
  Proof. unfold missX. rewrite Hext. reflexivity. Qed.
  Lemma vary_missingX_ext c1 hs now r ov ok k e :
    vary_missingX hstate compute1 cache_on ims_on fix_vary fix_svary fix_qmkey sfilter negotiate vary_tuple vary_header c1 hs now r ov ok k e =
    vary_missingX hstate compute2 cache_on ims_on fix_vary fix_svary fix_qmkey sfilter negotiate vary_tuple vary_header c1 hs now r ov ok k e.
  Proof. unfold vary_missingX. rewrite Hext. reflexivity. Qed.
  Lemma serveX_ext st now r0 :
    serveX hstate compute1 cache_on ims_on fix_vary fix_ovkey fix_svary fix_qmkey fix_ims sfilter parse_ims sanitize_ok prime override
           negotiate vary_tuple vary_header st now r0 =
    serveX hstate compute2 cache_on ims_on fix_vary fix_ovkey fix_svary fix_qmkey fix_ims sfilter parse_ims sanitize_ok prime override
           negotiate vary_tuple vary_header st now r0.
  Proof.
    unfold serveX. destruct st as [c hs].
    destruct (negb cache_on); [rewrite Hext; reflexivity|].
    destruct (xlookup (lookup_req (prime r0) (override r0)) c now) as [[k found] c1].
    destruct found as [e|]; [|apply missX_ext].
    destruct (sanitize_ok r0 && get_or_head (rq_method (prime r0))); [|apply missX_ext].
    match goal with |- (if ?b then _ else _) = _ => destruct b; [reflexivity|] end.
    destruct (xv_find _ _); [reflexivity | apply vary_missingX_ext].
  Qed.
  Lemma runX_ext ops : forall st now,
    runX hstate compute1 cache_on ims_on fix_vary fix_ovkey fix_clear fix_svary fix_qmkey fix_ims sfilter parse_ims sanitize_ok prime
         override negotiate vary_tuple vary_header clear_alias st now ops =
    runX hstate compute2 cache_on ims_on fix_vary fix_ovkey fix_clear fix_svary fix_qmkey fix_ims sfilter parse_ims sanitize_ok prime
         override negotiate vary_tuple vary_header clear_alias st now ops.
  Proof.
    induction ops as [|o ops IH]; intros st now; cbn [runX]; [reflexivity|].
    assert (E : stepX hstate compute1 cache_on ims_on fix_vary fix_ovkey fix_clear fix_svary fix_qmkey fix_ims sfilter parse_ims
                      sanitize_ok prime override negotiate vary_tuple vary_header clear_alias st now o =
                stepX hstate compute2 cache_on ims_on fix_vary fix_ovkey fix_clear fix_svary fix_qmkey fix_ims sfilter parse_ims
                      sanitize_ok prime override negotiate vary_tuple vary_header clear_alias st now o).
    { destruct o; cbn [stepX]; [rewrite serveX_ext|..]; reflexivity. }
    rewrite E. destruct (stepX _ compute2 _ _ _ _ _ _ _ _ _ _ _ _ _ _ _ _ _ st now o) as [[st' now'] ob].
    rewrite IH. reflexivity.
  Qed.
End RunExt.

(** ---------------------------------------------------------------------------
    No history tells whether a hidden file exists: a file that is hidden / private and whose [!> ] line carries
    nothing but [hide] (and names that are not mounted) can be removed without changing any observation
    (status, headers, bodies, last-modified, whether the reply came from the cache), on a host whose error
    pages carry no [!> ] line. *)
Definition neutral_name (n : bytes) : bool :=
  negb (beq n N_HIDE || beq n N_ALLOW || beq n N_CACHE || beq n N_DOWNLOAD || beq n N_TMPL).
Definition plain_hidden (t c : bytes) : Prop :=
  is_hidden t c = true /\ forallb (fun e => beq (fst e) N_HIDE || neutral_name (fst e)) (entries_of c) = true.

Section Indistinguishable.
  Variable cors : bool.
  Variable fs fs' : bytes -> option bytes.
  Variable errpage : N -> bytes.
  Variable tmpl : list bytes -> bytes -> bytes.
  Hypothesis Herr_plain : forall s, line_of (errpage s) = None.
  (** [fs'] is [fs] without some plainly hidden files *)
  Hypothesis Hfs' : forall x, fs' x = fs x \/ (fs' x = None /\ exists c, fs x = Some c /\ plain_hidden x c).

  Notation E404 := (err_pst errpage 404 SP_FULL).
  Notation stepv := (step true true errpage tmpl).

  Lemma hide_plain st : ps_spref st = SP_FULL -> ps_cpref st = CFull -> do_hide true errpage tmpl st = E404.
  Proof.
    intros H1 H2. unfold do_hide, to_error, err_pst, error_body_hide. rewrite Herr_plain, H1, H2. reflexivity.
  Qed.

  Lemma fold_plain addr es st :
    forallb (fun e => beq (fst e) N_HIDE || neutral_name (fst e)) es = true ->
    ps_spref st = SP_FULL -> ps_cpref st = CFull ->
    fold_left (stepv addr) es st = if has_name N_HIDE es then E404 else st.
  Proof.
    revert st; induction es as [|[name args] es IH]; intros st Ha H1 H2; cbn [fold_left has_name existsb forallb fst] in *; [reflexivity|].
    apply andb_true_iff in Ha as [Ha Hr]. unfold has_name in IH.
    destruct (beq name N_HIDE) eqn:Eh; cbn [orb] in *.
    - assert (Est : stepv addr st (name, args) = E404) by (unfold step; rewrite Eh; apply hide_plain; assumption).
      rewrite Est, (IH E404 Hr eq_refl eq_refl).
      destruct (existsb _ es); reflexivity.
    - unfold neutral_name in Ha. rewrite Eh in Ha. cbn [orb] in Ha. apply negb_true_iff in Ha.
      apply orb_false_iff in Ha as [Ha E5]. apply orb_false_iff in Ha as [Ha E4]. apply orb_false_iff in Ha as [E2 E3].
      assert (Est : stepv addr st (name, args) = st) by (unfold step; rewrite Eh, E2, E3, E4, E5; reflexivity).
      rewrite Est. apply IH; assumption.
  Qed.

  Lemma present_err404 r : present true true true errpage tmpl r E404 = E404.
  Proof.
    unfold present. cbn [ps_body err_pst]. rewrite Herr_plain. cbn [fold_left].
    destruct (private_hit true (rq_path r)); [apply hide_plain; reflexivity | reflexivity].
  Qed.

  (** a plainly hidden file is answered exactly as a missing one *)
  Lemma present_plain_hidden r t c :
    served_file (rq_path r) = Ok (Some t) -> plain_hidden t c ->
    present true true true errpage tmpl r (file_pst c) = E404.
  Proof.
    intros Es [Hh Hp]. pose proof (private_hit_served _ _ Es) as Hpr.
    unfold present. cbn [ps_body file_pst]. unfold is_hidden in Hh. rewrite <- Hpr in Hh.
    rewrite entries_of_line in Hh, Hp.
    destruct (line_of c) as [p|].
    - cbn [ps_status ps_headers ps_spref ps_cpref ps_locked file_pst].
      destruct (private_hit true (rq_path r)).
      + rewrite hide_plain by reflexivity. rewrite fold_plain by (assumption || reflexivity).
        destruct (has_name N_HIDE (PresentLine.p_entries p)); reflexivity.
      + cbn [orb] in Hh. rewrite fold_plain by (assumption || reflexivity). rewrite Hh. reflexivity.
    - cbn [fold_left]. destruct (private_hit true (rq_path r)); [apply hide_plain; reflexivity|].
      cbn in Hh. discriminate.
  Qed.

  Lemma layer_b_same r ov ok :
    layer_b true true true cors fs errpage tmpl r ov ok = layer_b true true true cors fs' errpage tmpl r ov ok.
  Proof.
    unfold layer_b, base. destruct (negb ok); [reflexivity|].
    destruct (served_file (rq_path r)) as [[t|]|e|] eqn:Es; try reflexivity.
    destruct (cors && is_cors_fail ov); [reflexivity|].
    destruct (get_or_head (rq_method r)); [|reflexivity].
    destruct (Hfs' t) as [E | [E (c & Ec & Hp)]]; rewrite E; [reflexivity|]. rewrite Ec.
    rewrite (present_plain_hidden r t c Es Hp), present_err404. reflexivity.
  Qed.

  Lemma hidden_file_indistinguishable_lemma :
    forall cache_on ims_on fix_ovkey fix_clear fix_svary fix_qmkey fix_ims sfilter parse_ims prime override refuses
           vary_tuple vary_header clear_alias c now ops,
      run_g true true true cors fs errpage tmpl cache_on ims_on fix_ovkey fix_clear fix_svary fix_qmkey fix_ims
            sfilter parse_ims prime override refuses vary_tuple vary_header clear_alias c now ops =
      run_g true true true cors fs' errpage tmpl cache_on ims_on fix_ovkey fix_clear fix_svary fix_qmkey fix_ims
            sfilter parse_ims prime override refuses vary_tuple vary_header clear_alias c now ops.
  Proof.
    intros. unfold run_g. apply runX_ext. intros hs r ov ok. unfold compute_g. rewrite layer_b_same. reflexivity.
  Qed.
End Indistinguishable.

(** ---------------------------------------------------------------------------
    The code before the repair of this property's third defect ([fix_errline = false]): on a host whose
    [errors/404.html] starts with a [!> ] line, the answer for a private file carries that line while the
    answer for a path that does not exist does not - the two are told apart.  With the repair they are equal. *)
Definition w_err_line (s : N) : bytes :=
  Eval vm_compute in B "!> cache client:none" ++ [10] ++ B "<html>nothing here</html>".
Definition w_bodies (obs : list obsx) : list (N * bytes) :=
  map (fun ob => match ob with XbReply rp _ => (rx_status rp, rx_body rp) | _ => (0, []) end) obs.
Definition w_twins : list opx := [w_get (B "/secret.private") 2; w_get (B "/nothing-here") 2; w_get (B "/ac.txt") 2].
Lemma error_page_line_v0_refuted_lemma :
  exists b1 b2 b3, w_bodies (w_run_err w_err_line true true false true w_twins) = [(404, b1); (404, b2); (404, b3)] /\
                   b1 <> b2 /\ b3 <> b2.
Proof. eexists. eexists. eexists. split; [vm_compute; reflexivity|]. split; discriminate. Qed.
Lemma error_page_line_repaired_lemma :
  w_bodies (w_run_err w_err_line true true true true w_twins) =
    [(404, host_404_body w_err_line); (404, host_404_body w_err_line); (404, host_404_body w_err_line)].
Proof. vm_compute. reflexivity. Qed.

(** KNOWN class allow-ips-404-template-unrendered: on a host whose [errors/404.html] is a [!> tmpl] template, [hide]
    renders the page but [allow-ips] puts it in place as it is.  For a file that is hidden AND carries an
    [allow-ips] directive after the [hide], the answer to an unlisted client is then not the host's 404
    ([refused_reply_is_404] has the hypothesis that no error page is a template). *)
Definition w_err_tmpl (s : N) : bytes := Eval vm_compute in B "!> tmpl page" ++ [10] ++ B "<html>$[title]</html>".
Definition w_render (args : list bytes) (b : bytes) : bytes := B "rendered " ++ b.
Definition w_both_twins : list opx := [w_get (B "/both.txt") 2; w_get (B "/nothing-here") 2; w_get (B "/h.txt") 2].
Lemma allow_404_template_refuted_lemma :
  exists b1 b2, w_bodies (w_run_gen w_err_tmpl w_render true true true true w_both_twins) = [(404, b1); (404, b2); (404, b2)] /\ b1 <> b2.
Proof. eexists. eexists. split; [vm_compute; reflexivity | discriminate]. Qed.

(** KNOWN class tmpl-names-guarded-file: the concrete template engine (Model/Templates.v over the fixture tree) on a
    host where the PUBLIC page [t.html] names [../public/s.private] as its template file: every client receives the
    [$[x]] block of the private file (the hypothesis "templates introduce no guarded content" of
    [guarded_content_confined] fails there). *)
Definition w_tmpl_files : list (bytes * bytes) :=
  Eval vm_compute in
  [ (B "public/s.private", B "$[x]" ++ [10] ++ B "SECRET-7f3a in a block of a private file" ++ [10] ++ B "$[y]" ++ [10] ++ B "more");
    (B "public/t.html", B "!> tmpl ../public/s.private" ++ [10] ++ B "<html>public page: $[x]</html>");
    (B "templates/main", B "$[title]" ++ [10] ++ B "a template" ++ [10]) ].
Definition w_tmpl_cfg : gconfig := mkG true false true w_tmpl_files [] [] 500 true [].
Lemma tmpl_names_guarded_file_refuted_lemma :
  violates (fs_of_tree (tree_of w_tmpl_files)) W_SECRET [w_get (B "/t.html") 2]
           (run_gcfg true true true w_tmpl_cfg [w_get (B "/t.html") 2]).
Proof.
  exists 0%nat. eexists. eexists. eexists.
  split; [reflexivity|]. split; [vm_compute; reflexivity|].
  split; [vm_compute; reflexivity|]. apply permitted_b_false. vm_compute. reflexivity.
Qed.

(** ---------------------------------------------------------------------------
    The file cache.  What the layer below the cache computes depends on the files only through what the reads
    return ... *)
Section LayerExt.
  Variable fix_ext fix_lock fix_errline cors : bool.
  Variable fs1 fs2 : bytes -> option bytes.
  Variable err1 err2 : N -> bytes.
  Variable tm1 tm2 : list bytes -> bytes -> bytes.
  Hypothesis Hfs : forall t, fs1 t = fs2 t.
  Hypothesis Herr : forall c, err1 c = err2 c.
  Hypothesis Htm : forall a b, tm1 a b = tm2 a b.

  Lemma error_body_allow_ext code : error_body_allow fix_errline err1 code = error_body_allow fix_errline err2 code.
  Proof. unfold error_body_allow. rewrite Herr. reflexivity. Qed.
  Lemma error_body_hide_ext code : error_body_hide fix_errline err1 tm1 code = error_body_hide fix_errline err2 tm2 code.
  Proof.
    unfold error_body_hide. rewrite Herr. destruct (line_of (err2 code)) as [p|]; [|reflexivity].
    destruct (first_tmpl (PresentLine.p_entries p)); [apply Htm | reflexivity].
  Qed.
  Lemma step_ext addr st e : step fix_lock fix_errline err1 tm1 addr st e = step fix_lock fix_errline err2 tm2 addr st e.
  Proof.
    destruct e as [name args]. unfold step, do_hide, do_allow, do_tmpl.
    rewrite error_body_hide_ext, error_body_allow_ext, Htm. reflexivity.
  Qed.
  Lemma fold_step_ext addr es : forall st,
    fold_left (step fix_lock fix_errline err1 tm1 addr) es st = fold_left (step fix_lock fix_errline err2 tm2 addr) es st.
  Proof. induction es as [|e es IH]; intros st; cbn [fold_left]; [reflexivity|]. rewrite step_ext. apply IH. Qed.
  Lemma present_ext r st :
    present fix_ext fix_lock fix_errline err1 tm1 r st = present fix_ext fix_lock fix_errline err2 tm2 r st.
  Proof. unfold present, do_hide. rewrite error_body_hide_ext. apply fold_step_ext. Qed.
  Lemma layer_b_ext r ov ok :
    layer_b fix_ext fix_lock fix_errline cors fs1 err1 tm1 r ov ok = layer_b fix_ext fix_lock fix_errline cors fs2 err2 tm2 r ov ok.
  Proof.
    unfold layer_b, base, err_pst. rewrite !Herr.
    destruct (negb ok); [rewrite present_ext; reflexivity|].
    destruct (served_file (rq_path r)) as [[t|]|e|]; try reflexivity.
    - rewrite Hfs. destruct (cors && is_cors_fail ov); [rewrite present_ext; reflexivity|].
      destruct (get_or_head (rq_method r)); [|rewrite present_ext; reflexivity].
      destruct (fs2 t); rewrite present_ext; reflexivity.
    - destruct (cors && is_cors_fail ov); rewrite present_ext; reflexivity.
  Qed.
End LayerExt.

(** ... the template engine looks at the template files only through what the reads return ... *)
Section TmplExt.
  Variable rd1 rd2 : bytes -> option bytes.
  Hypothesis Hrd : forall p, rd1 p = rd2 p.
  Lemma resolve_template_ext files name : resolve_template rd1 files name = resolve_template rd2 files name.
  Proof.
    induction files as [|f rest IH]; cbn [resolve_template]; [reflexivity|]. rewrite Hrd.
    destruct (rd2 (TEMPLATES_SLASH ++ f)); [|exact IH].
    destruct (Templates.extract_templates false b) as [m|e|]; cbn [obind]; try reflexivity.
    destruct (Templates.t_get name m); [reflexivity | exact IH].
  Qed.
  Lemma h_loop_ext (l1 l2 : bytes -> outcome (option bytes)) (Hl : forall k, l1 k = l2 k) file rest : forall pos st,
    Templates.h_loop l1 file rest pos st = Templates.h_loop l2 file rest pos st.
  Proof.
    induction rest as [|byte r IH]; intros pos st; cbn [Templates.h_loop]; [reflexivity|].
    assert (E : Templates.h_step l1 file pos byte st = Templates.h_step l2 file pos byte st).
    { unfold Templates.h_step. destruct (Templates.h_placeholder st); [|reflexivity].
      destruct (negb (Templates.h_esc st =? 1) && (byte =? Templates.c_close)); [|reflexivity].
      destruct (Templates.placeholder_key file (Templates.h_ps st) pos) as [[k|]|e|]; cbn [obind]; try reflexivity.
      rewrite Hl. reflexivity. }
    rewrite E. destruct (Templates.h_step l2 file pos byte st) as [st'|e|]; cbn [obind]; [apply IH | reflexivity | reflexivity].
  Qed.
  Lemma tmpl_of_ext args body : tmpl_of rd1 args body = tmpl_of rd2 args body.
  Proof.
    unfold tmpl_of, Templates.handle_template.
    destruct (Templates.skip_ignore_line body) as [file|e|]; cbn [obind]; try reflexivity.
    rewrite (h_loop_ext (resolve_template rd1 (rev args)) (resolve_template rd2 (rev args)) (resolve_template_ext (rev args))).
    reflexivity.
  Qed.
End TmplExt.

(** ... and filling the file cache from the disk does not change what a read returns. *)
Lemma fc_fill1_view on disk fc p q : fc_view on disk (fc_fill1 on disk fc p) q = fc_view on disk fc q.
Proof.
  unfold fc_fill1, fc_view. destruct on; [|reflexivity].
  destruct (fc_find p fc) eqn:F; [reflexivity|]. cbn [fc_find].
  destruct (beq q p) eqn:E; [|reflexivity]. apply beq_eq in E. subst q. rewrite F. reflexivity.
Qed.
Lemma fc_fill_view on disk ps : forall fc q, fc_view on disk (fc_fill on disk fc ps) q = fc_view on disk fc q.
Proof.
  unfold fc_fill. induction ps as [|p ps IH]; intros fc q; cbn [fold_left]; [reflexivity|].
  rewrite IH. apply fc_fill1_view.
Qed.

(** two layers below the same cache that stay in a relation [R] of their states and answer alike *)
Section RunSim.
  Variable S1 S2 : Type.
  Variable compute1 : S1 -> request -> option (bytes * option bytes) -> bool -> fatx * S1 * list bytes.
  Variable compute2 : S2 -> request -> option (bytes * option bytes) -> bool -> fatx * S2 * list bytes.
  Variable R : S1 -> S2 -> Prop.
  Hypothesis Hsim : forall h1 h2 r ov ok, R h1 h2 ->
    fst (fst (compute1 h1 r ov ok)) = fst (fst (compute2 h2 r ov ok)) /\
    snd (compute1 h1 r ov ok) = snd (compute2 h2 r ov ok) /\
    R (snd (fst (compute1 h1 r ov ok))) (snd (fst (compute2 h2 r ov ok))).
  Variable cache_on ims_on fix_vary fix_ovkey fix_clear fix_svary fix_qmkey fix_ims : bool.
  Variable sfilter : N -> bool.
  Variable parse_ims : bytes -> option Z.
  Variable sanitize_ok : request -> bool.
  Variable prime : request -> request.
  Variable override : request -> option (bytes * option bytes).
  Variable negotiate : request -> fatx -> option (N * bytes).
  Variable vary_tuple : request -> option (bytes * option bytes) -> tuple.
  Variable vary_header : request -> option (bytes * option bytes) -> fatx -> list (bytes * bytes).
  Variable clear_alias : request -> option request.

  (** same cache, same reply, same log, related states *)
  Definition sim3 (a : (cachex * S1) * replyx * list bytes) (b : (cachex * S2) * replyx * list bytes) : Prop :=
    fst (fst (fst a)) = fst (fst (fst b)) /\ snd (fst a) = snd (fst b) /\ snd a = snd b /\ R (snd (fst (fst a))) (snd (fst (fst b))).

  Lemma missX_sim c1 h1 h2 now r ov ok : R h1 h2 ->
    sim3 (missX S1 compute1 cache_on ims_on fix_ovkey fix_svary sfilter negotiate vary_tuple vary_header c1 h1 now r ov ok)
         (missX S2 compute2 cache_on ims_on fix_ovkey fix_svary sfilter negotiate vary_tuple vary_header c1 h2 now r ov ok).
  Proof.
    intros HR. unfold missX. destruct (Hsim h1 h2 r ov ok HR) as (E1 & E2 & E3).
    destruct (compute1 h1 r ov ok) as [[x1 h1'] lg1]. destruct (compute2 h2 r ov ok) as [[x2 h2'] lg2].
    cbn [fst snd] in *. subst x2 lg2.
    destruct (may_store_x cache_on sfilter (rq_method r) x1); unfold sim3; cbn [fst snd]; auto.
  Qed.
  Lemma vary_missingX_sim c1 h1 h2 now r ov ok k e : R h1 h2 ->
    sim3 (vary_missingX S1 compute1 cache_on ims_on fix_vary fix_svary fix_qmkey sfilter negotiate vary_tuple vary_header c1 h1 now r ov ok k e)
         (vary_missingX S2 compute2 cache_on ims_on fix_vary fix_svary fix_qmkey sfilter negotiate vary_tuple vary_header c1 h2 now r ov ok k e).
  Proof.
    intros HR. unfold vary_missingX. destruct (Hsim h1 h2 r ov ok HR) as (E1 & E2 & E3).
    destruct (compute1 h1 r ov ok) as [[x1 h1'] lg1]. destruct (compute2 h2 r ov ok) as [[x2 h2'] lg2].
    cbn [fst snd] in *. subst x2 lg2.
    destruct fix_vary; [destruct (may_store_x cache_on sfilter (rq_method r) x1 && (negb fix_qmkey || qm_key_ok k x1))|];
      unfold sim3; cbn [fst snd]; auto.
  Qed.
  Lemma serveX_sim c h1 h2 now r0 : R h1 h2 ->
    sim3 (serveX S1 compute1 cache_on ims_on fix_vary fix_ovkey fix_svary fix_qmkey fix_ims sfilter parse_ims sanitize_ok prime override
                 negotiate vary_tuple vary_header (c, h1) now r0)
         (serveX S2 compute2 cache_on ims_on fix_vary fix_ovkey fix_svary fix_qmkey fix_ims sfilter parse_ims sanitize_ok prime override
                 negotiate vary_tuple vary_header (c, h2) now r0).
  Proof.
    intros HR. unfold serveX.
    destruct (negb cache_on).
    { destruct (Hsim h1 h2 (prime r0) (override r0) (sanitize_ok r0) HR) as (E1 & E2 & E3).
      destruct (compute1 h1 (prime r0) (override r0) (sanitize_ok r0)) as [[x1 h1'] lg1].
      destruct (compute2 h2 (prime r0) (override r0) (sanitize_ok r0)) as [[x2 h2'] lg2].
      cbn [fst snd] in *. subst x2 lg2. unfold sim3; cbn [fst snd]; auto. }
    destruct (xlookup (lookup_req (prime r0) (override r0)) c now) as [[k found] c1].
    destruct found as [e|]; [|apply missX_sim, HR].
    destruct (sanitize_ok r0 && get_or_head (rq_method (prime r0))); [|apply missX_sim, HR].
    match goal with |- sim3 (if ?b then _ else _) _ => destruct b; [unfold sim3; cbn [fst snd]; auto|] end.
    destruct (xv_find _ _); [unfold sim3; cbn [fst snd]; auto | apply vary_missingX_sim, HR].
  Qed.
  Lemma runX_sim ops : forall c h1 h2 now, R h1 h2 ->
    runX S1 compute1 cache_on ims_on fix_vary fix_ovkey fix_clear fix_svary fix_qmkey fix_ims sfilter parse_ims sanitize_ok prime
         override negotiate vary_tuple vary_header clear_alias (c, h1) now ops =
    runX S2 compute2 cache_on ims_on fix_vary fix_ovkey fix_clear fix_svary fix_qmkey fix_ims sfilter parse_ims sanitize_ok prime
         override negotiate vary_tuple vary_header clear_alias (c, h2) now ops.
  Proof.
    induction ops as [|o ops IH]; intros c h1 h2 now HR; cbn [runX]; [reflexivity|].
    destruct o as [r|r| |ms]; cbn [stepX].
    - pose proof (serveX_sim c h1 h2 now r HR) as (Ec & Er & El & HR').
      destruct (serveX S1 _ _ _ _ _ _ _ _ _ _ _ _ _ _ _ _ (c, h1) now r) as [[[c1' h1'] rp1] lg1].
      destruct (serveX S2 _ _ _ _ _ _ _ _ _ _ _ _ _ _ _ _ (c, h2) now r) as [[[c2' h2'] rp2] lg2].
      cbn [fst snd] in *. subst c2' rp2 lg2. f_equal. apply IH, HR'.
    - f_equal. apply IH, HR.
    - f_equal. apply IH, HR.
    - f_equal. apply IH, HR.
  Qed.
End RunSim.

(** [file_cache_transparent]: for every initial content of the file cache (also stale and negative entries), file
    cache on or off, and whatever reads fill it, every history is observed exactly as on the server without file
    cache whose files are what the server HOLDS for each path: the cache entry if there is one, else the disk. *)
Lemma file_cache_transparent_lemma :
  forall fix_ext fix_lock fix_errline cors on disk reads fc0
         cache_on ims_on fix_ovkey fix_clear fix_svary fix_qmkey fix_ims sfilter parse_ims prime override refuses
         vary_tuple vary_header clear_alias c now ops,
    let held := fc_view on disk fc0 in
    run_gf fix_ext fix_lock fix_errline cors on disk reads fc0 cache_on ims_on fix_ovkey fix_clear fix_svary fix_qmkey fix_ims
           sfilter parse_ims prime override refuses vary_tuple vary_header clear_alias c now ops =
    run_g fix_ext fix_lock fix_errline cors (fs_of held) (errpage_of held) (tmpl_of held) cache_on ims_on fix_ovkey fix_clear
          fix_svary fix_qmkey fix_ims sfilter parse_ims prime override refuses vary_tuple vary_header clear_alias c now ops.
Proof.
  intros. unfold run_gf, run_g.
  apply (runX_sim fcache unit _ _ (fun fc _ => forall q, fc_view on disk fc q = held q)); [|intros q; reflexivity].
  intros fc [] r ov ok HR. unfold compute_gf, compute_g. cbn [fst snd]. split; [|split; [reflexivity|]].
  - f_equal. apply layer_b_ext.
    + intros t. unfold fs_of. apply HR.
    + intros code. unfold errpage_of. rewrite HR. reflexivity.
    + intros a b. apply tmpl_of_ext. exact HR.
  - intros q. rewrite fc_fill_view. apply HR.
Qed.

(** the property with the file cache in the picture: "content of a file" is the content the server holds for it *)
Lemma guarded_content_confined_fcache_lemma :
  forall (fix_errline cors on : bool) (disk : bytes -> option bytes) reads (fc0 : fcache) (secret : bytes),
    let held := fc_view on disk fc0 in
    (forall t c, fs_of held t = Some c -> contains_sub secret c = true -> guarded t c = true) ->
    (forall s, contains_sub secret (errpage_of held s) = false) ->
    (forall args b, contains_sub secret (tmpl_of held args b) = true -> contains_sub secret b = true) ->
    (cors = true -> contains_sub secret (ps_body cors_pst) = false) ->
  forall cache_on ims_on fix_ovkey fix_clear fix_svary fix_qmkey fix_ims sfilter parse_ims prime override refuses
         vary_tuple vary_header clear_alias now ops,
    Forall2 (reply_ok (fs_of held) secret prime) ops
      (run_gf true true fix_errline cors on disk reads fc0 cache_on ims_on fix_ovkey fix_clear fix_svary fix_qmkey fix_ims
              sfilter parse_ims prime override refuses vary_tuple vary_header clear_alias [] now ops).
Proof.
  intros. rewrite file_cache_transparent_lemma. apply guarded_content_confined_lemma; assumption.
Qed.

(** ---------------------------------------------------------------------------
    The file that is read is named by decoding the request path exactly once ... *)
Lemma single_decode_only_lemma p t :
  served_file p = Ok (Some t) -> PathSan.percent_decode p = 47 :: t.
Proof.
  unfold served_file, PathSan.decoded_for_use.
  destruct (PathSan.utf8_valid (PathSan.percent_decode p)); [|discriminate].
  unfold PathSan.parse_uri. destruct (PathSan.percent_decode p) as [|c r]; [discriminate|].
  destruct (c =? PathSan.c_slash) eqn:E; [|discriminate].
  intros H; inversion H; subst. apply N.eqb_eq in E. rewrite E. reflexivity.
Qed.

(** ... and an [allow-ips] argument lists exactly the address it parses to: the client's own address, as kvarn's
    accept loop hands it over - no header is consulted, an IPv4 address equals no IPv6 address. *)
Lemma quad_eqb_eq x y : quad_eqb x y = true <-> x = y.
Proof.
  destruct x as [[[a b] c] d], y as [[[a' b'] c'] d']. unfold quad_eqb. rewrite !andb_true_iff, !N.eqb_eq.
  split; [intros [[[-> ->] ->] ->]; reflexivity | intros H; inversion H; auto].
Qed.
Lemma groups_eqb_eq a c : groups_eqb a c = true <-> a = c.
Proof.
  revert c; induction a as [|x a IH]; intros [|y c]; cbn [groups_eqb]; try (split; [discriminate|discriminate]); [tauto|].
  rewrite andb_true_iff, N.eqb_eq, IH. split; [intros [-> ->]; reflexivity | intros H; inversion H; auto].
Qed.
Lemma ip_eqb_eq a c : ip_eqb a c = true <-> a = c.
Proof.
  destruct a as [x|x], c as [y|y]; cbn [ip_eqb]; try (split; discriminate).
  - rewrite quad_eqb_eq. split; [intros ->; reflexivity | intros H; inversion H; reflexivity].
  - rewrite groups_eqb_eq. split; [intros ->; reflexivity | intros H; inversion H; reflexivity].
Qed.
Lemma listed_is_exact_lemma addr arg : arg_matches addr arg = true <-> parse_ip arg = Some (ip_of_addr addr).
Proof.
  unfold arg_matches. destruct (parse_ip arg) as [a|]; [|split; discriminate].
  rewrite ip_eqb_eq. split; [intros ->; reflexivity | intros H; inversion H; reflexivity].
Qed.
Lemma address_families_disjoint_lemma addr arg :
  arg_matches addr arg = true ->
  match parse_ip arg with
  | Some (IPv4 _) => addr < V6_BASE
  | Some (IPv6 _) => V6_BASE <= addr
  | None => False
  end.
Proof.
  intros H. apply listed_is_exact_lemma in H. rewrite H. unfold ip_of_addr.
  destruct (addr <? V4_BASE) eqn:E1; [apply N.ltb_lt in E1; unfold V4_BASE, V6_BASE in *; lia|].
  destruct (addr <? V6_BASE) eqn:E2; [apply N.ltb_lt in E2; exact E2 | apply N.ltb_ge in E2; exact E2].
Qed.

(** Range is applied to the reply of [handle_cache] afterwards ([SendKind::send]): whatever byte range of whatever
    reply of a history is sent, it contains the secret only for a permitted request *)
Definition ranged_ok (fs : bytes -> option bytes) (secret : bytes) (prime : request -> request) (o : opx) (ob : obsx) : Prop :=
  match o, ob with
  | XReq r, XbReply rp _ => forall lo hi, contains_sub secret (slice lo hi (rx_body rp)) = true -> permitted fs (prime r)
  | _, _ => True
  end.
Lemma ranged_reply_confined_lemma :
  forall (fix_errline cors : bool) (fs : bytes -> option bytes) (errpage : N -> bytes)
         (tmpl : list bytes -> bytes -> bytes) (secret : bytes),
    (forall t c, fs t = Some c -> contains_sub secret c = true -> guarded t c = true) ->
    (forall s, contains_sub secret (errpage s) = false) ->
    (forall args b, contains_sub secret (tmpl args b) = true -> contains_sub secret b = true) ->
    (cors = true -> contains_sub secret (ps_body cors_pst) = false) ->
  forall cache_on ims_on fix_ovkey fix_clear fix_svary fix_qmkey fix_ims sfilter parse_ims prime override refuses
         vary_tuple vary_header clear_alias now ops,
    Forall2 (ranged_ok fs secret prime) ops
      (run_g true true fix_errline cors fs errpage tmpl cache_on ims_on fix_ovkey fix_clear fix_svary fix_qmkey fix_ims
             sfilter parse_ims prime override refuses vary_tuple vary_header clear_alias [] now ops).
Proof.
  intros fix_errline cors fs errpage tmpl secret H1 H2 H3 H4. intros.
  eapply Forall2_mono; [|apply (guarded_content_confined_lemma fix_errline cors fs errpage tmpl secret H1 H2 H3 H4)].
  intros o ob Ho. destruct o as [r|r| |ms], ob as [rp lg| |]; cbn [reply_ok ranged_ok] in *; auto.
  intros lo hi Hs. apply Ho. unfold leaks. apply contains_sub_slice in Hs. rewrite Hs. reflexivity.
Qed.

(** ---------------------------------------------------------------------------
    Files that change during a history: the cache invariant (no stored variant carries the secret) does not depend on
    the world, and every step preserves it in the world of its own moment. *)
Section ChangingConfined.
  Variable fix_errline cors : bool.
  Variable secret : bytes.
  Hypothesis Hcors : cors = true -> contains_sub secret (ps_body cors_pst) = false.
  Variable cache_on ims_on fix_ovkey fix_clear fix_svary fix_qmkey fix_ims : bool.
  Variable sfilter : N -> bool.
  Variable parse_ims : bytes -> option Z.
  Variable prime : request -> request.
  Variable override : request -> option (bytes * option bytes).
  Variable refuses : request -> fatx -> bool.
  Variable vary_tuple : request -> option (bytes * option bytes) -> tuple.
  Variable vary_header : request -> option (bytes * option bytes) -> fatx -> list (bytes * bytes).
  Variable clear_alias : request -> option request.

  Notation runW := (run_gw true true fix_errline cors cache_on ims_on true fix_ovkey fix_clear fix_svary fix_qmkey fix_ims
                           sfilter parse_ims prime override refuses vary_tuple vary_header clear_alias).
  Notation stepW := (step_gw true true fix_errline cors cache_on ims_on true fix_ovkey fix_clear fix_svary fix_qmkey fix_ims
                             sfilter parse_ims prime override refuses vary_tuple vary_header clear_alias).

  Lemma step_gw_conf w st now o st' now' ob :
    world_ok secret w -> XInv (contains_sub secret) (fst st) -> stepW w st now o = (st', now', ob) ->
    XInv (contains_sub secret) (fst st') /\ reply_ok_w secret prime (w, o) ob.
  Proof.
    intros (Hfs & Herr & Htm) Hc Es. unfold step_gw in Es.
    pose proof (step_conf unit (compute_g true true fix_errline cors (wd_fs w) (wd_err w) (wd_tmpl w)) cache_on ims_on
                  fix_ovkey fix_clear fix_svary fix_qmkey fix_ims sfilter parse_ims
                  sanitize_ok_g prime override (negotiate_g (wd_err w) refuses) vary_tuple vary_header clear_alias
                  (contains_sub secret) (permitted (wd_fs w))) as H.
    assert (H1 : forall (hs : unit) r ov ok,
               contains_sub secret (f_body (fx_fat (fst (fst (compute_g true true fix_errline cors (wd_fs w) (wd_err w) (wd_tmpl w) hs r ov ok))))) = true ->
               permitted (wd_fs w) r).
    { intros hs r ov ok. cbn [compute_g fst plain fx_fat].
      apply (decision fix_errline cors (wd_fs w) (wd_err w) (wd_tmpl w) secret Hfs Herr Htm Hcors). }
    assert (H2 : forall (hs : unit) r ov ok,
               may_store_x cache_on sfilter (rq_method r)
                 (fst (fst (compute_g true true fix_errline cors (wd_fs w) (wd_err w) (wd_tmpl w) hs r ov ok))) = true ->
               contains_sub secret (f_body (fx_fat (fst (fst (compute_g true true fix_errline cors (wd_fs w) (wd_err w) (wd_tmpl w) hs r ov ok))))) = false).
    { intros hs r ov ok. cbn [compute_g fst].
      apply (stored_clean fix_errline cors (wd_fs w) (wd_err w) (wd_tmpl w) secret Hfs Herr Htm Hcors). }
    assert (H3 : forall r x st0 b, negotiate_g (wd_err w) refuses r x = Some (st0, b) -> contains_sub secret b = false).
    { intros r x st0 b. unfold negotiate_g. destruct (refuses r x); [|discriminate].
      intros E; inversion E; subst. apply Herr. }
    destruct (H (bad_nil cors (wd_fs w) (wd_err w) (wd_tmpl w) secret Hfs Herr Htm Hcors) H1 H2 H3 st now o st' now' ob Hc Es)
      as [Hc' Hob].
    split; [exact Hc'|]. unfold reply_ok_w. cbn [fst snd].
    destruct o as [r|r| |ms], ob as [rp lg| |]; cbn [reply_ok obs_ok] in *; auto.
  Qed.

  Lemma run_gw_conf wops : forall st now,
    XInv (contains_sub secret) (fst st) -> Forall (fun wo => world_ok secret (fst wo)) wops ->
    Forall2 (reply_ok_w secret prime) wops (runW st now wops).
  Proof.
    induction wops as [|[w o] wops IH]; intros st now Hc Hw; cbn [run_gw]; [constructor|].
    inversion Hw as [|x l Hw1 Hw2]; subst. cbn [fst] in Hw1.
    destruct (stepW w st now o) as [[st' now'] ob] eqn:Es.
    destruct (step_gw_conf w st now o st' now' ob Hw1 Hc Es) as [Hc' Hob].
    constructor; [exact Hob|]. apply IH; assumption.
  Qed.

  Lemma guarded_content_confined_changing_lemma : forall now wops,
    Forall (fun wo => world_ok secret (fst wo)) wops ->
    Forall2 (reply_ok_w secret prime) wops (runW ([], tt) now wops).
  Proof. intros now wops Hw. apply run_gw_conf; [apply XInv_nil | exact Hw]. Qed.
End ChangingConfined.

(** a history whose world never changes is a history of [run_g] *)
Lemma run_gw_constant fix_ext fix_lock fix_errline cors cache_on ims_on fix_ovkey fix_clear fix_svary fix_qmkey fix_ims
      sfilter parse_ims prime override refuses vary_tuple vary_header clear_alias fs errpage tmpl ops : forall st now,
  run_gw fix_ext fix_lock fix_errline cors cache_on ims_on true fix_ovkey fix_clear fix_svary fix_qmkey fix_ims
         sfilter parse_ims prime override refuses vary_tuple vary_header clear_alias st now
         (map (fun o => (mkW fs errpage tmpl, o)) ops) =
  runX unit (compute_g fix_ext fix_lock fix_errline cors fs errpage tmpl) cache_on ims_on true fix_ovkey fix_clear fix_svary
       fix_qmkey fix_ims sfilter parse_ims sanitize_ok_g prime override (negotiate_g errpage refuses) vary_tuple vary_header
       clear_alias st now ops.
Proof.
  induction ops as [|o ops IH]; intros st now; cbn [map run_gw runX]; [reflexivity|].
  unfold step_gw. cbn [wd_fs wd_err wd_tmpl].
  destruct (stepX unit (compute_g fix_ext fix_lock fix_errline cors fs errpage tmpl) cache_on ims_on true fix_ovkey fix_clear
                  fix_svary fix_qmkey fix_ims sfilter parse_ims sanitize_ok_g prime override (negotiate_g errpage refuses)
                  vary_tuple vary_header clear_alias st now o) as [[st' now'] ob].
  rewrite IH. reflexivity.
Qed.

Lemma changing_files_extends_fixed_files_lemma :
  forall fix_ext fix_lock fix_errline cors fs errpage tmpl cache_on ims_on fix_ovkey fix_clear fix_svary fix_qmkey fix_ims
         sfilter parse_ims prime override refuses vary_tuple vary_header clear_alias c now ops,
    run_gw fix_ext fix_lock fix_errline cors cache_on ims_on true fix_ovkey fix_clear fix_svary fix_qmkey fix_ims
           sfilter parse_ims prime override refuses vary_tuple vary_header clear_alias (c, tt) now
           (map (fun o => (mkW fs errpage tmpl, o)) ops) =
    run_g fix_ext fix_lock fix_errline cors fs errpage tmpl cache_on ims_on fix_ovkey fix_clear fix_svary fix_qmkey fix_ims
          sfilter parse_ims prime override refuses vary_tuple vary_header clear_alias c now ops.
Proof. intros. unfold run_g. apply run_gw_constant. Qed.

(** a scenario without write operations runs as before *)
Lemma g_wops_no_writes g w ops : g_wops g w (map GOp ops) = map (fun o => (w, o)) ops.
Proof. induction ops as [|o ops IH]; cbn [map g_wops]; [reflexivity|]. rewrite IH. reflexivity. Qed.
Lemma run_gcfg_w_no_writes_lemma fix_ext fix_lock fix_errline g ops :
  run_gcfg_w fix_ext fix_lock fix_errline true g (map GOp ops) = run_gcfg fix_ext fix_lock fix_errline g ops.
Proof.
  unfold run_gcfg_w, run_gcfg. rewrite g_wops_no_writes. unfold world_of_g. cbv zeta.
  apply changing_files_extends_fixed_files_lemma.
Qed.

(** a history violates the property: some reply carries the secret although its request is not permitted in the world of
    its moment *)
Definition violates_w (secret : bytes) (wops : list (world * opx)) (obs : list obsx) : Prop :=
  exists i w r rp lg, nth_error wops i = Some (w, XReq r) /\ nth_error obs i = Some (XbReply rp lg) /\
                      leaks secret rp = true /\ ~ permitted (wd_fs w) r.
Lemma violates_w_not_ok secret wops obs :
  violates_w secret wops obs -> ~ Forall2 (reply_ok_w secret (fun r => r)) wops obs.
Proof.
  intros [i [w [r [rp [lg [Ho [Hb [Hl Hp]]]]]]]] F. revert i Ho Hb.
  induction F as [|o ob ops obs' Hok F IH]; intros [|i] Ho Hb; cbn [nth_error] in *; try discriminate.
  - inversion Ho; inversion Hb; subst. unfold reply_ok_w in Hok. cbn [fst snd reply_ok] in Hok. auto.
  - eapply IH; eassumption.
Qed.

(** the witness: [/page.html] has a vary rule on [x-v]; the page is public when a stranger fetches variant "a" (cached); then
    the file gets [!> allow-ips 10.0.0.1]; 10.0.0.1 asks for variant "b", then 10.0.0.2 does *)
Definition w_page_pub : bytes := Eval vm_compute in B "public for now".
Definition w_world_pub : world := mkW (fun t => if beq t (B "page.html") then Some w_page_pub else None) w_err w_tmpl.
Definition w_world_grd : world := mkW (fun t => if beq t (B "page.html") then Some w_ac else None) w_err w_tmpl.
Definition w_page_rules : list (bytes * list vrule) := [(B "/page.html", [(B "x-v", 0, B "-")])].
Definition w_getv (addr : N) (v : bytes) : opx := XReq (mkReq M_GET (B "/page.html") None [(B "x-v", v)] addr).
Definition w_deploy : list (world * opx) :=
  [ (w_world_pub, w_getv 2 (B "a")); (w_world_grd, XWait 0); (w_world_grd, w_getv 1 (B "b")); (w_world_grd, w_getv 2 (B "b")) ].
Definition w_run_w (fix_vary : bool) (wops : list (world * opx)) : list obsx :=
  run_gw true true true false true true fix_vary true true true true true status_filter_drop (fun _ => None) (fun r => r)
         (fun _ => None) (fun _ _ => false) (vary_tuple_x true w_page_rules) (vary_header_x true w_page_rules) clear_alias_fix
         ([], tt) 0 wops.
Lemma w_deploy_worlds_ok : Forall (fun wo => world_ok W_SECRET (fst wo)) w_deploy.
Proof.
  assert (Hp : world_ok W_SECRET w_world_pub).
  { split; [|split; [intros s; vm_compute; reflexivity | intros args b H; exact H]].
    intros t c. cbn [wd_fs w_world_pub]. destruct (beq t (B "page.html")); [|discriminate].
    intros H Hc. inversion H; subst. vm_compute in Hc. discriminate. }
  assert (Hg : world_ok W_SECRET w_world_grd).
  { split; [|split; [intros s; vm_compute; reflexivity | intros args b H; exact H]].
    intros t c. cbn [wd_fs w_world_grd]. destruct (beq t (B "page.html")) eqn:E; [|discriminate].
    apply beq_eq in E. subst. intros H _. inversion H; subst. vm_compute. reflexivity. }
  unfold w_deploy. repeat (apply Forall_cons; [cbn [fst]; assumption|]). apply Forall_nil.
Qed.
Lemma vary_admission_v0_refuted_lemma :
  Forall (fun wo => world_ok W_SECRET (fst wo)) w_deploy /\ violates_w W_SECRET w_deploy (w_run_w false w_deploy).
Proof.
  split; [exact w_deploy_worlds_ok|].
  exists 3%nat. eexists. eexists. eexists. eexists.
  split; [reflexivity|]. split; [vm_compute; reflexivity|].
  split; [vm_compute; reflexivity|]. apply permitted_b_false. vm_compute. reflexivity.
Qed.
Definition w_summary_w (wops : list (world * opx)) (obs : list obsx) : list (N * bool * bool) :=
  map (fun '(wo, ob) => match wo, ob with
                        | (w, XReq r), XbReply rp _ => (rx_status rp, leaks W_SECRET rp, permitted_b (wd_fs w) r)
                        | _, _ => (0, false, false)
                        end) (combine wops obs).
Lemma w_deploy_repaired_lemma :
  w_summary_w w_deploy (w_run_w true w_deploy) = [ (200, false, false); (0, false, false); (200, true, true); (404, false, false) ] /\
  w_summary_w w_deploy (w_run_w false w_deploy) = [ (200, false, false); (0, false, false); (200, true, true); (200, true, false) ].
Proof. vm_compute. split; reflexivity. Qed.

(** ---------------------------------------------------------------------------
    The [!> ] line has no length limit: for every line of the grammar (Properties/C16.v [present_line_spec]: any number of
    words of any length) the directives are those written on it. *)
Lemma guard_line_any_length_lemma (ws : list bytes) (crlf : bool) (rest : bytes) :
  PresentLine.line_words_ok ws ->
  line_of (PresentLine.render_line ws crlf ++ rest) =
    Some {| PresentLine.p_entries := PresentLine.group_words None (PresentLine.nonempty_words ws);
            PresentLine.p_data_start := length (PresentLine.render_line ws crlf);
            PresentLine.p_body := rest |} /\
  entries_of (PresentLine.render_line ws crlf ++ rest) = PresentLine.group_words None (PresentLine.nonempty_words ws).
Proof.
  intros H. pose proof (present_line_grammar ws crlf rest H) as E.
  split.
  - unfold line_of. rewrite E. reflexivity.
  - unfold entries_of. rewrite E. reflexivity.
Qed.

(** an address word of an allow list: not empty, no separator, UTF-8, not the word [&>] *)
Definition addr_word (w : bytes) : Prop :=
  PresentLine.word_ok w = true /\ w <> [] /\ w <> PresentLine.PRESENT_INTERNAL_AND_TRIMMED.

Lemma group_words_args n acc ws :
  Forall addr_word ws -> PresentLine.group_words (Some (n, acc)) (PresentLine.nonempty_words ws) = [(n, acc ++ ws)].
Proof.
  revert acc. induction ws as [|w ws IH]; intros acc H; cbn [PresentLine.nonempty_words filter PresentLine.group_words].
  - rewrite app_nil_r. reflexivity.
  - inversion H as [|x l (Hw & Hne & Hand) Hr]; subst.
    destruct w as [|c w]; [contradiction|]. cbn [PresentLine.group_words].
    destruct (beq (c :: w) PresentLine.PRESENT_INTERNAL_AND_TRIMMED) eqn:E; [apply beq_eq in E; contradiction|].
    fold (PresentLine.nonempty_words ws). rewrite IH by exact Hr. rewrite <- app_assoc. reflexivity.
Qed.

Lemma allow_list_any_length_lemma (addrs : list bytes) (crlf : bool) (rest : bytes) :
  Forall addr_word addrs ->
  line_of (PresentLine.render_line (N_ALLOW :: addrs) crlf ++ rest) =
    Some {| PresentLine.p_entries := [(N_ALLOW, addrs)];
            PresentLine.p_data_start := length (PresentLine.render_line (N_ALLOW :: addrs) crlf);
            PresentLine.p_body := rest |} /\
  entries_of (PresentLine.render_line (N_ALLOW :: addrs) crlf ++ rest) = [(N_ALLOW, addrs)].
Proof.
  intros H.
  assert (Hg : PresentLine.group_words None (PresentLine.nonempty_words (N_ALLOW :: addrs)) = [(N_ALLOW, addrs)]).
  { change (PresentLine.nonempty_words (N_ALLOW :: addrs)) with (N_ALLOW :: PresentLine.nonempty_words addrs).
    cbn [PresentLine.group_words]. change (beq N_ALLOW PresentLine.PRESENT_INTERNAL_AND_TRIMMED) with false. cbv iota.
    apply (group_words_args N_ALLOW [] addrs H). }
  assert (Hok : PresentLine.line_words_ok (N_ALLOW :: addrs)).
  { split.
    - constructor; [vm_compute; reflexivity|]. eapply Forall_impl; [|exact H]. intros w (Hw & _). exact Hw.
    - destruct addrs as [|a r]; [vm_compute; reflexivity|].
      cbn [PresentLine.render_words]. reflexivity. }
  destruct (guard_line_any_length_lemma (N_ALLOW :: addrs) crlf rest Hok) as [E1 E2].
  rewrite Hg in E1, E2. split; assumption.
Qed.

(** ... so an allow list of ANY length refuses every address that is not on it, and serves those that are *)
Lemma long_allow_list_decides_lemma :
  forall (cors : bool) (fs : bytes -> option bytes) (errpage : N -> bytes) (tmpl : list bytes -> bytes -> bytes),
    first_tmpl (entries_of (errpage 404)) = None ->
  forall r ov t (addrs : list bytes) (crlf : bool) (rest : bytes),
    Forall addr_word addrs ->
    served_file (rq_path r) = Ok (Some t) -> fs t = Some (PresentLine.render_line (N_ALLOW :: addrs) crlf ++ rest) ->
    get_or_head (rq_method r) = true -> (cors && is_cors_fail ov) = false ->
    (existsb (arg_matches (rq_addr r)) addrs = false ->
       f_status (layer_b true true true cors fs errpage tmpl r ov true) = 404 /\
       f_body (layer_b true true true cors fs errpage tmpl r ov true) = host_404_body errpage) /\
    (existsb (arg_matches (rq_addr r)) addrs = true -> is_private t = false ->
       f_status (layer_b true true true cors fs errpage tmpl r ov true) = 200 /\
       f_body (layer_b true true true cors fs errpage tmpl r ov true) = rest /\
       f_spref (layer_b true true true cors fs errpage tmpl r ov true) = SP_NONE).
Proof.
  intros cors fs errpage tmpl Herr r ov t addrs crlf rest Ha Es Ef Em Ec.
  destruct (allow_list_any_length_lemma addrs crlf rest Ha) as [El Ee].
  split.
  - intros Hn.
    apply (guarded_answer_is_404_lemma cors fs errpage tmpl Herr r ov t _ Es Ef Em Ec).
    + rewrite Ee. reflexivity.
    + right. rewrite Ee. cbn [listed forallb fst snd]. change (beq N_ALLOW N_ALLOW) with true. cbv iota.
      rewrite Hn. reflexivity.
  - intros Hy Hp.
    pose proof (private_hit_served _ _ Es) as Hph. rewrite Hp in Hph.
    unfold layer_b, base. cbn [negb]. rewrite Es, Ec, Em, Ef.
    unfold present. cbn [ps_body file_pst]. rewrite El, Hph.
    cbn [PresentLine.p_entries PresentLine.p_body fold_left ps_status ps_headers ps_spref ps_cpref ps_locked file_pst].
    unfold step. change (beq N_ALLOW N_HIDE) with false. change (beq N_ALLOW N_ALLOW) with true. cbv iota.
    unfold do_allow. rewrite Hy. cbn. auto.
Qed.

(** [handle_vary_missing] for an [allow-ips] file: whatever item of whatever earlier world the lookup found, the answer computed now
    (for a listed or an unlisted client) is not pushed into it — the cache is left as the lookup left it *)
Lemma allow_ips_variant_never_pushed_lemma :
  forall (fix_errline cors : bool) (fs : bytes -> option bytes) (errpage : N -> bytes) (tmpl : list bytes -> bytes -> bytes)
         cache_on ims_on fix_svary fix_qmkey sfilter refuses vary_tuple vary_header c1 now r ov k e t c,
    served_file (rq_path r) = Ok (Some t) -> fs t = Some c -> is_hidden t c = false -> is_allow_ips c = true ->
    get_or_head (rq_method r) = true -> (cors && is_cors_fail ov) = false ->
    fst (fst (vary_missingX unit (compute_g true true fix_errline cors fs errpage tmpl) cache_on ims_on true fix_svary fix_qmkey sfilter
                            (negotiate_g errpage refuses) vary_tuple vary_header c1 tt now r ov true k e)) = (c1, tt).
Proof.
  intros fix_errline cors fs errpage tmpl cache_on ims_on fix_svary fix_qmkey sfilter refuses vary_tuple vary_header c1 now r ov k e t c
         Es Ef Hh Ha Hm Hc.
  destruct (allow_ips_never_stored_lemma fix_errline cors fs errpage tmpl r ov t c cache_on sfilter Es Ef Hh Ha Hm Hc) as [_ Hns].
  unfold vary_missingX. cbn [compute_g]. rewrite Hns. cbn [andb fst]. reflexivity.
Qed.
