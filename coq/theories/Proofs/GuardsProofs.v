(** C17 — proofs about Model/Guards.v. *)
From KV Require Import Guards CacheProofs.
From Coq Require Import ZifyBool ZifyNat ZifyN.
Open Scope N_scope.
