(** Proofs about Model/Templates.v: the repaired template engine never panics, for every template file and every page
    body; [extract_templates] as it was panics on a template file whose last template is empty. *)
From Coq Require Import Lia List Bool.
From Coq Require Import ZifyBool ZifyNat ZifyN.
From KV Require Import Bytes RustInt Templates.
From KV Require PathSan.
Import ListNotations.
Open Scope N_scope.

Lemma slice_chk_in lo hi (s : bytes) : (lo <= hi)%nat -> (hi <= length s)%nat -> slice_chk lo hi s = Ok (slice lo hi s).
Proof.
  intros H1 H2. unfold slice_chk, slice_get.
  replace (Nat.leb lo hi && Nat.leb hi (length s))%bool with true; [reflexivity|].
  symmetry. apply andb_true_iff. split; apply Nat.leb_le; assumption.
Qed.

Lemma byte_at_is_lt file i c : byte_at_is file i c = true -> (i < length file)%nat.
Proof.
  unfold byte_at_is. destruct (nth_error file i) as [x|] eqn:E; [|discriminate].
  intros _. apply nth_error_Some. rewrite E. discriminate.
Qed.

(** ** What precedes a placeholder *)

Lemma last_error_app {A} (l : list A) x : last_error (l ++ [x]) = Some x.
Proof. unfold last_error. rewrite rev_app_distr. reflexivity. Qed.

(** The last byte of [file[position-2..position]] is [file[position-1]]. *)
Lemma last_of_previous file position :
  (1 <= position <= length file)%nat ->
  last_error (slice (position - 2) position file) = nth_error file (position - 1).
Proof.
  intros Hp. unfold slice.
  destruct (nth_error file (position - 1)) as [y|] eqn:Ey.
  2:{ apply nth_error_None in Ey. lia. }
  apply nth_error_split in Ey as (l1 & l2 & -> & Hl1).
  destruct (Nat.eq_dec position 1) as [->|Hne].
  - cbn in Hl1. destruct l1; [|discriminate]. cbn. reflexivity.
  - replace (position - (position - 2))%nat with 2%nat by lia.
    destruct (rev l1) as [|z rl] eqn:Erl.
    + apply (f_equal (@length N)) in Erl. rewrite rev_length in Erl. cbn in Erl. lia.
    + assert (El1 : l1 = rev rl ++ [z]) by (rewrite <- (rev_involutive l1), Erl; reflexivity).
      subst l1. rewrite app_length in Hl1. cbn [length] in Hl1.
      rewrite <- !app_assoc. cbn [app].
      replace (position - 2)%nat with (length (rev rl)) by lia.
      rewrite skipn_app, skipn_all, Nat.sub_diag. cbn [skipn app firstn].
      unfold last_error. cbn. reflexivity.
Qed.

Ltac kyes k Hy := exists k; split; [reflexivity|]; split; [auto|]; intros _; split; [lia|]; apply N.eqb_eq in Hy; subst; reflexivity.
Ltac kno := exists 0; split; [reflexivity|]; split; [auto|]; intros Hk0; contradiction.

Lemma dollar_kind_ok file position :
  (position <= length file)%nat ->
  exists k, dollar_kind file position = Ok k /\ (k = 0 \/ k = 1 \/ k = 2) /\
            (k <> 0 -> (1 <= position)%nat /\ nth_error file (position - 1) = Some c_bs).
Proof.
  intros Hp. unfold dollar_kind. rewrite slice_chk_in by lia. cbn [obind].
  destruct (Nat.eq_dec position 0) as [->|Hpos].
  - unfold slice. cbn. kno.
  - rewrite last_of_previous by lia.
    destruct (nth_error file (position - 1)) as [y|] eqn:Ey.
    2:{ apply nth_error_None in Ey. lia. }
    destruct (if (length (slice (position - 2) position file) =? 1)%nat then None else hd_error (slice (position - 2) position file)) as [x|].
    + destruct ((x =? c_bs) && (y =? c_bs))%bool eqn:E2.
      * apply andb_true_iff in E2 as [_ Hy]. kyes 2 Hy.
      * destruct (y =? c_bs) eqn:Ey1; [kyes 1 Ey1|kno].
    + destruct (y =? c_bs) eqn:Ey1; [kyes 1 Ey1|kno].
Qed.

Lemma placeholder_key_ok file ps position :
  (position <= length file)%nat -> exists k, placeholder_key file ps position = Ok k.
Proof.
  intros Hp. unfold placeholder_key. destruct (ps + 3 <=? position)%nat eqn:E; [|eauto].
  apply Nat.leb_le in E. rewrite slice_chk_in by lia. cbn [obind]. eauto.
Qed.

(** ** [extract_templates] (repaired) *)

Definition x_inv (file : bytes) (st : xstate) : Prop :=
  (x_placeholder st = false -> exists s, x_start st = Some s) /\
  (forall n, x_name st = Some n -> x_placeholder st = false) /\
  (forall s, x_start st = Some s -> (s <= length file)%nat).

Lemma x_step_ok file position byte st :
  (position < length file)%nat -> x_inv file st ->
  exists st', x_step file position byte st = Ok st' /\ x_inv file st'.
Proof.
  intros Hp (Htext & Hname & Hstart). unfold x_step.
  destruct (x_placeholder st) eqn:Epl.
  - destruct (negb (x_esc st =? 1) && (byte =? c_close))%bool.
    + destruct (placeholder_key_ok file (x_ps st) position) as [key ->]; [lia|]. cbn [obind].
      eexists; split; [reflexivity|]. unfold x_inv. cbn [x_placeholder x_start x_name].
      split; [intros _; eauto|]. split; [reflexivity|].
      intros s Hs. inversion Hs; subst s.
      set (nl := if byte =? 13 then 2%nat else x_nl st).
      destruct (byte_at_is file (position + nl) 10) eqn:E1; [apply byte_at_is_lt in E1; lia|].
      destruct (byte_at_is file (position + 1) 32) eqn:E2; [apply byte_at_is_lt in E2; lia|lia].
    + eexists; split; [reflexivity|]. unfold x_inv. cbn [x_placeholder x_start x_name].
      split; [discriminate|]. split; [|exact Hstart].
      intros n Hn. specialize (Hname n Hn). congruence.
  - rewrite slice_chk_in by lia. cbn [obind].
    destruct (starts_with s_open _).
    2:{ eexists; split; [reflexivity|]. unfold x_inv. cbn [x_placeholder x_start x_name].
        split; [intros _; apply Htext; reflexivity|]. split; [reflexivity|exact Hstart]. }
    destruct (dollar_kind_ok file position) as (k & -> & Hk & Hk0); [lia|]. cbn [obind].
    destruct (k =? 1) eqn:Ek1.
    { eexists; split; [reflexivity|]. unfold x_inv. cbn [x_placeholder x_start x_name].
      split; [intros _; apply Htext; reflexivity|]. split; [reflexivity|exact Hstart]. }
    assert (Hend : exists end0, (if k =? 2 then match position with O => Panic | S p => Ok p end else Ok position) = Ok end0 /\ (end0 <= position)%nat).
    { destruct (k =? 2) eqn:Ek2; [|eauto]. destruct position as [|p]; [|exists p; split; [reflexivity|lia]].
      exfalso. assert (k <> 0) by (apply N.eqb_eq in Ek2; lia). destruct (Hk0 H) as [H1 _]. lia. }
    destruct Hend as (end0 & -> & Hend0). cbn [obind].
    destruct (x_name st) as [name|] eqn:En.
    + destruct (Htext eq_refl) as [s Es]. rewrite Es. specialize (Hstart s Es).
      rewrite slice_chk_in by lia. cbn [obind].
      eexists; split; [reflexivity|]. unfold x_inv. cbn [x_placeholder x_start x_name].
      split; [discriminate|]. split; [discriminate|discriminate].
    + eexists; split; [reflexivity|]. unfold x_inv. cbn [x_placeholder x_start x_name].
      split; [discriminate|]. split; [discriminate|exact Hstart].
Qed.

Lemma x_loop_ok file : forall rest position st,
  (position + length rest = length file)%nat -> x_inv file st ->
  exists st', x_loop file rest position st = Ok st' /\ x_inv file st'.
Proof.
  induction rest as [|byte r IH]; intros position st Hp Hinv; cbn [x_loop].
  - eauto.
  - cbn [length] in Hp. destruct (x_step_ok file position byte st) as (st1 & -> & Hinv1); [lia|assumption|].
    cbn [obind]. apply IH; [lia|assumption].
Qed.

Lemma x_init_inv file : x_inv file x_init.
Proof.
  unfold x_inv, x_init. cbn [x_placeholder x_start x_name]. split; [eauto|]. split; [discriminate|].
  intros s Hs. inversion Hs. lia.
Qed.

Lemma trim_le file :
  ((if byte_at_is file (length file - 2) 13 then 1 else 0) + (if byte_at_is file (length file - 1) 10 then 1 else 0) <= length file)%nat.
Proof.
  destruct (byte_at_is file (length file - 2) 13) eqn:E1; destruct (byte_at_is file (length file - 1) 10) eqn:E2; try lia.
  - pose proof (byte_at_is_lt _ _ _ E1). pose proof (byte_at_is_lt _ _ _ E2).
    destruct (Nat.eq_dec (length file) 1) as [H1|]; [|lia].
    exfalso. rewrite H1 in E1, E2. cbn in E1, E2. unfold byte_at_is in E1, E2.
    destruct (nth_error file 0) as [x|]; [|discriminate].
    apply N.eqb_eq in E1. apply N.eqb_eq in E2. lia.
  - pose proof (byte_at_is_lt _ _ _ E1). lia.
  - pose proof (byte_at_is_lt _ _ _ E2). lia.
Qed.

Lemma extract_templates_ok file : exists m, extract_templates false file = Ok m.
Proof.
  unfold extract_templates.
  destruct (x_loop_ok file file 0 x_init eq_refl (x_init_inv file)) as (st & -> & Htext & Hname & Hstart).
  cbn [obind]. destruct (x_name st) as [name|] eqn:En; [|eauto].
  destruct (Htext (Hname name eq_refl)) as [s Es]. rewrite Es. specialize (Hstart s Es).
  pose proof (trim_le file) as Htrim.
  match goal with |- context [(length file <? ?t)%nat] => destruct (Nat.ltb_spec (length file) t) as [Hlt|_]; [lia|] end.
  rewrite slice_chk_in by lia. cbn [obind]. eauto.
Qed.

(** ** [handle_template] *)

Lemma first_line_end_bound rest : forall pos e,
  first_line_end rest pos = Some e -> (pos <= e < pos + length rest)%nat.
Proof.
  induction rest as [|byte r IH]; intros pos e; cbn [first_line_end length]; [discriminate|].
  destruct ((48 <=? pos)%nat || (byte =? 10))%bool; [intros H; inversion H; subst; lia|].
  intros H. apply IH in H. lia.
Qed.

Lemma skip_ignore_line_ok body : exists file, skip_ignore_line body = Ok file.
Proof.
  unfold skip_ignore_line. destruct (first_line_end body 0) as [e|] eqn:E; [|eauto].
  apply first_line_end_bound in E. destruct (e =? 48)%nat; [eauto|].
  rewrite slice_chk_in by lia. cbn [obind]. destruct (_ && _)%bool; [|eauto].
  rewrite slice_chk_in by lia. eauto.
Qed.

(** In the text stage the start of the pending text is known, is not after the position, and can only BE the position
    right after a closed placeholder (or at the very beginning); inside a placeholder it has been taken. *)
Definition h_inv (file : bytes) (position : nat) (st : hstate) : Prop :=
  (h_placeholder st = false ->
   exists s, h_start st = Some s /\ (s <= position)%nat /\
             (s = position -> s = 0%nat \/ nth_error file (s - 1) = Some c_close)) /\
  (h_placeholder st = true -> h_start st = None).

Lemma h_step_ok lookup file position byte st :
  (forall k, lookup k <> Panic) ->
  (position < length file)%nat -> nth_error file position = Some byte -> h_inv file position st ->
  (exists st', h_step lookup file position byte st = Ok st' /\ h_inv file (S position) st') \/
  (exists e, h_step lookup file position byte st = Err e).
Proof.
  intros Hlk Hp Hbyte [Hinv Hnone]. unfold h_step.
  destruct (h_placeholder st) eqn:Epl.
  - destruct (negb (h_esc st =? 1) && (byte =? c_close))%bool eqn:Eclose.
    + destruct (placeholder_key_ok file (h_ps st) position) as [key ->]; [lia|]. cbn [obind].
      assert (Hb : byte = c_close) by (apply andb_true_iff in Eclose as [_ H]; apply N.eqb_eq in H; exact H).
      assert (Hnew : forall out, h_inv file (S position) (mkH false (h_ps st) (esc_next (h_esc st) byte) (Some (S position)) out)).
      { intros out. split; [|discriminate]. intros _. cbn [h_start]. exists (S position).
        split; [reflexivity|]. split; [lia|]. intros _. right. replace (S position - 1)%nat with position by lia. congruence. }
      destruct key as [k|].
      * specialize (Hlk k). destruct (lookup k) as [t|e|]; cbn [obind]; [|right; eauto|contradiction].
        left. eexists; split; [reflexivity|apply Hnew].
      * cbn [obind]. left. eexists; split; [reflexivity|apply Hnew].
    + left. eexists; split; [reflexivity|]. split; [discriminate|]. intros _. cbn [h_start]. apply Hnone. reflexivity.
  - destruct (Hinv eq_refl) as (s & Es & Hs & Hseq).
    rewrite slice_chk_in by lia. cbn [obind].
    destruct (starts_with s_open _).
    2:{ left. eexists; split; [reflexivity|]. split; [|discriminate]. intros _. cbn [h_start]. exists s.
        split; [assumption|]. split; [lia|]. intros H; lia. }
    destruct (dollar_kind_ok file position) as (k & -> & Hk & Hk0); [lia|]. cbn [obind]. rewrite Es.
    destruct (k =? 0) eqn:Ek0.
    + rewrite slice_chk_in by lia. cbn [obind]. left. eexists; split; [reflexivity|]. split; [discriminate|reflexivity].
    + assert (Hkne : k <> 0) by (intros ->; discriminate). destruct (Hk0 Hkne) as [Hp1 Hprev].
      destruct position as [|p]; [lia|]. replace (S p - 1)%nat with p in Hprev by lia.
      assert (Hsp : (s <= p)%nat).
      { destruct (Nat.eq_dec s (S p)) as [Heq|]; [|lia]. exfalso. destruct (Hseq Heq) as [H0|Hc]; [lia|].
        subst s. replace (S p - 1)%nat with p in Hc by lia. rewrite Hprev in Hc. inversion Hc. }
      rewrite slice_chk_in by lia. cbn [obind]. left.
      destruct (k =? 2).
      * eexists; split; [reflexivity|]. split; [discriminate|reflexivity].
      * eexists; split; [reflexivity|]. split; [|discriminate]. intros _. cbn [h_start]. exists (S p).
        split; [reflexivity|]. split; [lia|]. intros H; lia.
Qed.

Lemma skipn_S_tl {A} n : forall l : list A, skipn (S n) l = tl (skipn n l).
Proof. induction n as [|n IH]; intros [|x l]; cbn [skipn tl]; auto. apply IH. Qed.

Lemma h_loop_ok lookup file : (forall k, lookup k <> Panic) -> forall rest position st,
  rest = skipn position file -> (position + length rest = length file)%nat -> h_inv file position st ->
  (exists st', h_loop lookup file rest position st = Ok st' /\ h_inv file (length file) st') \/
  (exists e, h_loop lookup file rest position st = Err e).
Proof.
  intros Hlk. induction rest as [|byte r IH]; intros position st Hrest Hp Hinv; cbn [h_loop].
  - left. exists st. split; [reflexivity|]. cbn [length] in Hp. replace (length file) with position by lia. assumption.
  - cbn [length] in Hp.
    assert (Hbyte : nth_error file position = Some byte).
    { rewrite <- (firstn_skipn position file) at 1. rewrite nth_error_app2 by (rewrite firstn_length; lia).
      rewrite firstn_length, <- Hrest. replace (position - Nat.min position (length file))%nat with 0%nat by lia. reflexivity. }
    destruct (h_step_ok lookup file position byte st Hlk) as [(st1 & -> & Hinv1)|(e & ->)]; [lia|assumption|assumption| |right; cbn [obind]; eauto].
    cbn [obind]. apply IH; [|lia|assumption].
    rewrite skipn_S_tl, <- Hrest. reflexivity.
Qed.

Lemma handle_template_no_panic lookup body :
  (forall k, lookup k <> Panic) -> handle_template lookup body <> Panic.
Proof.
  intros Hlk. unfold handle_template. destruct (skip_ignore_line_ok body) as [file ->]. cbn [obind].
  destruct (h_loop_ok lookup file Hlk file 0 (mkH false 0 0 (Some O) []) eq_refl eq_refl) as [(st & -> & Hinv & Hnone)|(e & ->)].
  - split; [|discriminate]. intros _. cbn [h_start]. exists 0%nat. split; [reflexivity|]. split; [lia|]. intros _. left. reflexivity.
  - cbn [obind]. destruct (h_placeholder st) eqn:Epl.
    + rewrite (Hnone eq_refl). discriminate.
    + destruct (Hinv eq_refl) as (s & -> & Hs & _). rewrite slice_chk_in by lia. cbn [obind]. discriminate.
  - cbn [obind]. discriminate.
Qed.

(** The whole engine, repaired: every template file (or none), every page body. *)
Lemma render_no_panic tfile body : render false tfile body <> Panic.
Proof.
  unfold render. apply handle_template_no_panic. intros k. destruct tfile as [f|]; [|discriminate].
  destruct (extract_templates_ok f) as [m ->]. cbn [obind]. discriminate.
Qed.

(** [extract_templates] as it was: a template file that ends right after a name and a line feed. *)
Definition empty_last : bytes := Eval vm_compute in B "$[a]" ++ [10].
Lemma render_v0_panics :
  extract_templates true empty_last = Panic /\ render true (Some empty_last) (B "<p>$[a]</p>") = Panic /\
  render false (Some empty_last) (B "<p>$[a]</p>") = Ok (B "<p></p>") /\
  (* a page without a complete placeholder never reads the template file *)
  render true (Some empty_last) (B "<p>no placeholder $[</p>") = Ok (B "<p>no placeholder ").
Proof. vm_compute. repeat split. Qed.
