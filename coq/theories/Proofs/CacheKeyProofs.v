(** C03 — cache keys separate URIs: [PathQuery] (string + position of the path/query boundary) determines the path
    and the (non-empty) query, [Path] and [PathQuery] keys never coincide; the transparency and hit theorems of
    Proofs/CacheXProofs.v restated with path and query instead of [path_query]. *)
From KV Require Import Bytes RustInt Range CacheControl Cache CacheProofs Cache04Proofs Fixture CacheX CacheXProofs CacheKey.
From Coq Require Import ZifyBool ZifyNat ZifyN.
Open Scope N_scope.

Definition query_bytes (r : request) : bytes := match rq_query r with Some q => q | None => [] end.

Lemma path_query_is r : path_query r = (rq_path r ++ query_bytes r, length (rq_path r)).
Proof.
  unfold path_query, query_bytes. destruct (rq_query r) as [q|]; [reflexivity|]. rewrite app_nil_r. reflexivity.
Qed.

Lemma eff_query_is r : eff_query r = match query_bytes r with [] => None | c :: q => Some (c :: q) end.
Proof. unfold eff_query, query_bytes. destruct (rq_query r) as [[|c q]|]; reflexivity. Qed.

Lemma query_bytes_of_eff r r' : eff_query r = eff_query r' -> query_bytes r = query_bytes r'.
Proof.
  rewrite !eff_query_is. destruct (query_bytes r) as [|c q], (query_bytes r') as [|c' q']; intros H;
    try discriminate; [reflexivity|]. inversion H. reflexivity.
Qed.

(** [PathQuery] equality = same path and same (non-empty) query: the boundary position keeps "/a" + "b" and
    "/ab" apart *)
Lemma path_query_inj r r' : path_query r = path_query r' <-> rq_path r = rq_path r' /\ eff_query r = eff_query r'.
Proof.
  split.
  - intros H. pose proof (path_query_path _ _ H) as P. split; [exact P|].
    rewrite !path_query_is, P in H. inversion H as [A]. apply app_inv_head in A.
    rewrite !eff_query_is, A. reflexivity.
  - intros [P Q]. rewrite !path_query_is, P, (query_bytes_of_eff _ _ Q). reflexivity.
Qed.

Lemma key_pq_inj r r' : key_pq r = key_pq r' <-> rq_path r = rq_path r' /\ eff_query r = eff_query r'.
Proof.
  rewrite <- path_query_inj. unfold key_pq.
  destruct (path_query r) as [s i], (path_query r') as [s' i']. split; intros H; inversion H; reflexivity.
Qed.

Lemma key_p_inj r r' : key_p r = key_p r' <-> rq_path r = rq_path r'.
Proof. unfold key_p. split; intros H; [inversion H; reflexivity | rewrite H; reflexivity]. Qed.

Lemma key_kinds_apart r r' : key_p r <> key_pq r'.
Proof. unfold key_p, key_pq. destruct (path_query r'). discriminate. Qed.

(** what the cache compares ([key_eqb], the derived PartialEq/Hash) on the keys of two URIs *)
Lemma key_eqb_uri r r' :
  (key_eqb (key_pq r) (key_pq r') = true <-> rq_path r = rq_path r' /\ eff_query r = eff_query r') /\
  (key_eqb (key_p r) (key_p r') = true <-> rq_path r = rq_path r') /\
  key_eqb (key_p r) (key_pq r') = false /\ key_eqb (key_pq r) (key_p r') = false.
Proof.
  split; [|split; [|split]].
  - rewrite key_eqb_eq. apply key_pq_inj.
  - rewrite key_eqb_eq. apply key_p_inj.
  - apply key_eqb_neq. apply key_kinds_apart.
  - apply key_eqb_neq. intros E. symmetry in E. exact (key_kinds_apart _ _ E).
Qed.

(** the boundary position is needed: comparing the concatenation alone identifies two URIs with different paths *)
Lemma query_start_needed_w :
  let r := rq_get (B "/a") (Some (B "b")) in let r' := rq_get (B "/ab") None in
  fst (path_query r) = fst (path_query r') /\ key_eqb_string_only (key_pq r) (key_pq r') = true /\
  key_eqb (key_pq r) (key_pq r') = false /\ rq_path r <> rq_path r'.
Proof. cbv zeta. repeat split; try (vm_compute; reflexivity). vm_compute. discriminate. Qed.

(** the key is made from the raw path: whichever of its two keys an entry is stored under for one URI and looked up
    with for another, equal keys mean equal RAW paths — also when the percent-decoded paths coincide *)
Lemma key_is_raw_path_x r r' k k' :
  In k [key_pq r; key_p r] -> In k' [key_pq r'; key_p r'] -> key_eqb k k' = true -> rq_path r = rq_path r'.
Proof.
  destruct (key_eqb_uri r r') as (PQ & P & A1 & A2).
  intros [<-|[<-|[]]] [<-|[<-|[]]] E.
  - apply PQ in E. exact (proj1 E).
  - rewrite A2 in E. discriminate.
  - rewrite A1 in E. discriminate.
  - apply P in E. exact E.
Qed.

(** ... and it has to be: kvarn routes on the raw path.  With the path of the key percent-decoded (the seeded change
    C03-6) "/page" and "/p%61ge" share both keys, although a host whose only Prepare extension is bound to "/page"
    answers the first with the page and the second with 404 *)
Definition w9_handlers : list hspec := [mkH (B "/page") 0 200 (B "generated page") [] SP_FULL 0 false []].
Definition w9_status (p : bytes) : N :=
  f_status (fx_fat (fst (fst (compute_x true w9_handlers [] (repeat 0 9) (rq_get p None) None true)))).
Lemma decoded_key_collides_refuted_w :
  let r := rq_get (B "/page") None in let r' := rq_get (B "/p%61ge") None in
  rq_path r <> rq_path r' /\
  key_eqb (key_pq_decoded r) (key_pq_decoded r') = true /\ key_eqb (key_p_decoded r) (key_p_decoded r') = true /\
  key_eqb (key_pq r) (key_pq r') = false /\ key_eqb (key_p r) (key_p r') = false /\
  w9_status (rq_path r) = 200 /\ w9_status (rq_path r') = 404.
Proof. cbv zeta. split; [vm_compute; discriminate|]. repeat split; vm_compute; reflexivity. Qed.

Section UriLevel.
  Variable hstate : Type.
  Variable compute : hstate -> request -> option (bytes * option bytes) -> bool -> fatx * hstate * list bytes.
  Variable ims_on : bool.
  Variable fix_clear : bool.
  Variable sfilter : N -> bool.
  Variable parse_ims : bytes -> option Z.
  Variable sanitize_ok : request -> bool.
  Variable prime : request -> request.
  Variable override : request -> option (bytes * option bytes).
  Variable negotiate : request -> fatx -> option (N * bytes).
  Variable vary_tuple : request -> option (bytes * option bytes) -> tuple.
  Variable vary_header : request -> option (bytes * option bytes) -> fatx -> list (bytes * bytes).
  Variable clear_alias : request -> option request.
  Variable cf : request -> option (bytes * option bytes) -> bool -> fatx.
  Hypothesis Hpure : forall hs r ov ok, fst (fst (compute hs r ov ok)) = cf r ov ok.
  (** the handler contract in terms of the URI: same method class, same vary tuple, same path and — for
      QueryMatters — same query give the same response *)
  Hypothesis contract_uri : forall r ov r' ov',
    get_or_head (rq_method r) = true -> get_or_head (rq_method r') = true ->
    vary_tuple r ov = vary_tuple r' ov' -> rq_path (lookup_req r ov) = rq_path (lookup_req r' ov') ->
    (qmx (cf r ov true) = true -> eff_query (lookup_req r ov) = eff_query (lookup_req r' ov')) ->
    cf r ov true = cf r' ov' true.
  Hypothesis Herr : forall r ov, f_spref (fx_fat (cf r ov false)) = SP_NONE.

  Lemma contract_of_uri : forall r ov r' ov',
    get_or_head (rq_method r) = true -> get_or_head (rq_method r') = true ->
    vary_tuple r ov = vary_tuple r' ov' -> rq_path (lookup_req r ov) = rq_path (lookup_req r' ov') ->
    (qmx (cf r ov true) = true -> path_query (lookup_req r ov) = path_query (lookup_req r' ov')) ->
    cf r ov true = cf r' ov' true.
  Proof.
    intros r ov r' ov' G G' T P Q. apply contract_uri; try assumption.
    intros Hq. apply (path_query_inj _ _). exact (Q Hq).
  Qed.

  Lemma run_simx_uri ops c hs cU hsU now :
    TInv vary_tuple cf c -> Forall (op_no_imsx ims_on prime) ops ->
    Forall2 obsx_equiv
      (runX hstate compute true ims_on true true fix_clear true true true sfilter parse_ims sanitize_ok prime
            override negotiate vary_tuple vary_header clear_alias (c, hs) now ops)
      (runX hstate compute false ims_on true true fix_clear true true true sfilter parse_ims sanitize_ok prime
            override negotiate vary_tuple vary_header clear_alias (cU, hsU) now ops).
  Proof.
    exact (run_simx hstate compute ims_on fix_clear sfilter parse_ims sanitize_ok prime override negotiate vary_tuple
             vary_header clear_alias cf Hpure contract_of_uri Herr ops c hs cU hsU now).
  Qed.
End UriLevel.

(** a hit serves what was computed for a request with the same path of the looked-up URI, the same vary tuple, a
    GET/HEAD method and — if the response is query-dependent — the same query *)
Lemma hit_same_uri_x (vary_tuple : request -> option (bytes * option bytes) -> tuple)
      (cf : request -> option (bytes * option bytes) -> bool -> fatx) c now lr k e c1 v :
  TInv vary_tuple cf c -> xlookup lr c now = ((k, Some e), c1) -> xv_find (v_tuple v) (ex_vars e) = Some v ->
  exists r1 ov1, get_or_head (rq_method r1) = true /\ vary_tuple r1 ov1 = v_tuple v /\ v_resp v = cf r1 ov1 true /\
                 rq_path (lookup_req r1 ov1) = rq_path lr /\
                 (qmx (v_resp v) = true -> eff_query (lookup_req r1 ov1) = eff_query lr).
Proof.
  intros I L V. destruct (hit_same_class_x vary_tuple cf c now lr k e c1 v I L V) as (r1 & ov1 & G & T & F & P & Q).
  exists r1, ov1. repeat split; try assumption. intros Hq. apply (path_query_inj _ _). exact (Q Hq).
Qed.
