(** C12 — proofs about Model/Limiter.v. *)
From KV Require Import Bytes RustInt Limiter.
Open Scope N_scope.
